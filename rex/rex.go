// Package rex translates Go regular expressions (regexp/syntax) into SMT-LIB
// regular-language terms over ASCII strings.
package rex

import (
	"fmt"
	"regexp/syntax"
	"strings"
)

// Translate returns an SMT-LIB RegLan term for the set of ASCII strings s with
// regexp.MatchString(pattern, s) == true (unanchored search semantics: a
// pattern without ^ / $ matches anywhere).
func Translate(pattern string) (string, error) {
	re, err := syntax.Parse(pattern, syntax.Perl)
	if err != nil {
		return "", err
	}
	re = re.Simplify()
	subs := []*syntax.Regexp{re}
	if re.Op == syntax.OpConcat {
		subs = re.Sub
	}
	begin, end := false, false
	if len(subs) > 0 && subs[0].Op == syntax.OpBeginText {
		begin = true
		subs = subs[1:]
	}
	if len(subs) > 0 && subs[len(subs)-1].Op == syntax.OpEndText {
		end = true
		subs = subs[:len(subs)-1]
	}
	var parts []string
	if !begin {
		parts = append(parts, "re.all")
	}
	for _, s := range subs {
		t, err := tr(s)
		if err != nil {
			return "", err
		}
		parts = append(parts, t)
	}
	if !end {
		parts = append(parts, "re.all")
	}
	return concat(parts), nil
}

func concat(parts []string) string {
	switch len(parts) {
	case 0:
		return `(str.to_re "")`
	case 1:
		return parts[0]
	}
	return "(re.++ " + strings.Join(parts, " ") + ")"
}

// Lit renders an SMT-LIB string literal for an ASCII byte string.
func Lit(s string) string {
	var sb strings.Builder
	sb.WriteByte('"')
	for i := 0; i < len(s); i++ {
		c := s[i]
		switch {
		case c == '"':
			sb.WriteString(`""`)
		case c == '\\' || c < 0x20 || c >= 0x7f:
			fmt.Fprintf(&sb, `\u{%x}`, c)
		default:
			sb.WriteByte(c)
		}
	}
	sb.WriteByte('"')
	return sb.String()
}

func fold(r rune) []rune {
	out := []rune{r}
	if r >= 'a' && r <= 'z' {
		out = append(out, r-32)
	}
	if r >= 'A' && r <= 'Z' {
		out = append(out, r+32)
	}
	return out
}

func tr(re *syntax.Regexp) (string, error) {
	switch re.Op {
	case syntax.OpEmptyMatch:
		return `(str.to_re "")`, nil
	case syntax.OpLiteral:
		if re.Flags&syntax.FoldCase == 0 {
			for _, r := range re.Rune {
				if r > 0x7f {
					return "re.none", nil
				}
			}
			return "(str.to_re " + Lit(string(re.Rune)) + ")", nil
		}
		var parts []string
		for _, r := range re.Rune {
			if r > 0x7f {
				return "re.none", nil
			}
			fs := fold(r)
			if len(fs) == 1 {
				parts = append(parts, "(str.to_re "+Lit(string(r))+")")
			} else {
				parts = append(parts, "(re.union (str.to_re "+Lit(string(fs[0]))+") (str.to_re "+Lit(string(fs[1]))+"))")
			}
		}
		return concat(parts), nil
	case syntax.OpCharClass:
		var alts []string
		for i := 0; i+1 < len(re.Rune); i += 2 {
			lo, hi := re.Rune[i], re.Rune[i+1]
			if lo > 0x7f {
				continue
			}
			if hi > 0x7f {
				hi = 0x7f
			}
			if lo == hi {
				alts = append(alts, "(str.to_re "+Lit(string(lo))+")")
			} else {
				alts = append(alts, "(re.range "+Lit(string(lo))+" "+Lit(string(hi))+")")
			}
		}
		switch len(alts) {
		case 0:
			return "re.none", nil
		case 1:
			return alts[0], nil
		}
		return "(re.union " + strings.Join(alts, " ") + ")", nil
	case syntax.OpAnyCharNotNL:
		return `(re.union (re.range "\u{0}" "\u{9}") (re.range "\u{b}" "\u{7f}"))`, nil
	case syntax.OpAnyChar:
		return `(re.range "\u{0}" "\u{7f}")`, nil
	case syntax.OpCapture:
		return tr(re.Sub[0])
	case syntax.OpStar, syntax.OpPlus, syntax.OpQuest:
		s, err := tr(re.Sub[0])
		if err != nil {
			return "", err
		}
		op := map[syntax.Op]string{syntax.OpStar: "re.*", syntax.OpPlus: "re.+", syntax.OpQuest: "re.opt"}[re.Op]
		return "(" + op + " " + s + ")", nil
	case syntax.OpRepeat:
		s, err := tr(re.Sub[0])
		if err != nil {
			return "", err
		}
		if re.Max < 0 {
			return fmt.Sprintf("(re.++ ((_ re.loop %d %d) %s) (re.* %s))", re.Min, re.Min, s, s), nil
		}
		return fmt.Sprintf("((_ re.loop %d %d) %s)", re.Min, re.Max, s), nil
	case syntax.OpConcat:
		var parts []string
		for _, x := range re.Sub {
			t, err := tr(x)
			if err != nil {
				return "", err
			}
			parts = append(parts, t)
		}
		return concat(parts), nil
	case syntax.OpAlternate:
		var parts []string
		for _, x := range re.Sub {
			t, err := tr(x)
			if err != nil {
				return "", err
			}
			parts = append(parts, t)
		}
		return "(re.union " + strings.Join(parts, " ") + ")", nil
	}
	return "", fmt.Errorf("unsupported regexp construct %v in %q", re.Op, re.String())
}

// Unquote decodes an SMT-LIB string literal as printed in a model.
func Unquote(s string) string {
	s = strings.TrimSpace(s)
	if len(s) >= 2 && s[0] == '"' && s[len(s)-1] == '"' {
		s = s[1 : len(s)-1]
	}
	var sb strings.Builder
	for i := 0; i < len(s); i++ {
		if s[i] == '"' && i+1 < len(s) && s[i+1] == '"' {
			sb.WriteByte('"')
			i++
			continue
		}
		if s[i] == '\\' && i+1 < len(s) && (s[i+1] == 'u' || s[i+1] == 'x') {
			// \u{h..} or \uhhhh or \xhh
			j := i + 2
			if j < len(s) && s[j] == '{' {
				k := strings.IndexByte(s[j:], '}')
				if k > 0 {
					var v int
					fmt.Sscanf(s[j+1:j+k], "%x", &v)
					sb.WriteByte(byte(v))
					i = j + k
					continue
				}
			}
			n := 4
			if s[i+1] == 'x' {
				n = 2
			}
			if j+n <= len(s) {
				var v int
				if _, err := fmt.Sscanf(s[j:j+n], "%x", &v); err == nil {
					sb.WriteByte(byte(v))
					i = j + n - 1
					continue
				}
			}
		}
		sb.WriteByte(s[i])
	}
	return sb.String()
}
