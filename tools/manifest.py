#!/usr/bin/env python3
"""Writes /verif/MANIFEST.json. Edit the tables below, then run: python3 tools/manifest.py"""
import json, os

ROOT = os.path.dirname(os.path.dirname(os.path.abspath(__file__)))

TECH = ("symbolic execution of the real Go functions from go/ssa (own executor, /verif/symgo) to SMT bit-vector "
        "obligations decided by z3; counterexamples replayed natively with go test -overlay")

CHECKS = {
    "C01": dict(
        category="translation_validation",
        text=("Per architecture and opcode (the family in the evidence file), the processor/ROM/arch Verilog written by the real generators "
              "(run natively at every check) is translated by /verif/vlog into a transition relation, the real procbuilder.VM.Step with its "
              "Decode_opcode and Opcode.Simulate is executed symbolically by /verif/symgo, and z3 decides that ONE retired instruction from "
              "an ARBITRARY state (every ROM word, pc, register, input, output register, handshake flag symbolic; the instruction at pc an "
              "instance of the opcode) leaves the same pc, every register and every output port on both sides. By induction over retired "
              "instructions this covers programs of any length over the checked opcodes for the checked architectures; it says nothing "
              "about architectures outside the family, modes vn/hy, RAM/handshaked/floating-point/shared-object/threaded/pipelined opcodes, "
              "or multi-cycle opcodes. The onlydestregs hardware optimisation (the processor generated for the destination registers a program uses) is "
              "covered for three architectures: the instruction under check then has its destination register in the recorded set."),
        note=("Trusted: z3, go/ssa, /verif/symgo, /verif/vlog (two-state semantics), cmd/bmnative. Assumes pc+1 exists in the ROM and that "
              "the simulator does not panic (out-of-range port index, division by zero). One genuine defect repaired (fix: 31ff0b2). "
              "ja and addi+i2r are kept out of the main opcode sets because the generated files do not elaborate (C18-class, see DESIGN)."),
        design="DESIGN.md section 3, C01; Appendix A; Changes after round 0",
        engine="symgo+vlog",
        technique="translation validation by SMT: generated Verilog (own Verilog->transition-relation translator) vs. go/ssa symbolic execution of the ISA simulator, one instruction from an arbitrary state, decided by z3"),
    "C02": dict(
        category="translation_validation",
        text=("Part (a), WIRING, for every bond graph of a seeded family built through the real Add_input/Add_output/Add_processor/Add_bond "
              "(up to 3 processors, N,M <= 2, external I/O, fan-out): (1) the top-level Verilog written by the real Write_verilog_main is "
              "elaborated by /verif/vlog with processors as black boxes whose output pins are free variables, and z3 decides for all pin "
              "values that every bonded consumer data/valid pin and every external output equals its producer, and every bonded producer's "
              "received line equals the AND of the received lines of exactly the inputs bonded to it; (2) the same relation is decided for "
              "the simulator's interconnect by symbolic execution of bondmachine.VM.Step (two ticks, processors running 'j 0', all port "
              "values symbolic). Part (b), bounded and per concrete program: for each source of a seeded one-CP family the real assembler is run "
              "natively, the real generators write the Verilog of the emitted machine (top level, arch wrapper, processor and the ROM with "
              "its GENERATED CONTENTS), /verif/vlog unrolls it from a reset cycle and z3 decides that after every cycle every external "
              "output and the pc, and at the horizon every register, equal the simulator's after the same number of ticks, FOR ALL values of "
              "the (constant) external inputs. Input streams, stalls, handshaked I/O and several processors are outside part (b); "
              "handshakes are decided on both back-ends under C04."),
        note=("Trusted: z3, /verif/vlog, /verif/symgo, cmd/bmnative. Graphs with an unbonded processor input are outside the family "
              "(the generated top level then references an undeclared wire and does not elaborate: C18-class). Shared objects, "
              "etherbond/udpbond and board top files are outside. Part (b) takes registers the generated reset does not assign (output "
              "registers) to power up at 0."),
        design="DESIGN.md section 3, C02; Changes after round 0 (R4)",
        engine="vlog+symgo",
        technique="generated top-level netlist -> combinational terms (own Verilog translator) and go/ssa symbolic execution of the simulator's interconnect, both checked against the bond-graph relation by z3"),
    "C03": dict(
        category="proof",
        text=("Bounded, per architecture and opcode, decided by SMT: the real Arch.Assembler_process_line, each Opcode.Assembler/"
              "Disassembler, Max_word, Opcodes_bits, Inputs/Outputs_bits, zeros_prefix, get_binary, get_id are executed symbolically; "
              "register/port indices (including out-of-range ones) and every value of a numeric operand of each enumerated bit length "
              "are solver variables. Obligations: accepted => every operand fits; accepted => word length == Max_word and binary; the "
              "opcode field decodes to the opcode; the disassembly names the same operands; re-assembling the disassembly gives the same "
              "word; no panic; and the field helpers get_id/zeros_prefix are correct for all bit strings of lengths up to 62. Holds for all values within the stated architecture family; architectures outside the family, modes vn/hy, "
              "shared-object and floating-point operands are outside the claim."),
        note=("Trusted: z3, go/ssa, /verif/symgo; stub: Process_number(decimal v) = minimal binary of v and strconv.Itoa round-trips "
              "through it (validated natively on 435 values at every run). Two genuine defects found by this check were repaired in /repo "
              "(fix: commits bc191a3, 7728b54; see known_findings.json)."),
        design="DESIGN.md section 3, C03; Changes after round 0"),
    "C04": dict(
        category="model_checking",
        text=("Bounded symbolic model checking of the real simulator: bondmachine.VM.Step (with its worker goroutines and channels), "
              "procbuilder.VM.Step, R2owa/I2rw.Simulate and the deferred-instruction machinery are executed symbolically for T ticks on a "
              "machine with one producer bonded to k consumers whose PROGRAMS (every ROM word) and initial registers are solver variables, so "
              "one run covers every instruction mix, padding and relative speed of that size. A ghost monitor asserts at every tick, for "
              "every consumer: the producer never passes an r2owa the consumer has not captured (no loss), a consumer never captures one "
              "offer twice (no duplicate), captured values equal the sent ones in order. In strict mode the check reproduces the two "
              "recorded defects (replayed natively with real goroutines); with exactly those two situations assumed away z3 shows the "
              "property for all programs within the bounds (fan-out: one producer to k consumers; fan-in: two producers into the two inputs of one consumer; port selection on processors with different input/output index widths); the producer-side situation is pinned to its cause (an r2owa starting on the tick after the "
              "previous one retired) so that a received flag stuck high for another reason is still reported. Configurations with delays give "
              "every opcode a single-delay distribution whose delay is a solver variable (SimDelayMap). HARDWARE side: the processor, ROM and "
              "top-level Verilog the real generators write for the same machines is unrolled by /verif/vlog for T cycles with symbolic ROM "
              "contents (bounded model checking from reset) under the same monitor; the hardware shows neither recorded defect."),
        note=("Trusted: z3, go/ssa, /verif/symgo including its goroutine model (run-until-block scheduler, non-blocking sends, two resume "
              "orders), /verif/vlog; bounded horizon and program size; simbox.DelayDistribution.GetValue stubbed by its contract (single-delay "
              "distributions, for which the real function is deterministic). Known findings: C04-double-i2rw, C04-back-to-back-r2owa, "
              "C04-consequence-order (simulator only)."),
        design="DESIGN.md section 3, C04; section 5; Changes after round 0",
        engine="symgo+vlog",
        technique="bounded symbolic model checking: go/ssa symbolic execution of the simulator for T ticks with symbolic programs, ghost-monitor assertions decided by z3, counterexamples replayed natively"),
    "C05": dict(
        category="translation_validation",
        text=("Translation validation per source. The real basm front-end (parser, passes, matcher/chooser, requirement inference, "
              "Assembler2BondMachine) is RUN NATIVELY on each source of a seeded family - it is not encodable - and for each emitted machine "
              "z3 decides that its simulation (bondmachine.VM.Step, procbuilder.VM.Step, Opcode.Simulate executed symbolically) produces, tick "
              "by tick, the external outputs - and at the horizon the registers - of a direct interpretation of the SOURCE TEXT (labels denote "
              "the following instruction, execution starts at the entry label, a macro call stands for its body, mov loads the value its "
              "literal denotes), FOR ALL values of the external inputs. Family: one CP, labels, entry, forward/backward j/jz, macros without "
              "arguments, mov with decimal/0x/0b/0d literals, inc/dec/add/clr/cpy/nop, i2r/r2o, register sizes 8/16. The program space is "
              "sampled (36 quick / 240 thorough sources), the input space is quantified; data sections, ramtext, fragments, several CPs, "
              "shared objects, call/ret and templates are outside; sources the front-end rejects are counted, not failed."),
        note=("Trusted: z3, go/ssa, /verif/symgo, cmd/bmnative, the ~150-line reference interpreter in harness/c05.go. Known findings: see "
              "known_findings.json (C05-*)."),
        design="DESIGN.md section 3, C05; Changes after round 0",
        technique="translation validation: real assembler run natively per source; go/ssa symbolic execution of the simulator on the emitted machine vs. a reference interpretation of the source on symbolic inputs, equality decided by z3"),
    "C06": dict(
        category="translation_validation",
        text=("Metamorphic translation validation. For each fragment graph of a family (four fixed shapes - diamond with a tapped source, chain "
              "through fragments whose result register differs from their input register, fork and join, one port feeding two instances - and "
              "seeded random graphs of 2-5 instances over addone, subone, sum2, sumb, dbl, fan2, swapsum, mul2) and each partition of its instances "
              "into processors (all collapsed, all separate, every convex two-block partition) the real basm front-end is RUN NATIVELY - fragment "
              "analyzer/composer, link resolution and register allocation are not encodable - and z3 decides, per emitted machine, that its "
              "simulation (all processors, handshaked links, bondmachine.VM.Step executed symbolically) delivers on every external output exactly "
              "the value of the graph's dataflow expression FOR ALL input values, and delivers it within the horizon. All partitions are compared "
              "with the same expression and hence with each other. The graph and partition space is sampled, the input space is quantified; "
              "streams of several values, stalls, cyclic quotient graphs and fragments with jumps or immediates are outside."),
        note=("Trusted: z3, go/ssa, /verif/symgo, cmd/bmnative, the dataflow evaluator in harness/c06.go. Known finding C06-io-order-deadlock "
              "(partitions in which producer and consumer order their blocking transfers differently never deliver), identified per configuration "
              "by a predicate the driver computes on the emitted programs."),
        design="DESIGN.md section 3, C06; Changes after round 0",
        technique="metamorphic translation validation: real assembler run natively per (graph, partition); go/ssa symbolic execution of the multi-processor simulator on symbolic inputs vs. the dataflow expression, decided by z3"),
    "C08": dict(
        category="proof",
        text=("Bounded (strings up to 64 characters, widths and bit counts of the stated family; not an unbounded proof). (a) Decided on the regular languages themselves: the real matcher registry (AllMatchers after init plus one member of each "
              "dynamic family, dumped by interpreting the current source) is translated to SMT-LIB regular languages and, for EVERY unordered "
              "pair of patterns, the solver shows that no ASCII string of length <= 64 is in both (z3; z3 5.1 and cvc5 cross-check in the "
              "thorough tier); a witness is replayed against the real registry. (b) For types bin, hex and unsigned, per (width, number of "
              "significant bits) and for ALL bit values: ExportBinaryNBits has exactly the stated width and rejects a too-small width, "
              "ExportVerilogBinary is <w>'b + w digits, and ImportString(ExportString(n)) has the same type, width and bits - by symbolic "
              "execution of the real export/import code including its regexp calls. Decimal values above 16 significant bits, float16/32, "
              "fixed point, FloPoCo and linear quantiser round trips are outside the claim (floating point / shelling out); Signed has no export."),
        note=("Trusted: z3 (strings + bit-vectors), /verif/rex translation (validated at every run against the real regexp engine on "
              "solver-generated members and mutated strings), /verif/symgo regexp models (class-uniform representative, greedy scan with "
              "solver-decided memberships, exact NFA simulation). One genuine defect repaired (fix: f0fe4e6), one recorded as known finding."),
        design="DESIGN.md section 3, C08; Changes after round 0",
        engine="rex+symgo",
        technique="SMT regular-language intersection (z3 str.in_re) for all pattern pairs; symbolic execution of export/import from go/ssa to bit-vector obligations"),
    "C09": dict(
        category="model_checking",
        text=("NARROWED to state isolation, the cause the property names. The real bondmachine.VM.Step / procbuilder.VM.Step / Opcode.Simulate "
              "are executed symbolically with programs (every ROM word over add,addp,cpy,dec,divp,inc,j,multp,nop,rset), registers and EVERY "
              "value of the hidden mutable state reachable from the opcode registry as solver variables, and z3 decides three 2-safety facts "
              "for T ticks: (0) the VM state after Step is the same for two resume orders of the per-processor workers; (1) a processor's "
              "state does not depend on another, unbonded processor of its VM; (2) a simulation's state does not depend on another "
              "simulation stepped in the same process; (3) of two simulations of the SAME Bondmachine object with different per-opcode delay sets "
              "(what cmd/simfinetune runs from several workers) each obeys its own delays; (4) data-race freedom of the executed runs: every load, store and map "
              "operation of the symbolic run is recorded per goroutine segment, the happens-before order of go statements, channel sends/receives "
              "(including receive -> completion of an unbuffered send) and mutexes is closed, and for every memory cell with conflicting accesses in "
              "unordered segments of different goroutines z3 decides that the two path guards cannot hold together (one VM with unbonded and with bonded "
              "processors, with and without opcode delays; two simulations each stepped by its own goroutine). Goroutine interleavings finer than a "
              "processor step, GOMAXPROCS, the native race detector's verdict, and the simbox/bmnumbers registries under concurrent callers are NOT decided by this check."),
        note=("Trusted: z3, go/ssa, /verif/symgo with its goroutine model; multiplications/divisions are first abstracted by uninterpreted "
              "functions (sound for 'holds'), a violated/inconclusive configuration is re-decided without abstraction; order-dependence "
              "counterexamples are confirmed by concrete evaluation of the model (a worker order cannot be forced on the Go scheduler), "
              "the others are replayed natively. One genuine defect repaired (fix: 70761df)."),
        design="DESIGN.md section 3, C09 (narrowed); section 5",
        technique="2-safety by self-composition inside one symbolic execution (go/ssa -> SMT), decided by z3; UF abstraction of mul/div with re-check"),
    "C10": dict(
        category="proof",
        text=("Bounded inductive step decided by SMT: for every endpoint shape built by real Add_* calls within the history-length bound "
              "and EVERY well-formed link table on it (solver variables), one edit (Del_input, Del_output, Add_input, Add_output, "
              "Add_processor, Del_bond, Add_bond, Attach_benchmark_core) with a symbolic argument keeps well-formedness and every untouched bond, and an "
              "out-of-range argument is an error that changes nothing. Because the pre-state is arbitrary, histories of any length over "
              "the covered shapes are covered; larger shapes are outside the claim. The quick tier samples the (shape, edit) configurations, "
              "stratified by edit kind; the thorough tier takes a larger stratified sample. Not an unbounded proof."),
        note="Trusted: z3 4.8.12, go/ssa, the /verif symbolic executor; ids assumed >= 0; Attach_benchmark_core is one of the edits (AttachBenchmarkCoreV2 is not).",
        design="DESIGN.md section 3, C10"),
    "C11": dict(
        category="proof",
        text=("Bounded (list lengths, string lengths and opcode names concrete per configuration; all field values symbolic; not an unbounded proof). The real Machine.Jsoner/Dejsoner, Bondmachine.Jsoner/Dejsoner, EventuallyCreateInstruction and every shared object's "
              "Instantiate/String are executed symbolically on machines whose scalar fields, strings, program words, bond triples, links, "
              "processor indices and shared-object parameters are solver variables (list lengths and opcode names concrete per "
              "configuration: all 94 static opcodes, 8 dynamically created ones, all 9 shared-object kinds). z3 decides that the reloaded "
              "machine is structurally equal to the original - the equality term is generated from the Go struct types, so a field added "
              "later is compared automatically and a Jsoner/Dejsoner that forgets it fails - that re-saving gives the same JSON structure, "
              "and that no opcode or shared object is nil after loading - both in a fresh process state and after an earlier load of another "
              "machine in the same process (state the loader keeps between calls). encoding/json itself is taken as the identity on the *_json "
              "structs; 'simulates identically / regenerates identical Verilog' follow from structural equality and are not re-checked."),
        note=("Trusted: z3, go/ssa, /verif/symgo; excluded fields CpID, Tag, SharedHDLOps (generation scratch); wide decimal parameters are "
              "injective tokens; front-end produced machines and FloPoCo/linear-quantiser opcodes are outside."),
        design="DESIGN.md section 3, C11"),
    "C13": dict(
        category="proof",
        text=("Per generated module (the real BmStack.WriteHDL run natively at every check, for MemType x Depth x senders x receivers x "
              "DataSize of the stated family), the Verilog is parsed and elaborated by /verif/vlog and z3 decides, with ALL state registers, "
              "memory words and inputs symbolic: (1) inductive step from any state satisfying the representation invariant R: R is "
              "preserved; an ack rises for at most one agent per cycle; a read ack returns and removes exactly the LIFO top / FIFO head and "
              "keeps the rest; a write ack stores the value exactly once at the end; without a rising ack the abstract sequence is "
              "unchanged; nothing is accepted when full / returned when empty; empty/full equal |seq| = 0 / Depth; acks are held while "
              "requested and fall only after the request is dropped; (2) reset establishes R with the empty sequence (so all reachable "
              "states are covered by induction); (3) bounded response by unrolling: a continuously requesting agent is acknowledged within "
              "the stated number of cycles while space/data is available and the other agents follow the handshake. Depths > 4, more than "
              "3 agents per side and the shr_stack/shr_queue wrappers are outside the claim."),
        note=("Trusted: z3, /verif/vlog (own parser/elaborator/two-state cycle semantics of the generated subset), the Go text/template "
              "engine. No Verilog simulator exists in the image: counterexamples are confirmed by concrete evaluation of the obligation "
              "under the solver's model."),
        design="DESIGN.md section 3, C13",
        engine="vlog",
        technique="generated Verilog -> transition relation over bit-vectors (own translator); inductive-step, reset and unrolled bounded-response obligations decided by z3"),
    "C14": dict(
        category="proof",
        text=("Bounded (enumerated placements on up to 4 qubits, enumerated circuits; all gate entries symbolic; not an unbounded proof). GATE PLACEMENT FOR ARBITRARY GATES, IN EXACT ARITHMETIC. BmQSimulator.MatrixFromOp is redirected to a stub whose matrix entries are "
              "solver variables (real and imaginary part), and BmMatrixFromOperation, swaps2baseSwaps, TensorProductComplex, SwapRowsColsComplex, "
              "QasmToBmMatrices, RunSoftwareSimulation and MatrixVectorProductComplex are executed symbolically with float32 read as exact reals. "
              "z3 decides, entry by entry (a polynomial identity in the gate entries): the matrix emitted for a layer equals the operator defined "
              "by applying each gate to the qubits it names (every subset of one-qubit gates, every ordered pair for a two-qubit gate with every "
              "idle/gated choice of the other qubits, every ordered disjoint pair of two two-qubit gates; up to 3 qubits quick, 4 thorough); the "
              "product of the matrices QasmToBmMatrices emits equals the gates applied in program order and the software simulation maps every "
              "basis state to the corresponding column (enumerated circuits). NOT decided: IEEE-754 rounding and the tolerance in the property, "
              "the gate constant tables and parametric gates (stubbed), unitarity of each gate, 5 qubits, three-qubit gates."),
        note=("Trusted: z3 (nonlinear real arithmetic; each real obligation in a fresh solver context), go/ssa, /verif/symgo with floats as exact "
              "reals. Counterexamples are replayed natively with the real gate tables and a 1e-4 tolerance. One genuine defect repaired "
              "(fix: 6d0e87d): a second multi-qubit gate of a layer was placed by the original numbering of its qubits."),
        design="DESIGN.md section 3, C14; Changes after round 0",
        technique="go/ssa symbolic execution with gate matrices as symbolic reals; entrywise polynomial identities against the defined operator decided by z3 (NRA)"),
    "C15": dict(
        category="proof",
        text=("Bounded (rule forms, field lengths and list lengths enumerated; field bytes, ticks, values and flags symbolic; not an unbounded proof). Parts 1 and 2 of the design, decided by SMT: for each of the 14 rule forms and each enumerated object/extra length, with field "
              "bytes, tick and flags as solver variables, Add(String(r)) succeeds and appends exactly r (not suspended), and printing the "
              "parsed rule gives the same text; every accepted short form (default extra) re-parses to the same rule after printing; "
              "Del/Suspend/Reactivate with a symbolic index on lists of up to 3 (thorough: 5) rules change only the addressed rule, keep the "
              "order, and reject an index >= length without changing anything. Part 3 (SimDrive.Init): for lists of 1-3 rules on concrete "
              "objects with tick, value, kind and suspended flag symbolic, for ANY tick and every object the absolute and periodic injection "
              "tables hold exactly the value of the last non-suspended matching set rule and nothing otherwise, the injection pointer is the "
              "object's location and absolutely-set inputs are marked for valid; likewise SimReport.Init for absolute, periodic, on-exit and on-valid "
              "get/show rules (tables, registrations, event pointers). On-receive rules, get_all/show_all and the tick loops "
              "that apply the tables (cmd/bondmachine - where periodic set is a TODO -, SinglePipelineSimulate) are NOT covered: 'applied "
              "exactly as written during simulation' is only claimed up to the compiled tables."),
        note=("Trusted: z3, go/ssa, /verif/symgo; the decimal text of a 64-bit tick is an injective token (strconv.Atoi(strconv.Itoa(x)) == x), "
              "ticks below 65536 use exact digit arithmetic; indices assumed >= 0; bondmachine.ImportNumber stubbed in part 3 (C08 covers the "
              "importers). One genuine defect repaired (fix: 6f084b9)."),
        design="DESIGN.md section 3, C15; Changes after round 0"),
    "C16": dict(
        category="proof",
        text=("Part (a) of the design, decided by SMT for every count within the stated ranges: procbuilder.Needed_bits, "
              "bondmachine.Needed_bits, bmstack.NeededBits (num <= 65536), Conproc.Opcodes_bits (symbolic opcode count <= 32768), "
              "Inputs_bits/Outputs_bits/Shared_depth (any uint8) are adequate (2^bits >= count) and minimal, and Arch.Max_word covers "
              "every opcode's instruction length for symbolic R,N,M,L,O and equals the WordSize override. Part (b): the real basm front-end is "
              "RUN NATIVELY on a generated source family (it is not encodable); for every emitted processor z3 decides that one simulator step "
              "from ANY pc inside the ROM and ANY register/port/flag state is panic-free (no index outside ROM, registers, ports, opcode list) "
              "and leaves pc <= len(ROM); word width, opcode order, decodability and the bond graph (endpoints, link ranges, every declared "
              "attachment present, both endpoint orders) are checked on the concrete emitted machine; a source with an operand that cannot fit "
              "must be rejected. The source space is sampled; bondgo, neuralbond and bmqsim are outside."),
        note=("Trusted: z3, go/ssa, /verif/symgo, cmd/bmnative. Unwinding bound 40 with unwinding assertions. Finding repaired by fix bc191a3: "
              "basm emitted 'mov rX, v' with v > 31 as an over-long rsets5 word; it is now rejected."),
        design="DESIGN.md section 3, C16"),
}

NOT_APPLICABLE = {
    "C07": "quantifies over process runs (map-iteration seed, goroutine timing, clock); not values an SMT encoding can quantify over, and the pipelines involved (basm, bondgo, neuralbond) are not encodable; the literal-ambiguity instance is decided under C08",
    "C12": "termination under every interleaving of the compiler's goroutines plus a 6 kLoC go/ast compiler: concurrency and whole-program runs are outside solver-based checking of this code. The translation-validation route used for C05/C06 (run the front-end natively, decide the emitted machine against a reference for all inputs) was tried: the compiler keeps variables in RAM (r2m/m2r), which the Go simulator does not implement (r2m is a TODO, m2r a placeholder), so compiled programs cannot be executed by the simulator the other checks encode; the hardware route (bounded model checking of processor+ROM+RAM Verilog) was not built. The shutdown race the property names was met natively while driving the compiler (DESIGN.md R6)",
    "C17": "a count of live goroutines after whole simulations: no symbolic data and no function to encode",
    "C18": "syntactic/static well-formedness of generated text per concrete configuration: nothing for a solver to quantify; elaboration failures met while encoding HDL are reported under the checks that meet them",
}

PENDING = "check not built yet in this session (design in DESIGN.md); no other technique is substituted"

ALL = ["C%02d" % i for i in range(1, 19)]

def main():
    checks = []
    for pid in sorted(CHECKS):
        c = CHECKS[pid]
        checks.append({
            "property_id": pid,
            "quick_cmd": "cd /verif && ./bin/bmv check %s --tier quick" % pid,
            "thorough_cmd": "cd /verif && ./bin/bmv check %s --tier thorough" % pid,
            "evidence_file": "/verif/evidence/%s.json" % pid,
            "replay_cmd_template": "cd /verif && ./bin/bmv replay {path}",
            "engine": c.get("engine", "symgo"),
            "level_claimed": {"category": c["category"], "text": c["text"], "design_ref": c["design"]},
            "level_note": c["note"],
            "technique": c.get("technique", TECH),
        })
    na = []
    for pid in ALL:
        if pid in CHECKS:
            continue
        na.append({"property_id": pid, "reason": NOT_APPLICABLE.get(pid, PENDING)})
    served = sorted(CHECKS)
    m = {
        "version": 1,
        "setup_cmd": "cd /verif && GOFLAGS=-mod=mod GOPROXY=off GOSUMDB=off GOTOOLCHAIN=local go build -o bin/bmv ./cmd/bmv",
        "hooks": {
            "guard": "verif",
            "enable": "no source hooks: harnesses are injected into /repo packages through go/packages overlays (symbolic run) and go test -overlay (native replay); nothing is written into /repo",
            "baseline_off_cmd": "cd /repo && GOFLAGS=-mod=mod go test -vet=off -count=1 -timeout 25m ./...",
            "source_commits": [],
            "add_only": True,
        },
        "engines": [
            {"name": "smt", "path": "smt/", "serves_properties": served, "kind_free_text": "hash-consed Bool/bit-vector term DAG, SMT-LIB2 printer, long-lived z3/cvc5 processes"},
            {"name": "rex", "path": "rex/", "serves_properties": ["C08"], "kind_free_text": "Go regexp/syntax to SMT-LIB RegLan"},
            {"name": "vlog", "path": "vlog/", "serves_properties": [p for p in ("C01", "C02", "C04", "C13") if p in CHECKS], "kind_free_text": "parser, elaborator and symbolic two-state cycle semantics for the Verilog subset the generators emit; HDL text produced natively by cmd/bmnative at every run"},
            {"name": "symgo", "path": "symgo/", "serves_properties": served, "kind_free_text": "own symbolic executor for go/ssa (predicated execution, guarded stores, merge at post-dominators); encoding regenerated from /repo's working tree at every run"},
        ],
        "checks": checks,
        "not_applicable": na,
        "notes": "fix: commits in /repo: bc191a3, 7728b54 (C03), f0fe4e6 (C08), 31ff0b2 (C01), 70761df (C09), 6d0e87d (C14), 6f084b9 (C15). Known findings and fixed entries: /verif/known_findings.json.",
    }
    with open(os.path.join(ROOT, "MANIFEST.json"), "w") as f:
        json.dump(m, f, indent=1)
        f.write("\n")

if __name__ == "__main__":
    main()
