#!/bin/bash
# usage: tools/seedeval.sh <property> <n>   -- verifies /tmp/seed-<property>/patch<n>.diff and runs the check against it
# 1. in a scratch worktree: builds, touched package tests pass, demo fails with / passes without the change
# 2. applies the patch to /repo, runs the quick check, reverts /repo
set -u
export GOFLAGS=-mod=mod GOPROXY=off GOSUMDB=off GOTOOLCHAIN=local
ID=$1; N=$2; SD=/tmp/seed-$ID; P=$SD/patch$N.diff; DEMO=$SD/demo${N}_test.go
OUT=/verif/seeded/$ID-$N; mkdir -p $OUT
# a change kept under /verif/seeded can be re-evaluated without its original scratch directory
if [ ! -f "$P" ] && [ -f "$OUT/patch.diff" ]; then
  mkdir -p $SD; cp $OUT/patch.diff $P; cp $OUT/demo_test.go $DEMO; cp $OUT/agent_meta.json $SD/meta$N.json
fi
WT=/tmp/wt-verify-$ID-$N
[ -f "$P" ] || { echo "no patch $P"; exit 2; }
PKG=$(python3 -c "import json;print(json.load(open('$SD/meta$N.json')).get('package','').split(' ')[0].replace('./','').rstrip('/'))" 2>/dev/null)
[ -z "$PKG" ] && PKG=$(grep '^+++ b/' $P | head -1 | sed 's|+++ b/||; s|/[^/]*$||')
case "$PKG" in pkg/*) ;; *) PKG=$(grep '^+++ b/' $P | head -1 | sed 's|+++ b/||; s|/[^/]*$||');; esac
TOUCHED=$(grep '^+++ b/' $P | sed 's|+++ b/||; s|/[^/]*$||' | sort -u)
git -C /repo worktree add -q --detach $WT HEAD || exit 2
cd $WT
res() { echo "$1" | tee -a $OUT/verify.log; }
: > $OUT/verify.log
cp $DEMO $WT/$PKG/zz_seed_demo_test.go
DEMORUN="go test -vet=off -count=1 -run Seed ./$PKG/"
$DEMORUN > $OUT/demo_without.log 2>&1; W0=$?
# packages whose existing tests already fail (or do not build) on the unchanged tree are not held against the change
BASEFAIL=""; for t in $TOUCHED; do go test -vet=off -count=1 ./$t/ > /dev/null 2>&1 || BASEFAIL="$BASEFAIL $t"; done
git apply $P || { res "PATCH-DOES-NOT-APPLY"; cd /; git -C /repo worktree remove --force $WT; exit 2; }
BUILD=0; for t in $TOUCHED; do go build ./$t/ >> $OUT/build.log 2>&1 || BUILD=1; done
$DEMORUN > $OUT/demo_with.log 2>&1; W1=$?
rm -f $WT/$PKG/zz_seed_demo_test.go
TESTS=0; for t in $TOUCHED; do case " $BASEFAIL " in *" $t "*) echo "existing tests of $t fail on the unchanged tree too: ignored" >> $OUT/verify.log; continue;; esac; go test -vet=off -count=1 ./$t/ > $OUT/tests_$(echo $t | tr / _).log 2>&1 || { grep -q "TestNumberToBinary\|TestMerge\|TestNotebookGeneration" $OUT/tests_$(echo $t | tr / _).log && ! grep "^--- FAIL" $OUT/tests_$(echo $t | tr / _).log | grep -qv "TestNumberToBinary\|TestMerge\|TestNotebookGeneration" || TESTS=1; }; done
cd /; git -C /repo worktree remove --force $WT
res "build_with_change=$BUILD existing_tests_with_change=$TESTS demo_without_change_exit=$W0 demo_with_change_exit=$W1"
if [ $BUILD -ne 0 ] || [ $TESTS -ne 0 ] || [ $W0 -ne 0 ] || [ $W1 -eq 0 ]; then res "SEED-NOT-CONFIRMED"; exit 3; fi
res "SEED-CONFIRMED"
# run the check against it
cp -r /verif/evidence /tmp/evidence-save-$ID-$N
git -C /repo apply $P
(cd /verif && timeout 3000 ./bin/bmv check $ID > $OUT/check.log 2>&1); CODE=$?
git -C /repo checkout -- . ; git -C /repo status --short | grep -v '^??' >> $OUT/verify.log
rm -rf /verif/evidence; mv /tmp/evidence-save-$ID-$N /verif/evidence
NV=$(grep -c '^VIOLATION' $OUT/check.log)
res "check_exit=$CODE violation_lines=$NV"
tail -1 $OUT/check.log | cut -c1-200 | tee -a $OUT/verify.log
cp $P $OUT/patch.diff; cp $DEMO $OUT/demo_test.go; cp $SD/meta$N.json $OUT/agent_meta.json
