package bondmachine

import (
	"sort"
	"strings"

	"github.com/BondMachineHQ/BondMachine/pkg/procbuilder"
)

// zzPMachine builds a processor domain from exported API only.
func zzPMachine(rsize, r, n, m, l, o int, ops string) *procbuilder.Machine {
	mach := new(procbuilder.Machine)
	mach.Rsize = uint8(rsize)
	mach.R = uint8(r)
	mach.N = uint8(n)
	mach.M = uint8(m)
	mach.L = uint8(l)
	mach.O = uint8(o)
	mach.Modes = []string{"ha"}
	list := make([]procbuilder.Opcode, 0)
	for _, name := range strings.Split(ops, ",") {
		if name == "" {
			continue
		}
		found := false
		for _, op := range procbuilder.Allopcodes {
			if op.Op_get_name() == name {
				list = append(list, op)
				found = true
				break
			}
		}
		if !found {
			panic("zzPMachine: unknown opcode " + name)
		}
	}
	sort.Sort(procbuilder.ByName(list))
	mach.Op = list
	return mach
}

func zzOpIdx(m *procbuilder.Machine, name string) int {
	for i, op := range m.Op {
		if op.Op_get_name() == name {
			return i
		}
	}
	return -1
}

// zzSymbolicProgram fills the ROM of a domain with arbitrary words whose opcode field is valid.
func zzSymbolicProgram(m *procbuilder.Machine, tag string, nwords int) {
	m.Program.Slocs = make([]string, 1<<uint(m.O))
	w := m.Max_word()
	for i := range m.Program.Slocs {
		if i < nwords {
			s := zzNondetBits(tag, w)
			id, _ := m.Conproc.Decode_opcode(s)
			zzAssume(id < len(m.Op))
			m.Program.Slocs[i] = s
		} else {
			// the rest of the ROM: jump to 0 (programs of nwords instructions in a loop)
			line, err := m.Arch.Assembler_process_line([]byte("j 0"))
			if err != nil || len(line) != w {
				zzUnsupported("cannot assemble the filler instruction 'j 0'")
			}
			m.Program.Slocs[i] = line
		}
	}
}
