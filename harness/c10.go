package bondmachine

import (
	"strconv"

	"github.com/BondMachineHQ/BondMachine/pkg/procbuilder"
)

// C10: one arbitrary topology edit from an arbitrary well-formed machine of a
// given shape keeps the machine well formed and every untouched bond in place.
//
// hist: concrete history of additions building the shape, e.g. "IOP0P1I"
// (I = Add_input, O = Add_output, Pd = Add_processor(domain d), i<k>/o<k> =
// Del_input(k)/Del_output(k)). doms: "NM" pairs, e.g. "112102".
// edit: 0 Del_input, 1 Del_output, 2 Add_input, 3 Add_output, 4 Add_processor,
// 5 Del_bond, 6 Add_bond, 7 Attach_benchmark_core. inrange: 1 = argument inside its domain, 0 = outside.

func zzC10Build(hist string, doms string) *Bondmachine {
	bm := new(Bondmachine)
	bm.Rsize = 8
	for i := 0; i+1 < len(doms); i += 2 {
		m := new(procbuilder.Machine)
		m.N = uint8(doms[i] - '0')
		m.M = uint8(doms[i+1] - '0')
		bm.Domains = append(bm.Domains, m)
	}
	bm.Init()
	for i := 0; i < len(hist); i++ {
		switch hist[i] {
		case 'I':
			bm.Add_input()
		case 'O':
			bm.Add_output()
		case 'P':
			i++
			bm.Add_processor(int(hist[i] - '0'))
		case 'i':
			i++
			bm.Del_input(int(hist[i] - '0'))
		case 'o':
			i++
			bm.Del_output(int(hist[i] - '0'))
		}
	}
	return bm
}

// well-formedness, written index-wise
func zzC10WF(bm *Bondmachine) bool {
	ok := len(bm.Links) == len(bm.Internal_inputs)
	if !ok {
		return false
	}
	for _, l := range bm.Links {
		if l < -1 {
			ok = false
		}
		if l >= len(bm.Internal_outputs) {
			ok = false
		}
	}
	// expected endpoints, each exactly once
	nin, nout := bm.Outputs, bm.Inputs
	for _, d := range bm.Processors {
		nin += int(bm.Domains[d].N)
		nout += int(bm.Domains[d].M)
	}
	if len(bm.Internal_inputs) != nin {
		ok = false
	}
	if len(bm.Internal_outputs) != nout {
		ok = false
	}
	for k := 0; k < bm.Outputs; k++ {
		if zzCount(bm.Internal_inputs, Bond{BMOUTPUT, k, 0}) != 1 {
			ok = false
		}
	}
	for k := 0; k < bm.Inputs; k++ {
		if zzCount(bm.Internal_outputs, Bond{BMINPUT, k, 0}) != 1 {
			ok = false
		}
	}
	for p, d := range bm.Processors {
		for e := 0; e < int(bm.Domains[d].N); e++ {
			if zzCount(bm.Internal_inputs, Bond{CPINPUT, p, e}) != 1 {
				ok = false
			}
		}
		for e := 0; e < int(bm.Domains[d].M); e++ {
			if zzCount(bm.Internal_outputs, Bond{CPOUTPUT, p, e}) != 1 {
				ok = false
			}
		}
	}
	if len(bm.Shared_links) != len(bm.Processors) {
		ok = false
	}
	return ok
}

func zzCount(l []Bond, b Bond) int {
	n := 0
	for _, x := range l {
		if x == b {
			n++
		}
	}
	return n
}

type zzSnap struct {
	in, out []Bond
	links   []int
	inputs, outputs, procs int
}

func zzC10Snapshot(bm *Bondmachine) zzSnap {
	s := zzSnap{inputs: bm.Inputs, outputs: bm.Outputs, procs: len(bm.Processors)}
	s.in = append(s.in, bm.Internal_inputs...)
	s.out = append(s.out, bm.Internal_outputs...)
	s.links = append(s.links, bm.Links...)
	return s
}

// the bond of named internal input `in` in a machine: the output endpoint it is
// linked to, and whether it is linked at all
func zzBondOf(ins, outs []Bond, links []int, in Bond) (Bond, bool) {
	for i, x := range ins {
		if x == in {
			if links[i] == -1 {
				return Bond{}, false
			}
			return outs[links[i]], true
		}
	}
	return Bond{}, false
}

func zzUnchanged(s zzSnap, bm *Bondmachine) bool {
	ok := s.inputs == bm.Inputs && s.outputs == bm.Outputs && s.procs == len(bm.Processors)
	if len(s.in) != len(bm.Internal_inputs) || len(s.out) != len(bm.Internal_outputs) || len(s.links) != len(bm.Links) {
		return false
	}
	for i := range s.in {
		if s.in[i] != bm.Internal_inputs[i] {
			ok = false
		}
	}
	for i := range s.out {
		if s.out[i] != bm.Internal_outputs[i] {
			ok = false
		}
	}
	for i := range s.links {
		if s.links[i] != bm.Links[i] {
			ok = false
		}
	}
	return ok
}

func zzC10(hist string, doms string, edit int, inrange int, a int, b int) {
	bm := zzC10Build(hist, doms)
	zzAssert("built-wf", zzC10WF(bm))
	// arbitrary well-formed link table on this shape
	for i := range bm.Links {
		l := zzNondetInt("link")
		zzAssume(l >= -1)
		zzAssume(l < len(bm.Internal_outputs))
		bm.Links[i] = l
	}
	pre := zzC10Snapshot(bm)
	arg := zzNondetInt("arg")
	zzAssume(arg >= 0)
	switch edit {
	case 0: // Del_input
		if inrange == 1 {
			zzAssume(arg < bm.Inputs)
		} else {
			zzAssume(arg >= bm.Inputs)
		}
		err := bm.Del_input(arg)
		if inrange == 0 {
			zzAssert("err", err != nil)
			zzAssert("unchanged", zzUnchanged(pre, bm))
			zzReach("end")
			return
		}
		zzAssert("noerr", err == nil)
		zzAssert("wf", zzC10WF(bm))
		zzAssert("count", bm.Inputs == pre.inputs-1 && bm.Outputs == pre.outputs)
		// every internal input keeps its name; its bond is dropped iff it was to the deleted input
		for i, in := range pre.in {
			zzAssert("in-kept", bm.Internal_inputs[i] == in)
			if pre.links[i] == -1 {
				zzAssert("stay-unlinked", bm.Links[i] == -1)
			} else {
				o := pre.out[pre.links[i]]
				if o.Map_to == BMINPUT && o.Res_id == arg {
					zzAssert("bond-removed", bm.Links[i] == -1)
				} else {
					want := o
					if o.Map_to == BMINPUT && o.Res_id > arg {
						want.Res_id--
					}
					zzAssert("bond-kept", bm.Links[i] != -1 && bm.Internal_outputs[bm.Links[i]] == want)
				}
			}
		}
	case 1: // Del_output
		if inrange == 1 {
			zzAssume(arg < bm.Outputs)
		} else {
			zzAssume(arg >= bm.Outputs)
		}
		err := bm.Del_output(arg)
		if inrange == 0 {
			zzAssert("err", err != nil)
			zzAssert("unchanged", zzUnchanged(pre, bm))
			zzReach("end")
			return
		}
		zzAssert("noerr", err == nil)
		zzAssert("wf", zzC10WF(bm))
		zzAssert("count", bm.Outputs == pre.outputs-1 && bm.Inputs == pre.inputs)
		zzAssert("outs-kept", len(bm.Internal_outputs) == len(pre.out))
		for i, in := range pre.in {
			if in.Map_to == BMOUTPUT && in.Res_id == arg {
				continue // the deleted endpoint: its bond goes with it
			}
			want := in
			if in.Map_to == BMOUTPUT && in.Res_id > arg {
				want.Res_id--
			}
			got, linked := zzBondOf(bm.Internal_inputs, bm.Internal_outputs, bm.Links, want)
			if pre.links[i] == -1 {
				zzAssert("stay-unlinked", !linked)
			} else {
				zzAssert("bond-kept", linked && got == pre.out[pre.links[i]])
			}
		}
	case 2, 3, 4: // additions
		switch edit {
		case 2:
			_, err := bm.Add_input()
			zzAssert("noerr", err == nil)
			zzAssert("count", bm.Inputs == pre.inputs+1 && bm.Outputs == pre.outputs)
		case 3:
			_, err := bm.Add_output()
			zzAssert("noerr", err == nil)
			zzAssert("count", bm.Outputs == pre.outputs+1 && bm.Inputs == pre.inputs)
		case 4:
			if inrange == 1 {
				zzAssume(arg < len(bm.Domains))
			} else {
				zzAssume(arg >= len(bm.Domains))
			}
			_, err := bm.Add_processor(arg)
			if inrange == 0 {
				zzAssert("err", err != nil)
				zzAssert("unchanged", zzUnchanged(pre, bm))
				zzReach("end")
				return
			}
			zzAssert("noerr", err == nil)
			zzAssert("count", len(bm.Processors) == pre.procs+1 && bm.Processors[pre.procs] == arg)
		}
		zzAssert("wf", zzC10WF(bm))
		for i, in := range pre.in {
			got, linked := zzBondOf(bm.Internal_inputs, bm.Internal_outputs, bm.Links, in)
			if pre.links[i] == -1 {
				zzAssert("stay-unlinked", !linked)
			} else {
				zzAssert("bond-kept", linked && got == pre.out[pre.links[i]])
			}
		}
		// new endpoints start unlinked
		for i := len(pre.in); i < len(bm.Internal_inputs); i++ {
			zzAssert("new-unlinked", bm.Links[i] == -1)
		}
	case 5: // Del_bond
		if inrange == 1 {
			zzAssume(arg < len(bm.Links))
		} else {
			zzAssume(arg >= len(bm.Links))
		}
		err := bm.Del_bond(arg)
		if inrange == 0 {
			zzAssert("err", err != nil)
			zzAssert("unchanged", zzUnchanged(pre, bm))
			zzReach("end")
			return
		}
		zzAssert("noerr", err == nil)
		zzAssert("wf", zzC10WF(bm))
		for i := range pre.in {
			zzAssert("in-kept", bm.Internal_inputs[i] == pre.in[i])
			if i == arg {
				zzAssert("bond-removed", bm.Links[i] == -1)
			} else {
				zzAssert("bond-kept", bm.Links[i] == pre.links[i])
			}
		}
	case 6: // Add_bond between the a-th internal input and the b-th internal output, either argument order
		if len(bm.Internal_inputs) == 0 || len(bm.Internal_outputs) == 0 {
			zzReach("end")
			return
		}
		if a >= len(bm.Internal_inputs) || b >= len(bm.Internal_outputs) {
			zzReach("end")
			return
		}
		iname := bm.Internal_inputs[a].String()
		oname := bm.Internal_outputs[b].String()
		if inrange == 1 {
			bm.Add_bond([]string{iname, oname})
		} else {
			bm.Add_bond([]string{oname, iname})
		}
		zzAssert("wf", zzC10WF(bm))
		for i := range pre.in {
			zzAssert("in-kept", bm.Internal_inputs[i] == pre.in[i])
			if i == a {
				zzAssert("bond-made", bm.Links[i] == b)
			} else {
				zzAssert("bond-kept", bm.Links[i] == pre.links[i])
			}
		}
		got := bm.List_bonds()
		s, ok := got[a]
		zzAssert("listed", ok && s == oname+","+iname)
	case 7: // Attach_benchmark_core between the a-th and the b-th internal output
		if a >= len(bm.Internal_outputs) || b >= len(bm.Internal_outputs) {
			zzReach("end")
			return
		}
		e0 := bm.Internal_outputs[a].String()
		e1 := bm.Internal_outputs[b].String()
		ndom, nproc := len(bm.Domains), len(bm.Processors)
		err := bm.Attach_benchmark_core([]string{e0, e1})
		zzAssert("noerr", err == nil)
		zzAssert("wf", zzC10WF(bm))
		zzAssert("count", len(bm.Domains) == ndom+1 && len(bm.Processors) == nproc+1 && bm.Processors[nproc] == ndom &&
			bm.Outputs == pre.outputs+1 && bm.Inputs == pre.inputs)
		// every earlier bond is kept
		for i, in := range pre.in {
			got, linked := zzBondOf(bm.Internal_inputs, bm.Internal_outputs, bm.Links, in)
			if pre.links[i] == -1 {
				zzAssert("stay-unlinked", !linked)
			} else {
				zzAssert("bond-kept", linked && got == pre.out[pre.links[i]])
			}
		}
		// the core (the NEW processor) reads the two endpoints and drives the new output
		g0, l0 := zzBondOf(bm.Internal_inputs, bm.Internal_outputs, bm.Links, Bond{CPINPUT, nproc, 0})
		g1, l1 := zzBondOf(bm.Internal_inputs, bm.Internal_outputs, bm.Links, Bond{CPINPUT, nproc, 1})
		go0, lo := zzBondOf(bm.Internal_inputs, bm.Internal_outputs, bm.Links, Bond{BMOUTPUT, pre.outputs, 0})
		zzAssert("core-input-0-bonded", l0 && g0 == pre.out[a])
		zzAssert("core-input-1-bonded", l1 && g1 == pre.out[b])
		zzAssert("core-output-bonded", lo && go0 == Bond{CPOUTPUT, nproc, 0})
	}
	zzReach("end")
}

func zzDispatch(name string, args []string) {
	atoi := func(s string) int { v, _ := strconv.Atoi(s); return v }
	switch name {
	case "zzC10":
		zzC10(args[0], args[1], atoi(args[2]), atoi(args[3]), atoi(args[4]), atoi(args[5]))
	}
}
