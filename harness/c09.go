package bondmachine

import (
	"strconv"

	"github.com/BondMachineHQ/BondMachine/pkg/procbuilder"
	"github.com/BondMachineHQ/BondMachine/pkg/simbox"
)

// C09 (narrowed to state isolation): processors / simulations that share no
// bond must not influence one another, whatever order the per-processor workers
// run in. Programs, registers and the hidden mutable state reachable from the
// opcode registry (procbuilder.Allopcodes) are solver variables.
//
// kind 0: step-order independence of one VM with two unbonded processors.
// kind 1: non-interference inside one VM: P0's state after T ticks does not depend on P1.
// kind 2: non-interference between two VMs simulated in one process.
// kind 3: two simulations of the SAME Bondmachine object with different per-opcode delay sets (what
//         cmd/simfinetune does from several workers): each simulation obeys its own delays.

const zzC09Ops = "add,addp,cpy,dec,divp,inc,j,multp,nop,rset"

func zzC09Domain(tag string, nwords int) *procbuilder.Machine {
	m := zzPMachine(8, 1, 0, 0, 0, 2, zzC09Ops)
	zzSymbolicProgram(m, tag, nwords)
	return m
}

func zzC09Machine(doms ...*procbuilder.Machine) *Bondmachine {
	bm := new(Bondmachine)
	bm.Rsize = 8
	bm.Domains = doms
	bm.Init()
	for i := range doms {
		bm.Add_processor(i)
	}
	return bm
}

// zzDelays: one single-delay distribution per opcode of m, the delay a solver variable in 0..2
func zzDelays(m *procbuilder.Machine, tag string) (*simbox.SimDelays, []int32) {
	sd := simbox.NewSimDelays()
	ds := make([]int32, len(m.Op))
	for i, op := range m.Op {
		d := zzNondetU8(tag)
		zzAssume(d <= 2)
		ds[i] = int32(d)
		sd.OpcodeDelays[op.Op_get_name()] = simbox.DelayDistribution{int32(d): 1}
	}
	return sd, ds
}

func zzC09VM(bm *Bondmachine, regs [][]uint8) *VM {
	return zzC09VMd(bm, regs, nil)
}

func zzC09VMd(bm *Bondmachine, regs [][]uint8, sd *simbox.SimDelays) *VM {
	vm := new(VM)
	vm.Bmach = bm
	vm.SimDelayMap = sd
	vm.Init()
	vm.Launch_processors(nil)
	for p := range vm.Processors {
		for i := range vm.Processors[p].Registers {
			vm.Processors[p].Registers[i] = regs[p][i]
		}
	}
	return vm
}

func zzRegs(tag string, n int) [][]uint8 {
	r := make([][]uint8, n)
	for p := range r {
		r[p] = []uint8{zzNondetU8(tag), zzNondetU8(tag)}
	}
	return r
}

func zzSameProc(a, b *procbuilder.VM) bool {
	ok := a.Pc == b.Pc
	for i := range a.Registers {
		if a.Registers[i].(uint8) != b.Registers[i].(uint8) {
			ok = false
		}
	}
	return ok
}

func zzC09(kind int, nwords int, T int) {
	d0 := zzC09Domain("prog0", nwords)
	hidden := zzHavocHidden(procbuilder.Allopcodes, "hidden")
	zzExport("hidden-cells", hidden)
	g0 := zzSnapshotHidden(procbuilder.Allopcodes)
	switch kind {
	case 0:
		d1 := zzC09Domain("prog1", nwords)
		regs := zzRegs("reg", 2)
		bm := zzC09Machine(d0, d1)
		a := zzC09VM(bm, regs)
		zzSchedule(false)
		for t := 0; t < T; t++ {
			a.Step(nil)
		}
		ga := zzSnapshotHidden(procbuilder.Allopcodes)
		zzRestoreHidden(procbuilder.Allopcodes, g0)
		b := zzC09VM(bm, regs)
		zzSchedule(true)
		for t := 0; t < T; t++ {
			b.Step(nil)
		}
		gb := zzSnapshotHidden(procbuilder.Allopcodes)
		zzAssert("order-independent-p0", zzSameProc(a.Processors[0], b.Processors[0]))
		zzAssert("order-independent-p1", zzSameProc(a.Processors[1], b.Processors[1]))
		for i := range ga {
			zzAssert("order-independent-shared-state", ga[i] == gb[i])
		}
	case 1:
		d1 := zzC09Domain("prog1", nwords)
		d2 := zzC09Domain("prog2", nwords)
		r0 := zzRegs("reg0", 1)
		ra := zzRegs("rega", 1)
		rb := zzRegs("regb", 1)
		a := zzC09VM(zzC09Machine(d0, d1), [][]uint8{r0[0], ra[0]})
		for t := 0; t < T; t++ {
			a.Step(nil)
		}
		zzRestoreHidden(procbuilder.Allopcodes, g0)
		b := zzC09VM(zzC09Machine(d0, d2), [][]uint8{r0[0], rb[0]})
		for t := 0; t < T; t++ {
			b.Step(nil)
		}
		zzAssert("p0-independent-of-p1", zzSameProc(a.Processors[0], b.Processors[0]))
	case 2:
		d1 := zzC09Domain("prog1", nwords)
		r0 := zzRegs("reg0", 1)
		r1 := zzRegs("reg1", 1)
		alone := zzC09VM(zzC09Machine(d0), r0)
		for t := 0; t < T; t++ {
			alone.Step(nil)
		}
		zzRestoreHidden(procbuilder.Allopcodes, g0)
		mine := zzC09VM(zzC09Machine(d0), r0)
		other := zzC09VM(zzC09Machine(d1), r1)
		for t := 0; t < T; t++ {
			other.Step(nil)
			mine.Step(nil)
		}
		zzAssert("simulation-independent-of-other-simulation", zzSameProc(alone.Processors[0], mine.Processors[0]))
	case 3:
		bm := zzC09Machine(d0)
		sdOther, _ := zzDelays(d0, "delay-other")
		sdMine, dMine := zzDelays(d0, "delay-mine")
		other := zzC09VMd(bm, zzRegs("reg1", 1), sdOther)
		mine := zzC09VMd(bm, zzRegs("reg0", 1), sdMine)
		for t := 0; t < T; t++ {
			other.Step(nil)
			P := mine.Processors[0]
			prePc, preDc := P.Pc, P.DelayCounter
			id, _ := d0.Conproc.Decode_opcode(d0.Program.Slocs[prePc])
			mine.Step(nil)
			if preDc == 0 && P.Pc != prePc {
				zzAssert("own-delay-applied", P.DelayCounter == dMine[id])
				if P.DelayCounter > 0 {
					zzReach("delayed")
				}
			}
			if preDc > 0 {
				zzAssert("delay-counts-down", P.DelayCounter == preDc-1 && P.Pc == prePc)
			}
		}
	}
	zzReach("end")
}

func zzC09LoopWorker(in chan int, out chan int, st *int) {
	for {
		v := <-in
		if v > 3 {
			out <- 1
			*st += v
			continue
		}
		*st += 1
		out <- 2
	}
}

// zzC09Race: runs whose only obligations are the engine's happens-before race obligations (symgo/race.go).
//
// shape 0: one VM, two unbonded processors over the C09 opcode set.
// shape 1: one VM, a producer (r2owa) bonded to two consumers (i2rw): handshake flags, deferred instructions.
// shape 2: two simulations of two machines, each stepped by its own goroutine (what cmd/simfinetune's workers do).
// shape 3: as shape 1 with a per-opcode delay (solver variable in 0..2) on every opcode.
// shape 4: vacuity witness (an unsynchronised shared write in the harness itself must be reported).
// shape 5, 6: witnesses on a worker loop that answers before / after it updates its state (see below).
func zzC09Race(shape int, nwords int, T int) {
	switch shape {
	case 0:
		d0 := zzC09Domain("prog0", nwords)
		d1 := zzC09Domain("prog1", nwords)
		a := zzC09VM(zzC09Machine(d0, d1), zzRegs("reg", 2))
		for t := 0; t < T; t++ {
			a.Step(nil)
		}
	case 1, 3:
		bm := new(Bondmachine)
		bm.Rsize = 8
		prod := zzPMachine(8, 1, 0, 1, 0, 2, "inc,j,nop,r2owa")
		zzSymbolicProgram(prod, "prog0", nwords)
		bm.Domains = append(bm.Domains, prod)
		for c := 0; c < 2; c++ {
			cons := zzPMachine(8, 1, 1, 0, 0, 2, "cpy,i2rw,inc,j,nop")
			zzSymbolicProgram(cons, "prog"+strconv.Itoa(c+1), nwords)
			bm.Domains = append(bm.Domains, cons)
		}
		bm.Init()
		for d := 0; d <= 2; d++ {
			bm.Add_processor(d)
		}
		for c := 0; c < 2; c++ {
			bm.Add_bond([]string{"p" + strconv.Itoa(c+1) + "i0", "p0o0"})
		}
		vm := new(VM)
		vm.Bmach = bm
		if shape == 3 {
			sd := simbox.NewSimDelays()
			for _, op := range []string{"cpy", "i2rw", "inc", "j", "nop", "r2owa"} {
				d := zzNondetU8("delay-" + op)
				zzAssume(d <= 2)
				sd.OpcodeDelays[op] = simbox.DelayDistribution{int32(d): 1}
			}
			vm.SimDelayMap = sd
		}
		vm.Init()
		vm.Launch_processors(nil)
		for p := range vm.Processors {
			for i := range vm.Processors[p].Registers {
				vm.Processors[p].Registers[i] = zzNondetU8("reg")
			}
		}
		for t := 0; t < T; t++ {
			vm.Step(nil)
		}
	case 4:
		// witness of the race obligations themselves: two goroutines write one variable with no ordering
		// between them (each only reports to main afterwards); the driver requires this to be reported
		shared := new(int)
		done := make(chan int)
		for g := 0; g < 2; g++ {
			go func(g int) {
				if zzNondetU8("w") > uint8(g) {
					*shared = g
				}
				done <- 1
			}(g)
		}
		<-done
		<-done
	case 5, 6:
		// witnesses on a worker loop of the shape VM.Processor_execute has: on one arm of a branch the worker
		// answers before it updates its state, on the other arm after. Shape 5 reads the state right after the
		// answer (a race exactly on the first arm: must be reported), shape 6 only after the next exchange
		// (ordered on both arms: must not be reported).
		in := make(chan int)
		out := make(chan int)
		st := new(int)
		go zzC09LoopWorker(in, out, st)
		a := int(zzNondetU8("a"))
		in <- a
		<-out
		x := 0
		if shape == 5 {
			x = *st
		}
		in <- 1
		<-out
		x += *st
		_ = x
	case 2:
		d0 := zzC09Domain("prog0", nwords)
		d1 := zzC09Domain("prog1", nwords)
		a := zzC09VM(zzC09Machine(d0), zzRegs("reg0", 1))
		b := zzC09VM(zzC09Machine(d1), zzRegs("reg1", 1))
		done := make(chan int)
		for _, vm := range []*VM{a, b} {
			go func(vm *VM) {
				for t := 0; t < T; t++ {
					vm.Step(nil)
				}
				done <- 1
			}(vm)
		}
		<-done
		<-done
	}
	zzReach("end")
}

func zzDispatch(name string, args []string) {
	atoi := func(s string) int { v, _ := strconv.Atoi(s); return v }
	switch name {
	case "zzC09":
		zzC09(atoi(args[0]), atoi(args[1]), atoi(args[2]))
	case "zzC09Race":
		zzC09Race(atoi(args[0]), atoi(args[1]), atoi(args[2]))
	}
}
