package simbox

import "strconv"

// C15.1: every valid rule prints to a string that parses back to the same rule,
// and every string Add accepts yields a rule whose printed form re-parses to it.
//
// form: 0..12 = the 13 (Timec, Action) pairs of docs/simbox-rules.md;
// 13 = config with a 3-word object (get_all, ...), 14 = config with a 2-word object.
// tickmode 0: Tick is any 64-bit value (decimal text handled as an opaque,
// injective token: strconv.Atoi(strconv.Itoa(x)) == x is the stub's contract);
// tickmode 1: Tick < 65536 with exact digit arithmetic.

var zzForms = [][2]uint8{
	{TIMEC_ABS, ACTION_SET}, {TIMEC_ABS, ACTION_GET}, {TIMEC_ABS, ACTION_SHOW},
	{TIMEC_REL, ACTION_SET}, {TIMEC_REL, ACTION_GET}, {TIMEC_REL, ACTION_SHOW},
	{TIMEC_ON_VALID, ACTION_GET}, {TIMEC_ON_VALID, ACTION_SHOW},
	{TIMEC_ON_RECV, ACTION_GET}, {TIMEC_ON_RECV, ACTION_SHOW},
	{TIMEC_ON_EXIT, ACTION_GET}, {TIMEC_ON_EXIT, ACTION_SHOW},
	{TIMEC_NONE, ACTION_CONFIG},
}

var zzConfig3 = []string{"get_all", "get_all_internal", "show_all", "show_all_internal"}
var zzConfig2 = []string{"show_pc", "show_instruction", "show_disasm", "show_ticks", "get_ticks", "show_proc_regs_pre", "show_proc_regs_post",
	"show_proc_io_pre", "show_proc_io_post", "show_io_pre", "show_io_post"}

func zzNoColon(tag string, n int) string {
	s := zzNondetString(tag, n)
	for i := 0; i < len(s); i++ {
		zzAssume(s[i] != ':')
		zzAssume(s[i] < 0x80)
	}
	return s
}

func zzTick(mode int) uint64 {
	if mode == 1 {
		return uint64(zzNondetU16("tick"))
	}
	return zzNondetU64("tick")
}

func zzC15RoundTrip(form int, objLen int, extraLen int, tickmode int, cfg int) {
	var r Rule
	switch {
	case form < 12:
		r = Rule{Timec: zzForms[form][0], Action: zzForms[form][1], Object: zzNoColon("obj", objLen), Extra: zzNoColon("extra", extraLen)}
		if r.Timec == TIMEC_ABS || r.Timec == TIMEC_REL {
			r.Tick = zzTick(tickmode)
		}
	case form == 12:
		r = Rule{Timec: TIMEC_NONE, Action: ACTION_CONFIG, Object: zzConfig3[cfg], Extra: zzNoColon("extra", extraLen)}
	default:
		r = Rule{Timec: TIMEC_NONE, Action: ACTION_CONFIG, Object: zzConfig2[cfg], Extra: ""}
	}
	text := r.String()
	zzAssert("prints", text != "")
	s := new(Simbox)
	err := s.Add(text)
	zzAssert("parses", err == nil)
	zzAssume(err == nil)
	zzAssert("one-rule", len(s.Rules) == 1)
	zzAssume(len(s.Rules) == 1)
	zzAssert("same-rule", s.Rules[0] == r)
	zzAssert("not-suspended", !s.Rules[0].Suspended)
	// printing the parsed rule gives the same text (save/load stability)
	zzAssert("same-text", s.Rules[0].String() == text)
	zzReach("end")
}

// the short forms (default extra "unsigned"): accepted text -> rule -> text -> same rule
func zzC15Short(kind int, objLen int, tickmode int) {
	obj := zzNoColon("obj", objLen)
	var text string
	switch kind {
	case 0:
		text = "absolute:" + strconv.Itoa(int(zzTick(tickmode))) + ":get:" + obj
	case 1:
		text = "absolute:" + strconv.Itoa(int(zzTick(tickmode))) + ":show:" + obj
	case 2:
		text = "relative:" + strconv.Itoa(int(zzTick(tickmode))) + ":get:" + obj
	case 3:
		text = "relative:" + strconv.Itoa(int(zzTick(tickmode))) + ":show:" + obj
	case 4:
		text = "onvalid:get:" + obj
	case 5:
		text = "onvalid:show:" + obj
	case 6:
		text = "onrecv:get:" + obj
	case 7:
		text = "onrecv:show:" + obj
	case 8:
		text = "onexit:get:" + obj
	default:
		text = "onexit:show:" + obj
	}
	s := new(Simbox)
	err := s.Add(text)
	zzAssert("accepted", err == nil)
	zzAssume(err == nil)
	zzAssume(len(s.Rules) == 1)
	r1 := s.Rules[0]
	zzAssert("default-extra", r1.Extra == "unsigned" && r1.Object == obj)
	s2 := new(Simbox)
	err2 := s2.Add(r1.String())
	zzAssert("reparses", err2 == nil)
	zzAssume(err2 == nil)
	zzAssume(len(s2.Rules) == 1)
	zzAssert("same-rule", s2.Rules[0] == r1)
	zzReach("end")
}

// C15.2: bookkeeping on a list of n distinct rules with a symbolic index.
func zzC15Book(n int, op int) {
	s := new(Simbox)
	for i := 0; i < n; i++ {
		s.Add("absolute:" + strconv.Itoa(10+i) + ":set:r" + strconv.Itoa(i) + ":" + strconv.Itoa(i))
	}
	for i := 0; i < n; i++ {
		s.Rules[i].Suspended = zzNondetBool("susp")
	}
	before := make([]Rule, n)
	copy(before, s.Rules)
	idx := zzNondetInt("idx")
	zzAssume(idx >= 0)
	zzAssume(idx <= n+1)
	var err error
	switch op {
	case 0:
		err = s.Del(idx)
	case 1:
		err = s.Suspend(idx)
	default:
		err = s.Reactivate(idx)
	}
	if idx >= n {
		zzAssert("out-of-range-error", err != nil)
		zzAssert("unchanged-len", len(s.Rules) == n)
		for i := 0; i < n && i < len(s.Rules); i++ {
			zzAssert("unchanged", s.Rules[i] == before[i])
		}
		zzReach("end-out")
		return
	}
	zzAssert("ok", err == nil)
	if op == 0 {
		zzAssert("len", len(s.Rules) == n-1)
		for i := 0; i < n-1 && i < len(s.Rules); i++ {
			want := before[i]
			if i >= idx {
				want = before[i+1]
			}
			zzAssert("order-kept", s.Rules[i] == want)
		}
	} else {
		zzAssert("len", len(s.Rules) == n)
		for i := 0; i < n && i < len(s.Rules); i++ {
			want := before[i]
			if i == idx {
				want.Suspended = op == 1
			}
			zzAssert("only-addressed", s.Rules[i] == want)
		}
	}
	zzReach("end")
}

func zzDispatch(name string, args []string) {
	atoi := func(s string) int { v, _ := strconv.Atoi(s); return v }
	switch name {
	case "zzC15RoundTrip":
		zzC15RoundTrip(atoi(args[0]), atoi(args[1]), atoi(args[2]), atoi(args[3]), atoi(args[4]))
	case "zzC15Short":
		zzC15Short(atoi(args[0]), atoi(args[1]), atoi(args[2]))
	case "zzC15Book":
		zzC15Book(atoi(args[0]), atoi(args[1]))
	}
}
