package bmqsim

import (
	"strconv"
	"strings"

	"github.com/BondMachineHQ/BondMachine/pkg/bmline"
	"github.com/BondMachineHQ/BondMachine/pkg/bmmatrix"
)

// C14: gate placement. For ANY gate matrices (the entries of every gate are
// solver variables, float32 read as exact reals) the matrix the compiler emits
// for a layer equals the operator defined by applying each gate to the qubits it
// names: entry (r,c) is the product over the gates of g[bits of r at the gate's
// qubits][bits of c at the gate's qubits] (first argument most significant), and
// rows and columns agree on the idle qubits. Qubit 0 is the most significant bit
// of a basis index.
//
// Under the symbolic run MatrixFromOp is redirected to zzC14Gate below (fresh
// symbolic entries, the same ones when the same gate instance is asked for again);
// in a native replay the real gate tables are used and equality is taken within
// float32 tolerance.

var zzGateCache map[string]*bmmatrix.BmMatrixSquareComplex // package init is not run by the symbolic executor

func zzC14Gate(line *bmline.BasmLine) (*bmmatrix.BmMatrixSquareComplex, error) {
	key := line.Operation.GetValue()
	for _, e := range line.Elements {
		key += " " + e.GetValue()
	}
	if zzGateCache == nil {
		zzGateCache = map[string]*bmmatrix.BmMatrixSquareComplex{}
	}
	if m, ok := zzGateCache[key]; ok {
		return m, nil
	}
	dim := 1 << uint(len(line.Elements))
	m := bmmatrix.NewBmMatrixSquareComplex(dim)
	for i := 0; i < dim; i++ {
		for j := 0; j < dim; j++ {
			m.Data[i][j] = bmmatrix.Complex32{Real: zzNondetF32("gate"), Imag: zzNondetF32("gate")}
		}
	}
	zzGateCache[key] = m
	return m, nil
}

func zzLine(txt string) *bmline.BasmLine {
	f := strings.Fields(txt)
	l := new(bmline.BasmLine)
	l.Operation = new(bmline.BasmElement)
	l.Operation.SetValue(f[0])
	for _, a := range f[1:] {
		e := new(bmline.BasmElement)
		e.SetValue(a)
		l.Elements = append(l.Elements, e)
	}
	return l
}

func zzSim(n int) *BmQSimulator {
	sim := new(BmQSimulator)
	sim.BmQSimulatorInit()
	for q := 0; q < n; q++ {
		name := "q" + strconv.Itoa(q)
		sim.qbits = append(sim.qbits, name)
		sim.qbitsNum[name] = q
	}
	return sim
}

func zzSameF(a, b float32) bool {
	d := a - b
	if d == 0 {
		return true
	}
	return zzNative() && d < 1e-4 && d > -1e-4
}

func zzSameC(a, b bmmatrix.Complex32) bool { return zzSameF(a.Real, b.Real) && zzSameF(a.Imag, b.Imag) }

func zzMul(a, b bmmatrix.Complex32) bmmatrix.Complex32 {
	return bmmatrix.Complex32{Real: a.Real*b.Real - a.Imag*b.Imag, Imag: a.Real*b.Imag + a.Imag*b.Real}
}

func zzAdd(a, b bmmatrix.Complex32) bmmatrix.Complex32 {
	return bmmatrix.Complex32{Real: a.Real + b.Real, Imag: a.Imag + b.Imag}
}

// zzOperator: the operator of a set of gates on disjoint qubits, by definition
func zzOperator(sim *BmQSimulator, n int, lines []*bmline.BasmLine) [][]bmmatrix.Complex32 {
	dim := 1 << uint(n)
	bit := func(x, q int) int { return (x >> uint(n-1-q)) & 1 }
	used := make([]bool, n)
	type gate struct {
		m  *bmmatrix.BmMatrixSquareComplex
		qs []int
	}
	var gates []gate
	for _, l := range lines {
		m, _ := sim.MatrixFromOp(l)
		var qs []int
		for _, e := range l.Elements {
			q := sim.qbitsNum[e.GetValue()]
			qs = append(qs, q)
			used[q] = true
		}
		gates = append(gates, gate{m, qs})
	}
	u := make([][]bmmatrix.Complex32, dim)
	for r := 0; r < dim; r++ {
		u[r] = make([]bmmatrix.Complex32, dim)
		for c := 0; c < dim; c++ {
			idle := true
			for q := 0; q < n; q++ {
				if !used[q] && bit(r, q) != bit(c, q) {
					idle = false
				}
			}
			if !idle {
				continue // zero
			}
			v := bmmatrix.Complex32{Real: 1}
			for _, g := range gates {
				gr, gc := 0, 0
				for _, q := range g.qs {
					gr = gr<<1 | bit(r, q)
					gc = gc<<1 | bit(c, q)
				}
				v = zzMul(v, g.m.Data[gr][gc])
			}
			u[r][c] = v
		}
	}
	return u
}

// zzC14Layer: one layer (gates on disjoint qubits) through the real BmMatrixFromOperation.
// spec: gates separated by ';', e.g. "g0 q2 q0;g1 q1" (gate name, then its qubits in argument order)
func zzC14Layer(n int, spec string) {
	sim := zzSim(n)
	var lines []*bmline.BasmLine
	for _, g := range strings.Split(spec, ";") {
		lines = append(lines, zzLine(g))
	}
	m, err := sim.BmMatrixFromOperation(lines)
	zzAssert("layer-built", err == nil && m != nil)
	if err != nil || m == nil {
		return
	}
	u := zzOperator(sim, n, lines)
	dim := 1 << uint(n)
	zzAssert("layer-dimension", m.N == dim && len(m.Data) == dim)
	for r := 0; r < dim; r++ {
		for c := 0; c < dim; c++ {
			zzAssert("layer-matrix-equals-the-defined-operator", zzSameC(m.Data[r][c], u[r][c]))
		}
	}
	zzReach("end")
}

func zzMatMul(a, b [][]bmmatrix.Complex32) [][]bmmatrix.Complex32 {
	n := len(a)
	c := make([][]bmmatrix.Complex32, n)
	for i := range c {
		c[i] = make([]bmmatrix.Complex32, n)
		for j := 0; j < n; j++ {
			for k := 0; k < n; k++ {
				c[i][j] = zzAdd(c[i][j], zzMul(a[i][k], b[k][j]))
			}
		}
	}
	return c
}

// zzC14Circuit: a whole circuit through the real QasmToBmMatrices (layering: a new matrix whenever a qubit is
// reused); the product of the emitted matrices, later ones on the left, equals the gates applied in program order.
func zzC14Circuit(n int, spec string) {
	sim := new(BmQSimulator)
	sim.BmQSimulatorInit()
	var names []string
	for q := 0; q < n; q++ {
		names = append(names, "q"+strconv.Itoa(q))
	}
	body := new(bmline.BasmBody)
	body.BasmMeta = body.SetMeta("qbits", strings.Join(names, ":"))
	var lines []*bmline.BasmLine
	for _, g := range strings.Split(spec, ";") {
		lines = append(lines, zzLine(g))
	}
	body.Lines = lines
	ms, err := sim.QasmToBmMatrices(body)
	zzAssert("circuit-compiled", err == nil)
	if err != nil {
		return
	}
	dim := 1 << uint(n)
	var prod [][]bmmatrix.Complex32
	for _, m := range ms {
		zzAssert("matrix-dimension", m.N == dim)
		if prod == nil {
			prod = m.Data
		} else {
			prod = zzMatMul(m.Data, prod)
		}
	}
	var want [][]bmmatrix.Complex32
	for _, l := range lines {
		g := zzOperator(sim, n, []*bmline.BasmLine{l})
		if want == nil {
			want = g
		} else {
			want = zzMatMul(g, want)
		}
	}
	zzAssert("at-least-one-matrix", prod != nil)
	for r := 0; r < dim; r++ {
		for c := 0; c < dim; c++ {
			zzAssert("product-of-emitted-matrices-equals-the-circuit", zzSameC(prod[r][c], want[r][c]))
		}
	}
	// software simulation: every basis state is mapped to the corresponding column
	sim.Mtx = ms
	for c := 0; c < dim; c++ {
		v := make([]bmmatrix.Complex32, dim)
		v[c] = bmmatrix.Complex32{Real: 1}
		sim.Inputs = append(sim.Inputs, StateArray{Vector: v})
	}
	serr := sim.RunSoftwareSimulation()
	zzAssert("software-simulation-runs", serr == nil)
	if serr == nil {
		for c := 0; c < dim; c++ {
			for r := 0; r < dim; r++ {
				zzAssert("software-simulation-maps-basis-state-to-column", zzSameC(sim.Outputs[c].Vector[r], want[r][c]))
			}
		}
	}
	zzReach("end")
}

func zzDispatch(name string, args []string) {
	atoi := func(s string) int { v, _ := strconv.Atoi(s); return v }
	switch name {
	case "zzC14Layer":
		zzC14Layer(atoi(args[0]), args[1])
	case "zzC14Circuit":
		zzC14Circuit(atoi(args[0]), args[1])
	}
}
