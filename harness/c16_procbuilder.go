package procbuilder

import "strconv"

// C16(a): field-width arithmetic is adequate and minimal for every count.

func zzSymLenOpcodes(n int) []Opcode { return make([]Opcode, n) }

func zzC16NeededBits() {
	num := zzNondetInt("num")
	zzAssume(num >= 0)
	zzAssume(num <= 65536)
	bits := Needed_bits(num)
	if num == 0 {
		zzAssert("zero", bits == 0)
	} else {
		zzAssert("positive", bits >= 1 && bits <= 17)
		zzAssert("adequate", 1<<uint(bits) >= num)
		zzAssert("minimal", bits == 1 || 1<<uint(bits-1) < num)
	}
	zzReach("end")
}

func zzC16OpcodesBits() {
	n := zzNondetInt("nops")
	zzAssume(n >= 0)
	zzAssume(n <= 32768)
	cp := new(Conproc)
	cp.Op = zzSymLenOpcodes(n)
	bits := cp.Opcodes_bits()
	zzAssert("range", bits >= 1 && bits <= 15)
	zzAssert("adequate", 1<<uint(bits) >= n)
	zzAssert("minimal", bits == 1 || 1<<uint(bits-1) < n)
	zzReach("end")
}

func zzC16IOBits() {
	cp := new(Conproc)
	cp.N = zzNondetU8("N")
	cp.M = zzNondetU8("M")
	ib := cp.Inputs_bits()
	ob := cp.Outputs_bits()
	zzAssert("in-range", ib >= 1 && ib <= 8)
	zzAssert("in-adequate", 1<<uint(ib) >= int(cp.N))
	zzAssert("in-minimal", ib == 1 || 1<<uint(ib-1) < int(cp.N))
	zzAssert("out-range", ob >= 1 && ob <= 8)
	zzAssert("out-adequate", 1<<uint(ob) >= int(cp.M))
	zzAssert("out-minimal", ob == 1 || 1<<uint(ob-1) < int(cp.M))
	a := new(Arch)
	a.N = cp.N
	sd := a.Shared_depth("x", 0)
	zzAssert("depth-adequate", 1<<uint(sd) >= int(a.N))
	zzReach("end")
}

// Max_word covers every opcode's instruction length for symbolic R,N,M,L,O,
// and is exactly the override when WordSize is set.
func zzC16MaxWord(ops string) {
	m := zzMachine(8, 1, 1, 1, 1, 1, ops)
	m.R = zzNondetU8("R")
	m.N = zzNondetU8("N")
	m.M = zzNondetU8("M")
	m.L = zzNondetU8("L")
	m.O = zzNondetU8("O")
	zzAssume(m.R <= 8)
	zzAssume(m.L <= 16)
	zzAssume(m.O <= 16)
	mw := m.Max_word()
	for _, op := range m.Op {
		zzAssert("covers-"+op.Op_get_name(), op.Op_get_instruction_len(&m.Arch) <= mw)
	}
	zzAssert("positive", mw >= 1)
	ws := zzNondetU8("ws")
	zzAssume(ws > 0)
	m.WordSize = ws
	zzAssert("override", m.Max_word() == int(ws))
	zzReach("end")
}

func zzDispatch(name string, args []string) {
	_ = strconv.Itoa
	switch name {
	case "zzC16NeededBits":
		zzC16NeededBits()
	case "zzC16OpcodesBits":
		zzC16OpcodesBits()
	case "zzC16IOBits":
		zzC16IOBits()
	case "zzC16MaxWord":
		zzC16MaxWord(args[0])
	}
}
