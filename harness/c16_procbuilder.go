package procbuilder

import (
	"strconv"
	"strings"
)

// C16(a): field-width arithmetic is adequate and minimal for every count.

func zzSymLenOpcodes(n int) []Opcode { return make([]Opcode, n) }

func zzC16NeededBits() {
	num := zzNondetInt("num")
	zzAssume(num >= 0)
	zzAssume(num <= 65536)
	bits := Needed_bits(num)
	if num == 0 {
		zzAssert("zero", bits == 0)
	} else {
		zzAssert("positive", bits >= 1 && bits <= 17)
		zzAssert("adequate", 1<<uint(bits) >= num)
		zzAssert("minimal", bits == 1 || 1<<uint(bits-1) < num)
	}
	zzReach("end")
}

func zzC16OpcodesBits() {
	n := zzNondetInt("nops")
	zzAssume(n >= 0)
	zzAssume(n <= 32768)
	cp := new(Conproc)
	cp.Op = zzSymLenOpcodes(n)
	bits := cp.Opcodes_bits()
	zzAssert("range", bits >= 1 && bits <= 15)
	zzAssert("adequate", 1<<uint(bits) >= n)
	zzAssert("minimal", bits == 1 || 1<<uint(bits-1) < n)
	zzReach("end")
}

func zzC16IOBits() {
	cp := new(Conproc)
	cp.N = zzNondetU8("N")
	cp.M = zzNondetU8("M")
	ib := cp.Inputs_bits()
	ob := cp.Outputs_bits()
	zzAssert("in-range", ib >= 1 && ib <= 8)
	zzAssert("in-adequate", 1<<uint(ib) >= int(cp.N))
	zzAssert("in-minimal", ib == 1 || 1<<uint(ib-1) < int(cp.N))
	zzAssert("out-range", ob >= 1 && ob <= 8)
	zzAssert("out-adequate", 1<<uint(ob) >= int(cp.M))
	zzAssert("out-minimal", ob == 1 || 1<<uint(ob-1) < int(cp.M))
	a := new(Arch)
	a.N = cp.N
	sd := a.Shared_depth("x", 0)
	zzAssert("depth-adequate", 1<<uint(sd) >= int(a.N))
	zzReach("end")
}

// Max_word covers every opcode's instruction length for symbolic R,N,M,L,O,
// and is exactly the override when WordSize is set.
func zzC16MaxWord(ops string) {
	m := zzMachine(8, 1, 1, 1, 1, 1, ops)
	m.R = zzNondetU8("R")
	m.N = zzNondetU8("N")
	m.M = zzNondetU8("M")
	m.L = zzNondetU8("L")
	m.O = zzNondetU8("O")
	zzAssume(m.R <= 8)
	zzAssume(m.L <= 16)
	zzAssume(m.O <= 16)
	mw := m.Max_word()
	for _, op := range m.Op {
		zzAssert("covers-"+op.Op_get_name(), op.Op_get_instruction_len(&m.Arch) <= mw)
	}
	zzAssert("positive", mw >= 1)
	ws := zzNondetU8("ws")
	zzAssume(ws > 0)
	m.WordSize = ws
	zzAssert("override", m.Max_word() == int(ws))
	zzReach("end")
}

func zzDispatch(name string, args []string) {
	_ = strconv.Itoa
	switch name {
	case "zzC16NeededBits":
		zzC16NeededBits()
	case "zzC16OpcodesBits":
		zzC16OpcodesBits()
	case "zzC16IOBits":
		zzC16IOBits()
	case "zzC16MaxWord":
		zzC16MaxWord(args[0])
	case "zzC16Fact":
		v, _ := strconv.Atoi(args[1])
		zzC16Fact(args[0], v)
	case "zzC16Emitted":
		a := func(i int) int { v, _ := strconv.Atoi(args[i]); return v }
		zzC16Emitted(a(0), a(1), a(2), a(3), a(4), a(5), a(6), args[7], args[8], a(9), args[10])
	}
}

// C16(b): one simulator step of an emitted processor from ANY pc inside its ROM
// and ANY register/input/flag state never indexes outside the ROM, the register
// file, the ports or the opcode list, and never leaves pc beyond the end of the
// ROM. The machine description comes from the real front-end (run natively).
// zzC16Fact: a fact the driver read off the machine the front-end emitted
func zzC16Fact(tag string, ok int) {
	zzAssert(tag, ok == 1)
	zzReach("end")
}

func zzC16Emitted(rsize, r, n, mm, l, o, wordsize int, ops string, rom string, ndata int, mode string) {
	m := zzMachine(rsize, r, n, mm, l, o, ops)
	m.WordSize = uint8(wordsize)
	// the front-end's opcode order must be the sorted, duplicate-free one the simulator and the HDL assume
	names := strings.Split(ops, ",")
	sortedOK := len(names) == len(m.Op)
	for i := range m.Op {
		if i < len(names) && m.Op[i].Op_get_name() != names[i] {
			sortedOK = false
		}
		if i > 0 && m.Op[i].Op_get_name() <= m.Op[i-1].Op_get_name() {
			sortedOK = false
		}
	}
	zzAssert("opcode-list-sorted-and-duplicate-free", sortedOK)
	m.Program.Slocs = strings.Split(rom, ",")
	W := m.Max_word()
	zzAssert("rom-fits-address-space", len(m.Program.Slocs)+ndata <= 1<<uint(o)) // code followed by the data words
	for _, w := range m.Program.Slocs {
		zzAssert("rom-word-has-architecture-width", len(w) == W)
		id, _ := m.Conproc.Decode_opcode(w)
		zzAssert("rom-word-decodes-to-an-opcode-of-the-processor", id < len(m.Op))
	}
	if mode != "ha" || ndata > 0 || (rsize != 8 && rsize != 16 && rsize != 32 && rsize != 64) {
		// von Neumann / hybrid fetch, ROM data operands and register sizes the simulator does not implement
		// (it has arms for 8, 16, 32 and 64 bits) are not stepped: structural facts only
		zzReach("end")
		return
	}
	vm := new(VM)
	vm.Mach = m
	err := vm.Init()
	zzAssert("vm-init", err == nil)
	pc := zzNondetU64("pc")
	zzAssume(pc < uint64(len(m.Program.Slocs)))
	vm.Pc = pc
	for i := range vm.Registers {
		vm.Registers[i] = zzWord("reg", rsize)
	}
	for i := range vm.Memory {
		vm.Memory[i] = zzWord("mem", rsize)
	}
	for i := range vm.Inputs {
		vm.Inputs[i] = zzWord("in", rsize)
		vm.InputsValid[i] = zzNondetBool("invalid")
		vm.InputsRecv[i] = zzNondetBool("inrecv")
	}
	for i := range vm.Outputs {
		vm.Outputs[i] = zzWord("out", rsize)
		vm.OutputsValid[i] = zzNondetBool("outvalid")
		vm.OutputsRecv[i] = zzNondetBool("outrecv")
	}
	_, serr := vm.Step(nil)
	zzAssert("step-no-error", serr == nil)
	zzAssert("pc-stays-within-rom", vm.Pc <= uint64(len(m.Program.Slocs)))
	zzReach("end")
}
