package bondmachine

import (
	"strconv"
	"strings"

	"github.com/BondMachineHQ/BondMachine/pkg/procbuilder"
)

// Machines emitted by a front-end that the driver ran natively, rebuilt from the
// description the native run printed.
//
// cps:   one processor per ';' : "R:N:M:L:O:wordsize|op,op,...|romword,romword,..."
// ins / outs / links: the emitted bond graph (internal input names, internal output names, link table)

func zzEmittedMachine(rsize int, desc string) *procbuilder.Machine {
	f := strings.Split(desc, "|")
	p := strings.Split(f[0], ":")
	at := func(k int) uint8 { v, _ := strconv.Atoi(p[k]); return uint8(v) }
	m := new(procbuilder.Machine)
	m.Rsize = uint8(rsize)
	m.R, m.N, m.M, m.L, m.O, m.WordSize = at(0), at(1), at(2), at(3), at(4), at(5)
	m.Modes = []string{"ha"}
	// the opcode list in the order the front-end emitted it
	for _, name := range strings.Split(f[1], ",") {
		procbuilder.EventuallyCreateInstruction(name)
		found := false
		for _, op := range procbuilder.Allopcodes {
			if op.Op_get_name() == name {
				m.Op = append(m.Op, op)
				found = true
				break
			}
		}
		if !found {
			zzUnsupported("emitted opcode " + name + " does not exist")
		}
	}
	m.Program.Slocs = strings.Split(f[2], ",")
	if len(f) > 4 && f[4] != "" {
		m.Data.Vars = strings.Split(f[4], ",") // ROM data words, after the code
	}
	return m
}

func zzU64(v interface{}) uint64 {
	switch x := v.(type) {
	case uint8:
		return uint64(x)
	case uint16:
		return uint64(x)
	case uint32:
		return uint64(x)
	case uint64:
		return x
	}
	return 0
}

func zzWordOf(rsize int, v uint64) interface{} {
	switch rsize {
	case 8:
		return uint8(v)
	case 16:
		return uint16(v)
	case 32:
		return uint32(v)
	}
	return v
}

func zzEmittedBM(rsize int, cps string, ins string, outs string, links string) (*Bondmachine, int, int) {
	bm := new(Bondmachine)
	bm.Rsize = uint8(rsize)
	for _, d := range strings.Split(cps, ";") {
		bm.Domains = append(bm.Domains, zzEmittedMachine(rsize, d))
	}
	bm.Init()
	for i := range bm.Domains {
		bm.Add_processor(i)
	}
	inl, outl := strings.Split(ins, ","), strings.Split(outs, ",")
	nin, nout := 0, 0
	for _, n := range outl {
		if n != "" && n[0] == 'i' {
			nin++
		}
	}
	for _, n := range inl {
		if n != "" && n[0] == 'o' {
			nout++
		}
	}
	for k := 0; k < nin; k++ {
		bm.Add_input()
	}
	for k := 0; k < nout; k++ {
		bm.Add_output()
	}
	for idx, l := range strings.Fields(links) {
		j, _ := strconv.Atoi(l)
		if j >= 0 {
			bm.Add_bond([]string{inl[idx], outl[j]})
		}
	}
	return bm, nin, nout
}
