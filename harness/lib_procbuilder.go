package procbuilder

import (
	"sort"
	"strings"
)

// zzMachine builds a machine the way the front-ends do: opcodes looked up by
// name in the real registry (dynamic ones created on demand), sorted by name.
func zzMachine(rsize, r, n, m, l, o int, ops string) *Machine {
	mach := new(Machine)
	mach.Rsize = uint8(rsize)
	mach.R = uint8(r)
	mach.N = uint8(n)
	mach.M = uint8(m)
	mach.L = uint8(l)
	mach.O = uint8(o)
	mach.Modes = []string{"ha"}
	list := make([]Opcode, 0)
	for _, name := range strings.Split(ops, ",") {
		if name == "" {
			continue
		}
		found := false
		for _, op := range Allopcodes {
			if op.Op_get_name() == name {
				list = append(list, op)
				found = true
				break
			}
		}
		if !found {
			if ok, _ := EventuallyCreateInstruction(name); ok {
				for _, op := range Allopcodes {
					if op.Op_get_name() == name {
						list = append(list, op)
						found = true
						break
					}
				}
			}
		}
		if !found {
			panic("zzMachine: unknown opcode " + name)
		}
	}
	sort.Sort(ByName(list))
	mach.Op = list
	return mach
}

// zzWord: an arbitrary register-sized value with the dynamic type the simulator uses for that size.
func zzWord(tag string, rsize int) interface{} {
	switch rsize {
	case 8:
		return zzNondetU8(tag)
	case 16:
		return zzNondetU16(tag)
	case 32:
		return zzNondetU32(tag)
	}
	return zzNondetU64(tag)
}

func zzOpIndex(m *Machine, name string) int {
	for i, op := range m.Op {
		if op.Op_get_name() == name {
			return i
		}
	}
	return -1
}
