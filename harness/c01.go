package procbuilder

import (
	"strconv"
	"strings"
)

// C01, simulator side: one retired instruction from an arbitrary state. The HDL
// side is built by the driver from the generated Verilog over the SAME solver
// variables (ROM bits rom#i.j, pc, registers, RAM, inputs) and compared with
// the values exported here.

// hwopt: "" or "<opcode>:<reg>+<reg>;..." - the destination registers a program uses per opcode, for which
// the hardware was generated with the onlydestregs optimisation; the instruction under check then is one the
// program can contain (its destination register is in the recorded set).
func zzC01Step(rsize, r, n, mm, l, o int, ops string, opname string, hwopt string) {
	m := zzMachine(rsize, r, n, mm, l, o, ops)
	k := zzOpIndex(m, opname)
	nrom := 1 << uint(o)
	m.Program.Slocs = make([]string, nrom)
	W := m.Max_word()
	for i := 0; i < nrom; i++ {
		m.Program.Slocs[i] = zzNondetBits("rom", W)
	}
	vm := new(VM)
	vm.Mach = m
	vm.Init()
	pc := zzNondetU64("pc")
	zzAssume(pc < uint64(nrom)-1) // the next sequential address exists (programs do not run off the ROM)
	vm.Pc = pc
	for i := range vm.Registers {
		vm.Registers[i] = zzWord("reg", rsize)
	}
	for i := range vm.Memory {
		vm.Memory[i] = zzWord("mem", rsize)
	}
	for i := range vm.Inputs {
		vm.Inputs[i] = zzWord("in", rsize)
		vm.InputsValid[i] = zzNondetBool("invalid")
	}
	for i := range vm.Outputs {
		vm.Outputs[i] = zzWord("out", rsize)
		vm.OutputsRecv[i] = zzNondetBool("outrecv")
	}
	// the instruction at pc is an instance of the opcode under check
	id, _ := m.Conproc.Decode_opcode(m.Program.Slocs[vm.Pc])
	zzAssume(id == k)
	if hwopt != "" {
		allowed := ""
		for _, ent := range strings.Split(hwopt, ";") {
			p := strings.SplitN(ent, ":", 2)
			if len(p) == 2 && p[0] == opname {
				allowed = "+" + p[1] + "+"
			}
		}
		if allowed != "" {
			w := m.Program.Slocs[vm.Pc]
			ob := m.Opcodes_bits()
			reg := get_id(w[ob : ob+r])
			okreg := false
			for i := 0; i < 1<<uint(r); i++ {
				if strings.Contains(allowed, "+r"+strconv.Itoa(i)+"+") && reg == i {
					okreg = true
				}
			}
			zzAssume(okreg)
		}
	}
	zzExport("opbits", m.Opcodes_bits())
	_, err := vm.Step(nil)
	zzAssert("sim-no-error", err == nil)
	zzExport("pc", vm.Pc)
	for i := range vm.Registers {
		zzExport("r"+strconv.Itoa(i), vm.Registers[i])
	}
	for i := range vm.Memory {
		zzExport("mem"+strconv.Itoa(i), vm.Memory[i])
	}
	for i := range vm.Outputs {
		zzExport("out"+strconv.Itoa(i), vm.Outputs[i])
	}
	zzReach("end")
}

func zzDispatch(name string, args []string) {
	atoi := func(s string) int { v, _ := strconv.Atoi(s); return v }
	switch name {
	case "zzC01Step":
		zzC01Step(atoi(args[0]), atoi(args[1]), atoi(args[2]), atoi(args[3]), atoi(args[4]), atoi(args[5]), args[6], args[7], args[8])
	}
}
