package procbuilder

import "strconv"

// C01, simulator side: one retired instruction from an arbitrary state. The HDL
// side is built by the driver from the generated Verilog over the SAME solver
// variables (ROM bits rom#i.j, pc, registers, RAM, inputs) and compared with
// the values exported here.

func zzWord(tag string, rsize int) interface{} {
	switch rsize {
	case 8:
		return zzNondetU8(tag)
	case 16:
		return zzNondetU16(tag)
	case 32:
		return zzNondetU32(tag)
	}
	return zzNondetU64(tag)
}

func zzC01Step(rsize, r, n, mm, l, o int, ops string, opname string) {
	m := zzMachine(rsize, r, n, mm, l, o, ops)
	k := zzOpIndex(m, opname)
	nrom := 1 << uint(o)
	m.Program.Slocs = make([]string, nrom)
	W := m.Max_word()
	for i := 0; i < nrom; i++ {
		m.Program.Slocs[i] = zzNondetBits("rom", W)
	}
	vm := new(VM)
	vm.Mach = m
	vm.Init()
	pc := zzNondetU64("pc")
	zzAssume(pc < uint64(nrom)-1) // the next sequential address exists (programs do not run off the ROM)
	vm.Pc = pc
	for i := range vm.Registers {
		vm.Registers[i] = zzWord("reg", rsize)
	}
	for i := range vm.Memory {
		vm.Memory[i] = zzWord("mem", rsize)
	}
	for i := range vm.Inputs {
		vm.Inputs[i] = zzWord("in", rsize)
		vm.InputsValid[i] = zzNondetBool("invalid")
	}
	for i := range vm.Outputs {
		vm.Outputs[i] = zzWord("out", rsize)
		vm.OutputsRecv[i] = zzNondetBool("outrecv")
	}
	// the instruction at pc is an instance of the opcode under check
	id, _ := m.Conproc.Decode_opcode(m.Program.Slocs[vm.Pc])
	zzAssume(id == k)
	zzExport("opbits", m.Opcodes_bits())
	_, err := vm.Step(nil)
	zzAssert("sim-no-error", err == nil)
	zzExport("pc", vm.Pc)
	for i := range vm.Registers {
		zzExport("r"+strconv.Itoa(i), vm.Registers[i])
	}
	for i := range vm.Memory {
		zzExport("mem"+strconv.Itoa(i), vm.Memory[i])
	}
	for i := range vm.Outputs {
		zzExport("out"+strconv.Itoa(i), vm.Outputs[i])
	}
	zzReach("end")
}

func zzDispatch(name string, args []string) {
	atoi := func(s string) int { v, _ := strconv.Atoi(s); return v }
	switch name {
	case "zzC01Step":
		zzC01Step(atoi(args[0]), atoi(args[1]), atoi(args[2]), atoi(args[3]), atoi(args[4]), atoi(args[5]), args[6], args[7])
	}
}
