package bondmachine

import (
	"strconv"
	"strings"
)

// C06: one partition of a fragment graph, assembled natively by the real basm
// front-end, simulated for T ticks with the external inputs as solver variables
// (constant, always valid; outputs acknowledged one tick after they are
// offered): whenever an external output is valid it carries the value of the
// dataflow expression of the graph, and every output is delivered within T.
//
// graph: instances in topological order, "name=fragment:src,src;...|src,src" where src is xK (external
// input K) or name.P (output port P of an earlier instance); after '|' the sources of the external outputs.

func zzFragment(name string, in []uint64, mask uint64) []uint64 {
	switch name {
	case "addone":
		return []uint64{(in[0] + 1) & mask}
	case "subone":
		return []uint64{(in[0] - 1) & mask}
	case "sum2":
		return []uint64{(in[0] + in[1]) & mask}
	case "dbl", "dbl3":
		return []uint64{(in[0] + in[0]) & mask}
	case "fan2":
		return []uint64{in[0], (in[0] + 1) & mask}
	case "swapsum":
		return []uint64{(in[0] + in[1]) & mask, in[0]}
	case "sumb":
		return []uint64{(in[0] + in[1]) & mask}
	case "mul2":
		return []uint64{(in[0] * in[1]) & mask}
	}
	zzUnsupported("unknown fragment " + name)
	return nil
}

func zzC06Expected(graph string, inputs []uint64, mask uint64) []uint64 {
	parts := strings.Split(graph, "|")
	vals := map[string][]uint64{}
	src := func(s string) uint64 {
		if s[0] == 'x' {
			k, _ := strconv.Atoi(s[1:])
			return inputs[k]
		}
		f := strings.Split(s, ".")
		p, _ := strconv.Atoi(f[1])
		return vals[f[0]][p]
	}
	for _, inst := range strings.Split(parts[0], ";") {
		eq := strings.Split(inst, "=")
		fa := strings.Split(eq[1], ":")
		var in []uint64
		for _, s := range strings.Split(fa[1], ",") {
			in = append(in, src(s))
		}
		vals[eq[0]] = zzFragment(fa[0], in, mask)
	}
	var out []uint64
	for _, s := range strings.Split(parts[1], ",") {
		out = append(out, src(s))
	}
	return out
}

func zzC06(rsize int, cps string, ins string, outs string, links string, graph string, T int) {
	bm, nin, nout := zzEmittedBM(rsize, cps, ins, outs, links)
	vm := new(VM)
	vm.Bmach = bm
	vm.Init()
	vm.Launch_processors(nil)
	mask := uint64(1)<<uint(rsize) - 1
	inputs := make([]uint64, nin)
	for k := range inputs {
		inputs[k] = zzNondetU64("input") & mask
	}
	want := zzC06Expected(graph, inputs, mask)
	zzAssert("machine-has-the-graph's-outputs", len(want) == nout)
	seen := make([]bool, nout)
	for t := 0; t < T; t++ {
		for k := range inputs {
			vm.Inputs_regs[k] = zzWordOf(rsize, inputs[k])
			vm.InputsValid[k] = true
		}
		for k := range vm.OutputsRecv {
			vm.OutputsRecv[k] = vm.OutputsValid[k]
		}
		vm.Step(nil)
		for k := 0; k < nout && k < len(want); k++ {
			if vm.OutputsValid[k] {
				seen[k] = true
				zzAssert("delivered-value-equals-the-dataflow-expression", zzU64(vm.Outputs_regs[k]) == want[k])
			}
		}
	}
	for k := range seen {
		zzAssert("every-output-delivered-within-the-horizon", seen[k])
	}
	zzReach("end")
}

// zzC06Rejected: the front-end refused this partition although it accepted the same graph on one processor
func zzC06Rejected(msg string) {
	zzAssert("partition-accepted-by-the-front-end", msg == "")
	zzReach("end")
}

func zzDispatch(name string, args []string) {
	atoi := func(s string) int { v, _ := strconv.Atoi(s); return v }
	switch name {
	case "zzC06Rejected":
		zzC06Rejected(args[0])
	case "zzC06":
		zzC06(atoi(args[0]), args[1], args[2], args[3], args[4], args[5], atoi(args[6]))
	}
}
