package bondmachine

import (
	"strconv"
	"strings"

	"github.com/BondMachineHQ/BondMachine/pkg/procbuilder"
)

// C05: the machine the real basm front-end emitted for a source (run natively
// by the driver, described by the arguments) against a direct interpretation of
// the SOURCE TEXT, tick by tick, on all external outputs - for all values of
// the external inputs (solver variables).
//
// cps:   one processor per ';' : "R:N:M:L:O:wordsize|op,op,...|romword,romword,..."
// ins / outs / links: the emitted bond graph (internal input names, internal output names, link table)
// src:   the .basm source text

type zzIns struct {
	op string
	a  []string
}

type zzSrc struct {
	prog   []zzIns
	labels map[string]int
	entry  string
}

// zzC05Parse reads the source form the way its documentation describes it: sections, labels on their own
// line (denoting the instruction that follows), the entry directive, macros without arguments.
func zzC05Parse(src string) *zzSrc {
	s := &zzSrc{labels: map[string]int{}}
	macros := map[string][]zzIns{}
	inMacro, inSection := "", false
	var pending []string
	for _, raw := range strings.Split(src, "\n") {
		line := strings.TrimSpace(raw)
		if line == "" || line[0] == ';' {
			continue
		}
		f := strings.Fields(line)
		switch {
		case f[0] == "%macro":
			inMacro = f[1]
			macros[inMacro] = nil
			continue
		case f[0] == "%endmacro":
			inMacro = ""
			continue
		case f[0] == "%section":
			inSection = true
			continue
		case f[0] == "%endsection":
			inSection = false
			continue
		case f[0][0] == '%':
			continue
		}
		if strings.HasSuffix(f[0], ":") {
			pending = append(pending, strings.TrimSuffix(f[0], ":"))
			continue
		}
		if f[0] == "entry" {
			s.entry = f[1]
			continue
		}
		var in zzIns
		in.op = f[0]
		rest := strings.TrimSpace(line[len(f[0]):])
		if rest != "" {
			for _, a := range strings.Split(rest, ",") {
				in.a = append(in.a, strings.TrimSpace(a))
			}
		}
		if inMacro != "" {
			macros[inMacro] = append(macros[inMacro], in)
			continue
		}
		if !inSection {
			continue
		}
		for _, l := range pending {
			s.labels[l] = len(s.prog)
		}
		pending = nil
		if body, ok := macros[in.op]; ok {
			s.prog = append(s.prog, body...)
		} else {
			s.prog = append(s.prog, in)
		}
	}
	return s
}

// zzC05Lit: the value a numeric literal denotes (decimal, 0d decimal, 0x hexadecimal, 0b binary)
func zzC05Lit(t string) (uint64, bool) {
	base := 10
	switch {
	case strings.HasPrefix(t, "0x"):
		base, t = 16, t[2:]
	case strings.HasPrefix(t, "0b"):
		base, t = 2, t[2:]
	case strings.HasPrefix(t, "0d"):
		t = t[2:]
	}
	v, err := strconv.ParseUint(t, base, 64)
	return v, err == nil
}

func zzIsReg(t string) (int, bool) {
	if len(t) >= 2 && t[0] == 'r' {
		if v, err := strconv.Atoi(t[1:]); err == nil {
			return v, true
		}
	}
	return 0, false
}

func zzPortNo(t string) int {
	v, _ := strconv.Atoi(t[1:])
	return v
}

type zzRef struct {
	src  *zzSrc
	pc   int
	regs []uint64
	out  []uint64
	mask uint64
	ok   bool
}

func (r *zzRef) target(t string) int {
	if v, ok := r.src.labels[t]; ok {
		return v
	}
	v, err := strconv.Atoi(t)
	if err != nil {
		r.ok = false
	}
	return v
}

// exec: the documented effect of one instruction of the subset
func (r *zzRef) exec(in zzIns, inputs []uint64) {
	reg := func(k int) int {
		v, ok := zzIsReg(in.a[k])
		if !ok || v >= len(r.regs) {
			r.ok = false
			return 0
		}
		return v
	}
	next := r.pc + 1
	switch in.op {
	case "nop":
	case "mov", "rset":
		d := reg(0)
		if s, isreg := zzIsReg(in.a[1]); isreg {
			r.regs[d] = r.regs[s]
		} else {
			v, ok := zzC05Lit(in.a[1])
			if !ok {
				r.ok = false
			}
			r.regs[d] = v & r.mask
		}
	case "cpy":
		r.regs[reg(0)] = r.regs[reg(1)]
	case "clr":
		r.regs[reg(0)] = 0
	case "inc":
		d := reg(0)
		r.regs[d] = (r.regs[d] + 1) & r.mask
	case "dec":
		d := reg(0)
		r.regs[d] = (r.regs[d] - 1) & r.mask
	case "add":
		d := reg(0)
		r.regs[d] = (r.regs[d] + r.regs[reg(1)]) & r.mask
	case "sub":
		d := reg(0)
		r.regs[d] = (r.regs[d] - r.regs[reg(1)]) & r.mask
	case "i2r":
		r.regs[reg(0)] = inputs[zzPortNo(in.a[1])]
	case "r2o":
		r.out[zzPortNo(in.a[1])] = r.regs[reg(0)]
	case "j":
		next = r.target(in.a[0])
	case "jz":
		if r.regs[reg(0)] == 0 {
			next = r.target(in.a[1])
		}
	default:
		r.ok = false
	}
	r.pc = next
}

func zzC05Machine(rsize int, desc string) *procbuilder.Machine {
	f := strings.Split(desc, "|")
	p := strings.Split(f[0], ":")
	at := func(k int) uint8 { v, _ := strconv.Atoi(p[k]); return uint8(v) }
	m := new(procbuilder.Machine)
	m.Rsize = uint8(rsize)
	m.R, m.N, m.M, m.L, m.O, m.WordSize = at(0), at(1), at(2), at(3), at(4), at(5)
	m.Modes = []string{"ha"}
	// the opcode list in the order the front-end emitted it
	for _, name := range strings.Split(f[1], ",") {
		procbuilder.EventuallyCreateInstruction(name)
		found := false
		for _, op := range procbuilder.Allopcodes {
			if op.Op_get_name() == name {
				m.Op = append(m.Op, op)
				found = true
				break
			}
		}
		if !found {
			zzUnsupported("emitted opcode " + name + " does not exist")
		}
	}
	m.Program.Slocs = strings.Split(f[2], ",")
	return m
}

func zzU64(v interface{}) uint64 {
	switch x := v.(type) {
	case uint8:
		return uint64(x)
	case uint16:
		return uint64(x)
	case uint32:
		return uint64(x)
	case uint64:
		return x
	}
	return 0
}

func zzC05(rsize int, cps string, ins string, outs string, links string, src string, T int) {
	bm := new(Bondmachine)
	bm.Rsize = uint8(rsize)
	for _, d := range strings.Split(cps, ";") {
		bm.Domains = append(bm.Domains, zzC05Machine(rsize, d))
	}
	bm.Init()
	for i := range bm.Domains {
		bm.Add_processor(i)
	}
	inl, outl := strings.Split(ins, ","), strings.Split(outs, ",")
	nin, nout := 0, 0
	for _, n := range outl {
		if n != "" && n[0] == 'i' {
			nin++
		}
	}
	for _, n := range inl {
		if n != "" && n[0] == 'o' {
			nout++
		}
	}
	for k := 0; k < nin; k++ {
		bm.Add_input()
	}
	for k := 0; k < nout; k++ {
		bm.Add_output()
	}
	for idx, l := range strings.Fields(links) {
		j, _ := strconv.Atoi(l)
		if j >= 0 {
			bm.Add_bond([]string{inl[idx], outl[j]})
		}
	}
	vm := new(VM)
	vm.Bmach = bm
	vm.Init()
	vm.Launch_processors(nil)

	ref := &zzRef{src: zzC05Parse(src), ok: true}
	ref.mask = 1<<uint(rsize) - 1
	ref.regs = make([]uint64, 1<<bm.Domains[0].R)
	ref.out = make([]uint64, nout)
	start, has := ref.src.labels[ref.src.entry]
	zzAssert("source-has-its-entry-label", has || ref.src.entry == "")
	ref.pc = start

	inputs := make([]uint64, nin)
	for k := range inputs {
		inputs[k] = zzNondetU64("input") & ref.mask
	}
	for t := 0; t < T; t++ {
		for k := range inputs {
			switch rsize {
			case 8:
				vm.Inputs_regs[k] = uint8(inputs[k])
			case 16:
				vm.Inputs_regs[k] = uint16(inputs[k])
			case 32:
				vm.Inputs_regs[k] = uint32(inputs[k])
			default:
				vm.Inputs_regs[k] = inputs[k]
			}
			vm.InputsValid[k] = true
		}
		for k := range vm.OutputsRecv {
			vm.OutputsRecv[k] = vm.OutputsValid[k]
		}
		vm.Step(nil)
		// one source instruction per tick; the instruction is selected under the guard pc == i
		pc := ref.pc
		zzAssert("source-pc-inside-the-program", pc >= 0 && pc < len(ref.src.prog))
		for i := range ref.src.prog {
			if pc == i {
				ref.exec(ref.src.prog[i], inputs)
			}
		}
		for k := 0; k < nout; k++ {
			zzAssert("output-stream-equals-source-interpretation", zzU64(vm.Outputs_regs[k]) == ref.out[k])
		}
	}
	zzAssert("source-inside-the-interpreted-subset", ref.ok)
	// registers at the horizon (names are kept by the front-end)
	P := vm.Processors[0]
	for i := range P.Registers {
		zzAssert("registers-equal-source-interpretation", zzU64(P.Registers[i]) == ref.regs[i])
	}
	zzReach("end")
}

func zzDispatch(name string, args []string) {
	atoi := func(s string) int { v, _ := strconv.Atoi(s); return v }
	switch name {
	case "zzC05":
		zzC05(atoi(args[0]), args[1], args[2], args[3], args[4], args[5], atoi(args[6]))
	}
}
