package bondmachine

import (
	"strconv"
	"strings"
)

// C05: the machine the real basm front-end emitted for a source (run natively
// by the driver, described by the arguments) against a direct interpretation of
// the SOURCE TEXT, tick by tick, on all external outputs - for all values of
// the external inputs (solver variables).
//
// cps:   one processor per ';' : "R:N:M:L:O:wordsize|op,op,...|romword,romword,..."
// ins / outs / links: the emitted bond graph (internal input names, internal output names, link table)
// src:   the .basm source text

type zzIns struct {
	op string
	a  []string
}

type zzSrc struct {
	prog   []zzIns
	labels map[string]int
	entry  string
	cells  []uint64       // ROM data cells in declaration order (they follow the code in the ROM)
	vars   map[string]int // variable name -> index of its first cell
}

// zzC05Parse reads the source form the way its documentation describes it: sections, labels on their own
// line (denoting the instruction that follows), the entry directive, macros without arguments.
func zzC05Parse(src string) *zzSrc {
	s := &zzSrc{labels: map[string]int{}, vars: map[string]int{}}
	macros := map[string][]zzIns{}
	inMacro, inSection := "", false
	inData := false
	var pending []string
	for _, raw := range strings.Split(src, "\n") {
		line := strings.TrimSpace(raw)
		if line == "" || line[0] == ';' {
			continue
		}
		f := strings.Fields(line)
		switch {
		case f[0] == "%macro":
			inMacro = f[1]
			macros[inMacro] = nil
			continue
		case f[0] == "%endmacro":
			inMacro = ""
			continue
		case f[0] == "%section":
			inSection = len(f) > 2 && f[2] == ".romtext" // data sections hold no instructions
			inData = len(f) > 2 && f[2] == ".romdata"
			continue
		case f[0] == "%endsection":
			inSection, inData = false, false
			continue
		case f[0][0] == '%':
			continue
		}
		if inData {
			// "<name> [N:]db v, v, ..." : N repetitions of the listed bytes, one ROM cell each
			if len(f) >= 3 && (f[1] == "db" || strings.HasSuffix(f[1], ":db")) {
				rep := 1
				if f[1] != "db" {
					rep, _ = strconv.Atoi(strings.TrimSuffix(f[1], ":db"))
				}
				s.vars[f[0]] = len(s.cells)
				rest := strings.TrimSpace(line[strings.Index(line, f[1])+len(f[1]):])
				for k := 0; k < rep; k++ {
					for _, v := range strings.Split(rest, ",") {
						x, _ := zzC05Lit(strings.TrimSpace(v))
						s.cells = append(s.cells, x)
					}
				}
			}
			continue
		}
		if strings.HasSuffix(f[0], ":") {
			pending = append(pending, strings.TrimSuffix(f[0], ":"))
			continue
		}
		if f[0] == "entry" {
			s.entry = f[1]
			continue
		}
		var in zzIns
		in.op = f[0]
		rest := strings.TrimSpace(line[len(f[0]):])
		if rest != "" {
			for _, a := range strings.Split(rest, ",") {
				in.a = append(in.a, strings.TrimSpace(a))
			}
		}
		if inMacro != "" {
			macros[inMacro] = append(macros[inMacro], in)
			continue
		}
		if !inSection {
			continue
		}
		for _, l := range pending {
			s.labels[l] = len(s.prog)
		}
		pending = nil
		if body, ok := macros[in.op]; ok {
			s.prog = append(s.prog, body...)
		} else {
			s.prog = append(s.prog, in)
		}
	}
	return s
}

// zzC05Lit: the value a numeric literal denotes (decimal, 0d decimal, 0x hexadecimal, 0b binary)
func zzC05Lit(t string) (uint64, bool) {
	base := 10
	switch {
	case strings.HasPrefix(t, "0x"):
		base, t = 16, t[2:]
	case strings.HasPrefix(t, "0b"):
		base, t = 2, t[2:]
	case strings.HasPrefix(t, "0d"):
		t = t[2:]
	}
	v, err := strconv.ParseUint(t, base, 64)
	return v, err == nil
}

func zzIsReg(t string) (int, bool) {
	if len(t) >= 2 && t[0] == 'r' {
		if v, err := strconv.Atoi(t[1:]); err == nil {
			return v, true
		}
	}
	return 0, false
}

func zzPortNo(t string) int {
	v, _ := strconv.Atoi(t[1:])
	return v
}

type zzRef struct {
	src  *zzSrc
	pc   int
	regs []uint64
	out  []uint64
	mask uint64
	ok   bool
}

func (r *zzRef) target(t string) int {
	if v, ok := r.src.labels[t]; ok {
		return v
	}
	v, err := strconv.Atoi(t)
	if err != nil {
		r.ok = false
	}
	return v
}

// exec: the documented effect of one instruction of the subset
func (r *zzRef) exec(in zzIns, inputs []uint64) {
	reg := func(k int) int {
		v, ok := zzIsReg(in.a[k])
		if !ok || v >= len(r.regs) {
			r.ok = false
			return 0
		}
		return v
	}
	next := r.pc + 1
	switch in.op {
	case "nop":
	case "mov", "rset":
		d := reg(0)
		if strings.HasPrefix(in.a[1], "rom:") {
			// the address of a ROM variable: the data cells follow the code
			off, ok := r.src.vars[strings.TrimPrefix(in.a[1], "rom:")]
			if !ok {
				r.ok = false
			}
			r.regs[d] = uint64(len(r.src.prog)+off) & r.mask
		} else if len(in.a[1]) >= 2 && in.a[1][0] == 'i' && in.a[1][1] >= '0' && in.a[1][1] <= '9' {
			r.regs[d] = inputs[zzPortNo(in.a[1])] // mov from an input: i2r or i2rw by the I/O mode, the same value
		} else if s, isreg := zzIsReg(in.a[1]); isreg {
			r.regs[d] = r.regs[s]
		} else {
			v, ok := zzC05Lit(in.a[1])
			if !ok {
				r.ok = false
			}
			r.regs[d] = v & r.mask
		}
	case "ro2rri":
		// the ROM cell whose address is in the second register (only data cells: code words are not part of the source's meaning)
		a := int(r.regs[reg(1)]) - len(r.src.prog)
		if a < 0 || a >= len(r.src.cells) {
			r.ok = false
		} else {
			r.regs[reg(0)] = r.src.cells[a] & r.mask
		}
	case "cpy":
		r.regs[reg(0)] = r.regs[reg(1)]
	case "clr":
		r.regs[reg(0)] = 0
	case "inc":
		d := reg(0)
		r.regs[d] = (r.regs[d] + 1) & r.mask
	case "dec":
		d := reg(0)
		r.regs[d] = (r.regs[d] - 1) & r.mask
	case "add":
		d := reg(0)
		r.regs[d] = (r.regs[d] + r.regs[reg(1)]) & r.mask
	case "sub":
		d := reg(0)
		r.regs[d] = (r.regs[d] - r.regs[reg(1)]) & r.mask
	case "i2r":
		r.regs[reg(0)] = inputs[zzPortNo(in.a[1])]
	case "r2o":
		r.out[zzPortNo(in.a[1])] = r.regs[reg(0)]
	case "j":
		next = r.target(in.a[0])
	case "jz":
		if r.regs[reg(0)] == 0 {
			next = r.target(in.a[1])
		}
	default:
		r.ok = false
	}
	r.pc = next
}

func zzC05(rsize int, cps string, ins string, outs string, links string, src string, T int) {
	bm, nin, nout := zzEmittedBM(rsize, cps, ins, outs, links)
	vm := new(VM)
	vm.Bmach = bm
	vm.Init()
	vm.Launch_processors(nil)

	ref := &zzRef{src: zzC05Parse(src), ok: true}
	ref.mask = 1<<uint(rsize) - 1
	ref.regs = make([]uint64, 1<<bm.Domains[0].R)
	ref.out = make([]uint64, nout)
	start, has := ref.src.labels[ref.src.entry]
	zzAssert("source-has-its-entry-label", has || ref.src.entry == "")
	ref.pc = start

	inputs := make([]uint64, nin)
	for k := range inputs {
		inputs[k] = zzNondetU64("input") & ref.mask
	}
	for t := 0; t < T; t++ {
		for k := range inputs {
			vm.Inputs_regs[k] = zzWordOf(rsize, inputs[k])
			vm.InputsValid[k] = true
		}
		for k := range vm.OutputsRecv {
			vm.OutputsRecv[k] = vm.OutputsValid[k]
		}
		vm.Step(nil)
		// one source instruction per tick; the instruction is selected under the guard pc == i
		pc := ref.pc
		zzAssert("source-pc-inside-the-program", pc >= 0 && pc < len(ref.src.prog))
		for i := range ref.src.prog {
			if pc == i {
				ref.exec(ref.src.prog[i], inputs)
			}
		}
		for k := 0; k < nout; k++ {
			zzAssert("output-stream-equals-source-interpretation", zzU64(vm.Outputs_regs[k]) == ref.out[k])
		}
	}
	zzAssert("source-inside-the-interpreted-subset", ref.ok)
	// the I/O mode in force (section metadata, else the global default, else async) decides the opcode of a mov from an input
	mode, movIn := "async", false
	for _, raw := range strings.Split(src, "\n") {
		f := strings.Fields(raw)
		if len(f) >= 5 && f[0] == "%meta" && f[1] == "bmdef" && f[3] == "iomode:" {
			mode = f[4]
		}
	}
	for _, raw := range strings.Split(src, "\n") {
		f := strings.Fields(raw)
		if len(f) >= 4 && f[0] == "%section" && strings.HasPrefix(f[3], "iomode:") {
			mode = strings.TrimPrefix(f[3], "iomode:")
		}
	}
	for _, in := range ref.src.prog {
		if in.op == "mov" && len(in.a) == 2 && len(in.a[1]) >= 2 && in.a[1][0] == 'i' && in.a[1][1] >= '0' && in.a[1][1] <= '9' {
			movIn = true
		}
	}
	hasI2rw := false
	for _, op := range bm.Domains[0].Op {
		if op.Op_get_name() == "i2rw" {
			hasI2rw = true
		}
	}
	zzAssert("handshaked-input-opcode-exactly-when-the-io-mode-is-sync", hasI2rw == (movIn && mode == "sync"))
	// registers at the horizon (names are kept by the front-end)
	P := vm.Processors[0]
	for i := range P.Registers {
		zzAssert("registers-equal-source-interpretation", zzU64(P.Registers[i]) == ref.regs[i])
	}
	zzReach("end")
}

func zzDispatch(name string, args []string) {
	atoi := func(s string) int { v, _ := strconv.Atoi(s); return v }
	switch name {
	case "zzC05":
		zzC05(atoi(args[0]), args[1], args[2], args[3], args[4], args[5], atoi(args[6]))
	case "zzC05Multi":
		zzC05Multi(atoi(args[0]), args[1], args[2], args[3], args[4], args[5], atoi(args[6]))
	}
}

// ---- several CPs joined by handshaked links (straight-line programs, final-state comparison) ----

type zzCP struct {
	name string
	ref  *zzRef
	done bool
}

type zzEnd struct {
	cp      string
	index   int
	isInput bool
}

// zzC05ParseMulti: sections by name, "%meta cpdef <cp> romcode: <section>, ..." and
// "%meta ioatt <link> cp: <cp|bm>, index:N, type:input|output" (two per link)
func zzC05ParseMulti(src string) (cps []*zzCP, links map[string][]zzEnd) {
	sections := map[string]string{}
	cur, body := "", ""
	links = map[string][]zzEnd{}
	var order []string
	romcode := map[string]string{}
	for _, raw := range strings.Split(src, "\n") {
		line := strings.TrimSpace(raw)
		f := strings.Fields(line)
		if len(f) == 0 {
			continue
		}
		switch {
		case f[0] == "%section":
			cur, body = f[1], ""
			continue
		case f[0] == "%endsection":
			sections[cur] = body
			cur = ""
			continue
		case f[0] == "%meta" && f[1] == "cpdef":
			order = append(order, f[2])
			for _, kv := range strings.Split(strings.Join(f[3:], ""), ",") {
				p := strings.Split(kv, ":")
				if p[0] == "romcode" {
					romcode[f[2]] = p[1]
				}
			}
			continue
		case f[0] == "%meta" && f[1] == "ioatt":
			var e zzEnd
			for _, kv := range strings.Split(strings.Join(f[3:], ""), ",") {
				p := strings.Split(kv, ":")
				switch p[0] {
				case "cp":
					e.cp = p[1]
				case "index":
					e.index, _ = strconv.Atoi(p[1])
				case "type":
					e.isInput = p[1] == "input"
				}
			}
			links[f[2]] = append(links[f[2]], e)
			continue
		}
		if cur != "" {
			body += raw + "\n"
		}
	}
	for _, name := range order {
		text := "%section x .romtext\n" + sections[romcode[name]] + "%endsection\n"
		cps = append(cps, &zzCP{name: name, ref: &zzRef{src: zzC05Parse(text), ok: true}})
	}
	return
}

func zzC05Multi(rsize int, cpsDesc string, ins string, outs string, links string, src string, T int) {
	bm, nin, nout := zzEmittedBM(rsize, cpsDesc, ins, outs, links)
	vm := new(VM)
	vm.Bmach = bm
	vm.Init()
	vm.Launch_processors(nil)
	mask := uint64(1)<<uint(rsize) - 1
	inputs := make([]uint64, nin)
	for k := range inputs {
		inputs[k] = zzNondetU64("input") & mask
	}
	for t := 0; t < T; t++ {
		for k := range inputs {
			vm.Inputs_regs[k] = zzWordOf(rsize, inputs[k])
			vm.InputsValid[k] = true
		}
		for k := range vm.OutputsRecv {
			vm.OutputsRecv[k] = vm.OutputsValid[k]
		}
		vm.Step(nil)
	}
	// reference: each CP interpreted on its own; a link carries the value its producer wrote to its consumer
	declared, lk := zzC05ParseMulti(src)
	zzAssert("one-processor-per-cpdef", len(declared) == len(vm.Processors))
	// the emitted processors in their own order, matched to the source by name
	var cps []*zzCP
	for _, d := range strings.Split(cpsDesc, ";") {
		f := strings.Split(d, "|")
		for _, c := range declared {
			if len(f) > 3 && c.name == f[3] {
				cps = append(cps, c)
			}
		}
	}
	zzAssert("every-emitted-processor-is-a-declared-one", len(cps) == len(declared))
	if len(cps) != len(vm.Processors) {
		return
	}
	chanOf := func(cp string, index int, isInput bool) string { // link name of an endpoint
		for name, ends := range lk {
			for _, e := range ends {
				if e.cp == cp && e.index == index && e.isInput == isInput {
					return name
				}
			}
		}
		return ""
	}
	peerIsBM := func(link string) (bool, int) {
		for _, e := range lk[link] {
			if e.cp == "bm" {
				return true, e.index
			}
		}
		return false, 0
	}
	full := map[string]bool{}
	val := map[string]uint64{}
	extOut := make([]uint64, nout)
	for i, c := range cps {
		c.ref.mask = mask
		c.ref.regs = make([]uint64, 1<<bm.Domains[i].R)
		c.ref.out = make([]uint64, int(bm.Domains[i].M))
		c.ref.pc = c.ref.src.labels[c.ref.src.entry]
	}
	for round := 0; round < 200; round++ {
		progress := false
		for _, c := range cps {
			r := c.ref
			if c.done || r.pc >= len(r.src.prog) {
				continue
			}
			in := r.src.prog[r.pc]
			switch in.op {
			case "r2owa", "r2o":
				reg, _ := zzIsReg(in.a[0])
				l := chanOf(c.name, zzPortNo(in.a[1]), false)
				if isbm, k := peerIsBM(l); isbm {
					extOut[k] = r.regs[reg]
				} else if full[l] {
					continue // the consumer has not taken the previous value yet
				} else {
					full[l], val[l] = true, r.regs[reg]
				}
				r.pc++
				progress = true
			case "i2rw", "i2r":
				reg, _ := zzIsReg(in.a[0])
				l := chanOf(c.name, zzPortNo(in.a[1]), true)
				if isbm, k := peerIsBM(l); isbm {
					r.regs[reg] = inputs[k]
				} else if !full[l] {
					continue
				} else {
					r.regs[reg], full[l] = val[l], false
				}
				r.pc++
				progress = true
			case "j":
				if r.target(in.a[0]) == r.pc {
					c.done = true // parked
				} else {
					r.exec(in, nil)
					progress = true
				}
			default:
				r.exec(in, nil)
				progress = true
			}
		}
		if !progress {
			break
		}
	}
	for i, c := range cps {
		zzAssert("source-inside-the-interpreted-subset", c.ref.ok)
		zzAssert("source-program-finished", c.done)
		P := vm.Processors[i]
		for k := range P.Registers {
			zzAssert("registers-equal-source-interpretation", zzU64(P.Registers[k]) == c.ref.regs[k])
		}
	}
	for k := 0; k < nout; k++ {
		zzAssert("external-output-equals-source-interpretation", zzU64(vm.Outputs_regs[k]) == extOut[k])
	}
	zzReach("end")
}
