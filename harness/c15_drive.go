package bondmachine

import (
	"strconv"
	"strings"

	"github.com/BondMachineHQ/BondMachine/pkg/simbox"
)

// C15 part 3: SimDrive.Init compiles the set rules of a Simbox into the tables
// the tick loop applies. For a list of rules whose objects are concrete (one per
// configuration) and whose tick, value, kind (absolute set / periodic set /
// another rule kind) and suspended flag are solver variables: for ANY tick q and
// every object o, the absolute (periodic) table holds for (q, o) exactly the
// value of the LAST non-suspended absolute (periodic) set rule naming o at q,
// and nothing when there is none; the injection pointer of o is o's location.
//
// The numeric text of a rule's Extra is a token: ImportNumber("v<k>") is stubbed
// to return the k-th value variable (the literal importers are C08's subject).

func zzC15Word(rsize int, v uint64) interface{} {
	switch {
	case rsize <= 8:
		return uint8(v)
	case rsize <= 16:
		return uint16(v)
	case rsize <= 32:
		return uint32(v)
	}
	return v
}

func zzC15Drive(objs string, rsize int) {
	bm := new(Bondmachine)
	bm.Rsize = uint8(rsize)
	m := zzPMachine(rsize, 1, 1, 1, 0, 1, "j,nop")
	m.Program.Slocs = []string{"", ""}
	bm.Domains = append(bm.Domains, m)
	bm.Init()
	bm.Add_processor(0)
	bm.Add_input()
	bm.Add_input()
	bm.Add_output()
	vm := new(VM)
	vm.Bmach = bm
	vm.Init()

	names := strings.Split(objs, ",")
	n := len(names)
	sb := new(simbox.Simbox)
	ticks := make([]uint64, n)
	vals := make([]uint64, n)
	susp := make([]bool, n)
	kind := make([]uint8, n)
	for k := 0; k < n; k++ {
		ticks[k] = zzNondetU64("tick")
		vals[k] = zzNondetU64("val")
		susp[k] = zzNondetBool("suspended")
		kind[k] = zzNondetU8("kind")
		zzAssume(kind[k] <= 2)
		extra := "v" + strconv.Itoa(k)
		if zzNative() {
			extra = strconv.FormatUint(vals[k], 10) // native replay: the real importer reads the value
		}
		r := simbox.Rule{Tick: ticks[k], Object: names[k], Extra: extra, Suspended: susp[k]}
		switch kind[k] {
		case 0:
			r.Timec, r.Action = simbox.TIMEC_ABS, simbox.ACTION_SET
		case 1:
			r.Timec, r.Action = simbox.TIMEC_REL, simbox.ACTION_SET
		default:
			r.Timec, r.Action = simbox.TIMEC_ABS, simbox.ACTION_GET
		}
		sb.Rules = append(sb.Rules, r)
	}
	zzC15Vals = vals
	sd := new(SimDrive)
	err := sd.Init(new(Config), sb, vm)
	zzAssert("init-no-error", err == nil)
	if err != nil {
		return
	}
	q := zzNondetU64("query-tick")
	seen := map[string]bool{}
	for _, o := range names {
		if seen[o] {
			continue
		}
		seen[o] = true
		loc, lerr := vm.GetElementLocation(o)
		zzAssert("object-exists", lerr == nil)
		ipos := -1
		for i, p := range sd.Injectables {
			if p == loc {
				ipos = i
			}
		}
		for table := uint8(0); table <= 1; table++ {
			// the last matching rule, if any
			have := false
			var want uint64
			anySet := false
			for k := 0; k < n; k++ {
				if names[k] == o && !susp[k] && kind[k] == table {
					anySet = true
					if ticks[k] == q {
						have, want = true, vals[k]
					}
				}
			}
			tab := sd.AbsSet
			if table == 1 {
				tab = sd.PerSet
			}
			row, ok := tab[q]
			if anySet {
				zzAssert("injection-pointer-is-the-object's-location", ipos >= 0)
			}
			if have {
				zzAssert("table-has-the-tick", ok)
				if ok && ipos >= 0 {
					got, present := row[ipos]
					zzAssert("table-has-the-object-at-the-tick", present)
					zzAssert("value-is-the-last-matching-rule's", present && got == zzC15Word(rsize, want))
				}
			} else if ok && ipos >= 0 {
				_, present := row[ipos]
				zzAssert("nothing-is-set-without-a-rule", !present)
			}
		}
		// an input that is set at an absolute tick has its valid flag raised by the tick loop
		if o[0] == 'i' && ipos >= 0 {
			idx, _ := strconv.Atoi(o[1:])
			absRule := false
			for k := 0; k < n; k++ {
				if names[k] == o && !susp[k] && kind[k] == 0 {
					absRule = true
				}
			}
			if absRule {
				v, present := sd.NeedValid[ipos]
				zzAssert("input-marked-for-valid", present && v == idx)
			}
		}
	}
	zzReach("end")
}

// zzC15Report: SimReport.Init. Rule kinds are concrete, one per rule: kind = 2*timing + side with timing 0 absolute,
// 1 periodic, 2 on exit, 3 on valid and side 0 get, 1 show; kind 8 is another kind of rule. Ticks and suspended flags
// are solver variables. For ANY tick q and every object o: a tick table names o at q exactly when a non-suspended
// rule of that kind names o at q; an event table holds o exactly when a non-suspended event rule of that kind names
// it (on valid: and o has a valid signal), pointing at o's registration (and at its valid signal); the registered
// location is o's, its name is o, its type is the Extra of the first non-suspended rule that registered it.
func zzC15Report(objs string, kinds string, rsize int) {
	bm := new(Bondmachine)
	bm.Rsize = uint8(rsize)
	m := zzPMachine(rsize, 1, 1, 1, 0, 1, "j,nop")
	m.Program.Slocs = []string{"", ""}
	bm.Domains = append(bm.Domains, m)
	bm.Init()
	bm.Add_processor(0)
	bm.Add_input()
	bm.Add_input()
	bm.Add_output()
	vm := new(VM)
	vm.Bmach = bm
	vm.Init()
	names := strings.Split(objs, ",")
	n := len(names)
	sb := new(simbox.Simbox)
	ticks := make([]uint64, n)
	susp := make([]bool, n)
	kind := make([]int, n)
	extra := make([]string, n)
	timecs := []uint8{simbox.TIMEC_ABS, simbox.TIMEC_REL, simbox.TIMEC_ON_EXIT, simbox.TIMEC_ON_VALID}
	for k := 0; k < n; k++ {
		ticks[k] = zzNondetU64("tick")
		susp[k] = zzNondetBool("suspended")
		kind[k], _ = strconv.Atoi(strings.Split(kinds, ",")[k])
		if k%2 == 1 {
			extra[k] = "hex"
		}
		r := simbox.Rule{Tick: ticks[k], Object: names[k], Extra: extra[k], Suspended: susp[k]}
		if kind[k] < 8 {
			r.Timec = timecs[kind[k]/2]
			r.Action = simbox.ACTION_GET
			if kind[k]%2 == 1 {
				r.Action = simbox.ACTION_SHOW
			}
		} else {
			r.Timec, r.Action = simbox.TIMEC_ABS, simbox.ACTION_SET
		}
		sb.Rules = append(sb.Rules, r)
	}
	sr := new(SimReport)
	err := sr.Init(sb, vm)
	zzAssert("init-no-error", err == nil)
	if err != nil {
		return
	}
	q := zzNondetU64("query-tick")
	seen := map[string]bool{}
	for _, o := range names {
		if seen[o] {
			continue
		}
		seen[o] = true
		loc, lerr := vm.GetElementLocation(o)
		zzAssert("object-exists", lerr == nil)
		vloc, verr := vm.GetElementLocation(o + "v")
		for side := 0; side <= 1; side++ { // 0: reportables (get rules), 1: showables (show rules)
			ptrs, pnames, ptypes := sr.Reportables, sr.ReportablesNames, sr.ReportablesTypes
			if side == 1 {
				ptrs, pnames, ptypes = sr.Showables, sr.ShowablesNames, sr.ShowablesTypes
			}
			ipos := -1
			for i, p := range ptrs {
				if p == loc {
					ipos = i
				}
			}
			registered := false
			wantType := ""
			for k := n - 1; k >= 0; k-- {
				if names[k] == o && !susp[k] && kind[k] < 8 && kind[k]%2 == side {
					registered = true
					wantType = extra[k]
					if wantType == "" {
						wantType = "unsigned"
					}
				}
			}
			if registered {
				zzAssert("location-registered", ipos >= 0)
				if ipos >= 0 {
					zzAssert("registered-name-is-the-object", pnames[ipos] == o)
					zzAssert("registered-type-is-the-first-rule's", ptypes[ipos] == wantType)
				}
			} else {
				zzAssert("nothing-registered-without-a-rule", ipos == -1)
			}
			for timing := 0; timing <= 3; timing++ {
				kk := 2*timing + side
				have := false
				for k := 0; k < n; k++ {
					if names[k] == o && !susp[k] && kind[k] == kk && (timing >= 2 || ticks[k] == q) {
						have = true
					}
				}
				switch timing {
				case 0, 1:
					present := false
					if side == 0 {
						tab := sr.AbsGet
						if timing == 1 {
							tab = sr.PerGet
						}
						if row, ok := tab[q]; ok && ipos >= 0 {
							_, present = row[ipos]
						}
					} else {
						tab := sr.AbsShow
						if timing == 1 {
							tab = sr.PerShow
						}
						if row, ok := tab[q]; ok && ipos >= 0 {
							_, present = row[ipos]
						}
					}
					zzAssert("table-names-the-object-exactly-when-a-rule-does", present == have)
				default:
					ev := simEvent{event: EVENTONEXIT, object: o}
					if timing == 3 {
						ev.event = EVENTONVALID
					}
					tab := sr.EventGet
					if side == 1 {
						tab = sr.EventShow
					}
					ptr, present := tab[ev]
					if timing == 3 && verr != nil {
						have = false // an object without a valid signal cannot have an on-valid event
					}
					zzAssert("event-table-holds-the-object-exactly-when-a-rule-does", present == have)
					if present && have {
						zzAssert("event-points-at-the-object's-registration", ptr[0] == ipos)
						if timing == 2 {
							zzAssert("exit-event-needs-no-signal", ptr[1] == -1)
						} else {
							// GetElementLocation wraps the address of a flag in a fresh interface cell at every call: compare the wrapped addresses
							zzAssert("valid-event-points-at-the-valid-signal", ptr[1] >= 0 && ptr[1] < len(sr.EventData) && *sr.EventData[ptr[1]] == *vloc)
						}
					}
				}
			}
		}
	}
	zzReach("end")
}

// the value variables of the current run, read by the ImportNumber stub
var zzC15Vals []uint64

func zzC15Number(c *Config, input string) (uint64, error) {
	k, _ := strconv.Atoi(input[1:])
	return zzC15Vals[k], nil
}

func zzDispatch(name string, args []string) {
	atoi := func(s string) int { v, _ := strconv.Atoi(s); return v }
	switch name {
	case "zzC15Drive":
		zzC15Drive(args[0], atoi(args[1]))
	case "zzC15Report":
		zzC15Report(args[0], args[1], atoi(args[2]))
	}
}
