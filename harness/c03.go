package procbuilder

import (
	"strconv"
	"strings"
)

// C03: assembling one instruction either fails or yields a word of exactly the
// architecture's width whose disassembly names the same operands and
// re-assembles to the same word; an operand that does not fit is rejected.
//
// shape: one letter per operand: R register, I input, O output, T jump target
// (O bits in mode ha), A RAM address (L bits), X ROM address (O bits), V
// immediate (Rsize bits), B 8-bit immediate.
// nb1/nb2: exact bit length of the 1st/2nd numeric operand (strings have concrete
// lengths; the driver enumerates the lengths, the solver the values).

// zzNumText is the decimal text of a numeric literal. Natively it is the real
// text; symbolically the check replaces it by a token that the stub of
// Process_number / strconv.Itoa understands (see DESIGN, C03 "Stub").
func zzNumText(v uint64, nbits int) string { return strconv.FormatUint(v, 10) }

// zzNumValue is the inverse on a disassembled field.
func zzNumValue(s string) (uint64, bool) {
	v, err := strconv.ParseUint(s, 10, 64)
	return v, err == nil
}

func zzFieldWidth(m *Machine, k byte) int {
	switch k {
	case 'R':
		return int(m.R)
	case 'I':
		return m.Inputs_bits()
	case 'O':
		return m.Outputs_bits()
	case 'T', 'X':
		return int(m.O)
	case 'A':
		return int(m.L)
	case 'V':
		return int(m.Rsize)
	case 'B':
		return 8
	}
	return 0
}

func zzC03(rsize, r, n, mm, l, o int, ops string, opname string, shape string, wordsize int, nb1 int, nb2 int) {
	m := zzMachine(rsize, r, n, mm, l, o, ops)
	m.WordSize = uint8(wordsize)
	k := zzOpIndex(m, opname)
	op := m.Op[k]
	opbits := m.Opcodes_bits()
	words := make([]string, len(shape))
	vals := make([]uint64, len(shape))
	fits := true
	nnum := 0
	for i := 0; i < len(shape); i++ {
		kind := shape[i]
		switch kind {
		case 'R', 'I', 'O':
			a := zzNondetU8("idx")
			lim := 1 << uint(r)
			pre := "r"
			if kind == 'I' {
				lim, pre = n, "i"
			} else if kind == 'O' {
				lim, pre = mm, "o"
			}
			zzAssume(int(a) <= lim+1)
			vals[i] = uint64(a)
			words[i] = pre + strconv.Itoa(int(a))
			if int(a) >= lim {
				fits = false
			}
		default:
			nb := nb1
			if nnum == 1 {
				nb = nb2
			}
			nnum++
			v := zzNondetU64("num")
			if nb < 64 {
				zzAssume(v>>uint(nb) == 0)
			}
			if nb > 1 {
				zzAssume(v>>uint(nb-1) == 1)
			}
			vals[i] = v
			words[i] = zzNumText(v, nb)
			if nb > zzFieldWidth(m, kind) {
				fits = false
			}
		}
	}
	line := opname
	for _, w := range words {
		line += " " + w
	}
	word, err := m.Arch.Assembler_process_line([]byte(line))
	if err != nil {
		zzReach("rejected")
		return
	}
	zzAssert("accepted-only-if-fits", fits)         // (4) an operand that does not fit is rejected
	zzAssert("width", len(word) == m.Max_word())     // (1) exactly the architecture's width
	if !fits {
		zzReach("accepted-unfit")
		return
	}
	zzAssume(len(word) == m.Max_word())
	for i := 0; i < len(word); i++ {
		zzAssert("binary", word[i] == '0' || word[i] == '1')
	}
	id, _ := m.Conproc.Decode_opcode(word)
	zzAssert("opcode", id == k)
	text, derr := op.Disassembler(&m.Arch, word[opbits:])
	zzAssert("disasm-ok", derr == nil)
	fields := strings.Fields(text)
	zzAssert("disasm-arity", len(fields) == len(shape))
	zzAssume(len(fields) == len(shape))
	for i := 0; i < len(shape); i++ {
		switch shape[i] {
		case 'R', 'I', 'O':
			zzAssert("disasm-operand", fields[i] == words[i]) // (2) same operand
		default:
			dv, ok := zzNumValue(fields[i])
			zzAssert("disasm-number", ok && dv == vals[i])
			zzAssume(ok && dv == vals[i])
		}
	}
	word2, err2 := m.Arch.Assembler_process_line([]byte(opname + " " + text))
	zzAssert("reasm-ok", err2 == nil)
	zzAssume(err2 == nil)
	zzAssert("reasm-same", word2 == word) // (3) asm(disasm(w)) == w
	zzReach("ok")
}

// zzC03Stub validates, natively, the contract the symbolic stub of
// Process_number assumes: a decimal literal yields the minimal binary string of
// its value, and strconv.Itoa round-trips through it.
func zzC03Stub() {
	vals := []uint64{0, 1, 2, 3, 7, 8, 9, 10, 99, 100, 127, 128, 255, 256, 300, 511, 512, 1023, 1024, 4095, 4096, 65535, 65536, 65537,
		1<<24 - 1, 1 << 24, 1<<31 - 1, 1 << 31, 1<<32 - 1, 1 << 32, 1<<32 + 1, 1<<48 + 12345, 1<<62 - 1, 1 << 62, 1<<63 - 1}
	x := uint64(88172645463325252)
	for i := 0; i < 400; i++ {
		x ^= x << 13
		x ^= x >> 7
		x ^= x << 17
		vals = append(vals, x>>uint(i%63+1))
	}
	for _, v := range vals {
		if v >= 1<<63 {
			continue
		}
		got, err := Process_number(strconv.Itoa(int(v)))
		zzAssert("stub-contract", err == nil && got == strconv.FormatUint(v, 2))
	}
	zzReach("stub")
}

// zzC03Bits: the field helpers every Assembler/Disassembler is built from, for ALL bit strings of n characters:
// get_id reads a field as the unsigned number its bits denote (n <= 62 so that it fits an int), zeros_prefix pads
// to exactly the requested width without touching the digits, and the two are inverse on the padded text.
func zzC03Bits(n int, pad int) {
	s := zzNondetBits("field", n)
	// bit i of the number is character n-1-i of the text, and nothing above bit n-1 is set
	value := func(t string, width int) bool {
		v := get_id(t)
		ok := v>>uint(width) == 0 && v >= 0
		for i := 0; i < width; i++ {
			if ((v>>uint(i))&1 == 1) != (t[len(t)-1-i] == '1') {
				ok = false
			}
		}
		return ok
	}
	zzAssert("get_id-is-the-value-of-the-bits", value(s, n))
	p := zeros_prefix(n+pad, s)
	zzAssert("zeros_prefix-pads-to-the-width", len(p) == n+pad)
	zzAssert("zeros_prefix-keeps-the-digits", len(p) == n+pad && p[pad:] == s)
	zzAssert("zeros_prefix-keeps-the-value", get_id(p) == get_id(s))
	for i := 0; i < pad; i++ {
		zzAssert("zeros_prefix-pads-with-zeros", p[i] == '0')
	}
	zzReach("end")
}

// zzC03Program: the whole-program entry point Arch.Assembler on a text with comment and blank lines at the
// positions given by mask (bit k: a comment before instruction k, bit k+8: a blank line after it): one word of the
// architecture's width per instruction line, nothing for the other lines (concrete text: the byte-wise line splitter of Arch.Assembler is the subject).
func zzC03Program(mask int) {
	m := zzMachine(8, 1, 1, 1, 0, 3, "inc,j,nop,rset")
	instr := []string{"rset r0 5", "inc r0", "nop", "j 1"}
	text := ""
	for k, l := range instr {
		if mask>>uint(k)&1 == 1 {
			text += "# note " + strconv.Itoa(k) + "\n"
		}
		text += l + "\n"
		if mask>>uint(k+8)&1 == 1 {
			text += "\n"
		}
	}
	prog, err := m.Arch.Assembler([]byte(text))
	zzAssert("program-accepted", err == nil)
	if err != nil {
		return
	}
	zzAssert("one-word-per-instruction", len(prog.Slocs) == len(instr))
	W := m.Max_word()
	for _, w := range prog.Slocs {
		zzAssert("every-word-has-the-architecture-width", len(w) == W)
	}
	for k, l := range instr {
		if k < len(prog.Slocs) {
			one, e1 := m.Arch.Assembler_process_line([]byte(l))
			zzAssert("word-is-the-line's-encoding", e1 == nil && prog.Slocs[k] == one)
		}
	}
	zzReach("end")
}

func zzDispatch(name string, args []string) {
	atoi := func(s string) int { v, _ := strconv.Atoi(s); return v }
	switch name {
	case "zzC03Program":
		zzC03Program(atoi(args[0]))
	case "zzC03Bits":
		zzC03Bits(atoi(args[0]), atoi(args[1]))
	case "zzC03":
		zzC03(atoi(args[0]), atoi(args[1]), atoi(args[2]), atoi(args[3]), atoi(args[4]), atoi(args[5]), args[6], args[7], args[8], atoi(args[9]), atoi(args[10]), atoi(args[11]))
	case "zzC03Stub":
		zzC03Stub()
	}
}
