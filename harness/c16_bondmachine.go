package bondmachine

func zzC16NeededBits() {
	num := zzNondetInt("num")
	zzAssume(num >= 0)
	zzAssume(num <= 65536)
	bits := Needed_bits(num)
	if num == 0 {
		zzAssert("zero", bits == 0)
	} else {
		zzAssert("positive", bits >= 1 && bits <= 17)
		zzAssert("adequate", 1<<uint(bits) >= num)
		zzAssert("minimal", bits == 1 || 1<<uint(bits-1) < num)
	}
	zzReach("end")
}

func zzDispatch(name string, args []string) {
	switch name {
	case "zzC16NeededBits":
		zzC16NeededBits()
	}
}
