package bondmachine

import (
	"strconv"
	"strings"
)

func zzC16NeededBits() {
	num := zzNondetInt("num")
	zzAssume(num >= 0)
	zzAssume(num <= 65536)
	bits := Needed_bits(num)
	if num == 0 {
		zzAssert("zero", bits == 0)
	} else {
		zzAssert("positive", bits >= 1 && bits <= 17)
		zzAssert("adequate", 1<<uint(bits) >= num)
		zzAssert("minimal", bits == 1 || 1<<uint(bits-1) < num)
	}
	zzReach("end")
}

// zzC16EmittedBM: the bond graph of a machine emitted by the basm front-end (lists as printed by the native run)
// against the endpoints its processors need and the bonds its source declares ("out>in" names).
func zzC16EmittedBM(inputs int, outputs int, nm string, ins string, outs string, links string, declared string) {
	split := func(s string, sep string) []string {
		if s == "" {
			return nil
		}
		return strings.Split(s, sep)
	}
	inl, outl := split(ins, ","), split(outs, ",")
	var ll []int
	for _, f := range split(links, " ") {
		v, err := strconv.Atoi(f)
		zzAssert("links-are-numbers", err == nil)
		ll = append(ll, v)
	}
	count := func(l []string, x string) int {
		n := 0
		for _, y := range l {
			if x == y {
				n++
			}
		}
		return n
	}
	index := func(l []string, x string) int {
		for i, y := range l {
			if x == y {
				return i
			}
		}
		return -1
	}
	zzAssert("one-link-slot-per-internal-input", len(ll) == len(inl))
	nin, nout := outputs, inputs
	for k := 0; k < outputs; k++ {
		zzAssert("bm-output-endpoint-exactly-once", count(inl, "o"+strconv.Itoa(k)) == 1)
	}
	for k := 0; k < inputs; k++ {
		zzAssert("bm-input-endpoint-exactly-once", count(outl, "i"+strconv.Itoa(k)) == 1)
	}
	for p, d := range split(nm, ",") {
		f := strings.Split(d, ":")
		n, _ := strconv.Atoi(f[0])
		m, _ := strconv.Atoi(f[1])
		nin += n
		nout += m
		for e := 0; e < n; e++ {
			zzAssert("processor-input-endpoint-exactly-once", count(inl, "p"+strconv.Itoa(p)+"i"+strconv.Itoa(e)) == 1)
		}
		for e := 0; e < m; e++ {
			zzAssert("processor-output-endpoint-exactly-once", count(outl, "p"+strconv.Itoa(p)+"o"+strconv.Itoa(e)) == 1)
		}
	}
	zzAssert("endpoint-lists-match-port-counts", len(inl) == nin && len(outl) == nout)
	if len(ll) > 0 {
		k := zzNondetInt("slot")
		zzAssume(k >= 0 && k < len(ll))
		zzAssert("every-link-points-at-an-existing-internal-output", ll[k] >= -1 && ll[k] < len(outl))
	}
	for _, b := range split(declared, ",") {
		e := strings.Split(b, ">")
		i, o := index(inl, e[1]), index(outl, e[0])
		zzAssert("declared-bond-endpoints-exist", i >= 0 && o >= 0)
		if i >= 0 && o >= 0 && i < len(ll) {
			zzAssert("declared-bond-present", ll[i] == o)
		}
	}
	zzReach("end")
}

func zzDispatch(name string, args []string) {
	atoi := func(s string) int { v, _ := strconv.Atoi(s); return v }
	switch name {
	case "zzC16NeededBits":
		zzC16NeededBits()
	case "zzC16EmittedBM":
		zzC16EmittedBM(atoi(args[0]), atoi(args[1]), args[2], args[3], args[4], args[5], args[6])
	}
}
