package bmnumbers

import (
	"regexp"
	"strconv"
)

// C08(a): dump of the real matcher registry (after init and after one member of
// every dynamic family has been created), for the language-level disjointness
// queries built by the driver.
func zzC08Patterns() {
	for _, name := range []string{"flpe5f10", "lqs16t1", "fps16f8", "fxps16f8"} {
		EventuallyCreateType(name, nil)
	}
	n := 0
	for k := range AllMatchers {
		zzExport("pat:"+strconv.Itoa(n), k)
		n++
	}
	zzExport("npat", n)
	zzReach("end")
}

// native replay of an ambiguity witness: at most one registered notation may claim s
func zzC08Ambiguous(s string) {
	for _, name := range []string{"flpe5f10", "lqs16t1", "fps16f8", "fxps16f8"} {
		EventuallyCreateType(name, nil)
	}
	hits := 0
	for k := range AllMatchers {
		if regexp.MustCompile(k).MatchString(s) {
			hits++
		}
	}
	zzAssert("one-notation", hits <= 1)
	zzReach("end")
}

// native validation of the regex translation: the real engine's verdict on s for pattern k
func zzC08Match(k string, s string, want int) {
	got := 0
	if regexp.MustCompile(k).MatchString(s) {
		got = 1
	}
	zzAssert("rex-agrees", got == want)
	zzReach("end")
}

// C08(b): export -> import round trip for one type, one width, one exact number
// of significant bits (so that every string has a concrete length; the bits
// themselves are solver variables).
func zzC08RoundTrip(tname string, w int, sig int) {
	t := GetType(tname)
	nb := (w + 7) / 8
	n := &BMNumber{number: make([]byte, nb), bits: w, nType: t}
	for i := range n.number {
		n.number[i] = zzNondetU8("byte")
	}
	// the value has exactly sig significant bits (sig == 1: the value is 0 or 1)
	for i := 0; i < nb*8; i++ {
		bit := (n.number[i/8] >> uint(i%8)) & 1
		if i >= sig {
			zzAssume(bit == 0)
		}
		if i == sig-1 && sig > 1 {
			zzAssume(bit == 1)
		}
	}
	want, err0 := n.ExportBinaryNBits(w)
	zzAssert("nbits-ok", err0 == nil)
	zzAssume(err0 == nil)
	zzAssert("nbits-width", len(want) == w) // exactly the stated width
	if sig > 1 {
		_, errShort := n.ExportBinaryNBits(sig - 1)
		zzAssert("nbits-too-small-rejected", errShort != nil)
	}
	vb, errv := n.ExportVerilogBinary()
	zzAssert("verilog-ok", errv == nil)
	zzAssert("verilog-form", vb == strconv.Itoa(w)+"'b"+want)
	s, err := n.ExportString(nil)
	zzAssert("export-ok", err == nil)
	zzAssume(err == nil)
	m, err2 := ImportString(s)
	zzAssert("import-ok", err2 == nil)
	zzAssume(err2 == nil)
	zzAssert("same-type", m.nType.GetName() == tname)
	zzAssert("same-width", m.bits == w)
	if m.bits != w {
		zzReach("width-lost")
		return
	}
	got, err3 := m.ExportBinaryNBits(w)
	zzAssert("same-bits", err3 == nil && got == want)
	zzReach("end")
}

func zzDispatch(name string, args []string) {
	atoi := func(s string) int { v, _ := strconv.Atoi(s); return v }
	switch name {
	case "zzC08Patterns":
		zzC08Patterns()
	case "zzC08Ambiguous":
		zzC08Ambiguous(args[0])
	case "zzC08Match":
		zzC08Match(args[0], args[1], atoi(args[2]))
	case "zzC08RoundTrip":
		zzC08RoundTrip(args[0], atoi(args[1]), atoi(args[2]))
	}
}
