package bondmachine

import (
	"strconv"

	"github.com/BondMachineHQ/BondMachine/pkg/procbuilder"
	"github.com/BondMachineHQ/BondMachine/pkg/simbox"
)

// C04 (simulator side): one producer (r2owa on o0) bonded to k consumers (i2rw
// on i0); programs, initial registers and hence all relative speeds are solver
// variables. A ghost monitor counts, per tick, the values the producer has got
// past an r2owa with (sent) and the values each consumer has got past an i2rw
// with (got), and asserts exactly-once, in-order delivery.
//
// mode 0: the property as stated. mode 1: the two situations recorded as known
// findings are assumed away, everything else must hold. The producer-side
// situation is pinned to its cause - an r2owa that starts on the tick right
// after the previous r2owa retired, before the consumers have lowered received -
// so that a received flag stuck high for any other reason is still reported.
// The consumer-side situation (i2rw executing while valid and this input's
// received flag are both still high) cannot be pinned in time: with fan-out 2 a
// slow sibling consumer keeps valid high arbitrarily long.
//
// delaymax > 0: every opcode gets a per-opcode delay distribution with a single
// delay, a solver variable in 0..delaymax (the simulator's model of instruction
// latency, SimDelayMap).

func zzC04(k int, nwords int, T int, mode int, delaymax int) {
	bm := new(Bondmachine)
	bm.Rsize = 8
	prod := zzPMachine(8, 1, 0, 1, 0, 2, "inc,j,nop,r2owa")
	zzSymbolicProgram(prod, "prog0", nwords)
	bm.Domains = append(bm.Domains, prod)
	cons := make([]*procbuilder.Machine, k)
	for c := 0; c < k; c++ {
		cons[c] = zzPMachine(8, 1, 1, 0, 0, 2, "cpy,i2rw,inc,j,nop")
		zzSymbolicProgram(cons[c], "prog"+strconv.Itoa(c+1), nwords)
		bm.Domains = append(bm.Domains, cons[c])
	}
	bm.Init()
	for d := 0; d <= k; d++ {
		bm.Add_processor(d)
	}
	for c := 0; c < k; c++ {
		bm.Add_bond([]string{"p" + strconv.Itoa(c+1) + "i0", "p0o0"})
	}
	vm := new(VM)
	vm.Bmach = bm
	if delaymax > 0 {
		sd := simbox.NewSimDelays()
		for _, op := range []string{"cpy", "i2rw", "inc", "j", "nop", "r2owa"} {
			d := zzNondetU8("delay-" + op)
			zzAssume(int(d) <= delaymax)
			sd.OpcodeDelays[op] = simbox.DelayDistribution{int32(d): 1}
		}
		vm.SimDelayMap = sd
	}
	vm.Init()
	vm.Launch_processors(nil)
	for p := range vm.Processors {
		for i := range vm.Processors[p].Registers {
			vm.Processors[p].Registers[i] = zzNondetU8("reg")
		}
	}
	r2owa := zzOpIdx(prod, "r2owa")
	i2rw := zzOpIdx(cons[0], "i2rw")
	var sent [16]uint8
	ns := 0
	var got [3][16]uint8
	var ng [3]int
	lastRetire := -100
	for t := 0; t < T; t++ {
		P := vm.Processors[0]
		prePc := P.Pc
		pid, _ := prod.Conproc.Decode_opcode(prod.Program.Slocs[prePc])
		var cpre [3]uint64
		var cid [3]int
		allRecv := true
		for c := 0; c < k; c++ {
			C := vm.Processors[c+1]
			cpre[c] = C.Pc
			cid[c], _ = cons[c].Conproc.Decode_opcode(cons[c].Program.Slocs[cpre[c]])
			if !C.InputsRecv[0] {
				allRecv = false
			}
		}
		if mode == 1 {
			// known finding (ii): an r2owa starts a new offer while received is still high from the previous transfer
			zzAssume(!(pid == r2owa && !P.OutputsValid[0] && allRecv && t-lastRetire <= 1))
			// known finding (i): an i2rw executes while its input's received flag is still high from the previous capture
			for c := 0; c < k; c++ {
				C := vm.Processors[c+1]
				zzAssume(!(cid[c] == i2rw && P.OutputsValid[0] && C.InputsRecv[0]))
			}
		}
		vm.Step(nil)
		if delaymax > 0 && t == T-1 {
			if P.DelayCounter > 0 {
				zzReach("producer-inside-a-delay")
			}
			if vm.Processors[1].DelayCounter > 0 {
				zzReach("consumer-inside-a-delay")
			}
		}
		if pid == r2owa && P.Pc != prePc {
			sent[ns] = P.Outputs[0].(uint8)
			ns++
			lastRetire = t
		}
		for c := 0; c < k; c++ {
			C := vm.Processors[c+1]
			if cid[c] == i2rw && C.Pc != cpre[c] {
				// the captured register is the one named by the instruction
				w := cons[c].Program.Slocs[cpre[c]]
				reg := 0
				if w[cons[c].Opcodes_bits()] == '1' {
					reg = 1
				}
				got[c][ng[c]] = C.Registers[reg].(uint8)
				ng[c]++
			}
		}
		for c := 0; c < k; c++ {
			zzAssert("no-loss", ns <= ng[c])        // the producer never passes an r2owa a consumer has not captured
			zzAssert("no-duplicate", ng[c] <= ns+1) // a consumer never captures one offer twice
			for i := 0; i < T; i++ {
				if i < ns && i < ng[c] {
					zzAssert("same-value-in-order", got[c][i] == sent[i])
				}
			}
		}
	}
	zzReach("end")
}

// zzC04FanIn: two producers (r2owa on o0) bonded to the two inputs of ONE consumer; all three programs, the
// registers and hence the relative speeds are solver variables. Per link the same exactly-once, in-order
// monitor. mode as in zzC04.
func zzC04FanIn(nwords int, T int, mode int) {
	bm := new(Bondmachine)
	bm.Rsize = 8
	prods := make([]*procbuilder.Machine, 2)
	for q := 0; q < 2; q++ {
		prods[q] = zzPMachine(8, 1, 0, 1, 0, 2, "inc,j,nop,r2owa")
		zzSymbolicProgram(prods[q], "prog"+strconv.Itoa(q), nwords)
		bm.Domains = append(bm.Domains, prods[q])
	}
	cons := zzPMachine(8, 1, 2, 0, 0, 2, "cpy,i2rw,inc,j,nop")
	zzSymbolicProgram(cons, "prog2", nwords)
	bm.Domains = append(bm.Domains, cons)
	bm.Init()
	for d := 0; d < 3; d++ {
		bm.Add_processor(d)
	}
	bm.Add_bond([]string{"p2i0", "p0o0"})
	bm.Add_bond([]string{"p2i1", "p1o0"})
	vm := new(VM)
	vm.Bmach = bm
	vm.Init()
	vm.Launch_processors(nil)
	for p := range vm.Processors {
		for i := range vm.Processors[p].Registers {
			vm.Processors[p].Registers[i] = zzNondetU8("reg")
		}
	}
	r2owa := zzOpIdx(prods[0], "r2owa")
	i2rw := zzOpIdx(cons, "i2rw")
	ob := cons.Opcodes_bits()
	var sent [2][16]uint8
	var got [2][16]uint8
	var ns, ng [2]int
	lastRetire := [2]int{-100, -100}
	C := vm.Processors[2]
	for t := 0; t < T; t++ {
		var prePc [2]uint64
		var pid [2]int
		for q := 0; q < 2; q++ {
			prePc[q] = vm.Processors[q].Pc
			pid[q], _ = prods[q].Conproc.Decode_opcode(prods[q].Program.Slocs[prePc[q]])
		}
		cpre := C.Pc
		w := cons.Program.Slocs[cpre]
		cid, _ := cons.Conproc.Decode_opcode(w)
		reg, inp := 0, 0
		if w[ob] == '1' {
			reg = 1
		}
		if w[ob+1] == '1' {
			inp = 1
		}
		if mode == 1 {
			for q := 0; q < 2; q++ {
				P := vm.Processors[q]
				zzAssume(!(pid[q] == r2owa && !P.OutputsValid[0] && C.InputsRecv[q] && t-lastRetire[q] <= 1))
				zzAssume(!(cid == i2rw && inp == q && P.OutputsValid[0] && C.InputsRecv[q]))
			}
		}
		vm.Step(nil)
		for q := 0; q < 2; q++ {
			P := vm.Processors[q]
			if pid[q] == r2owa && P.Pc != prePc[q] {
				sent[q][ns[q]] = P.Outputs[0].(uint8)
				ns[q]++
				lastRetire[q] = t
			}
		}
		if cid == i2rw && C.Pc != cpre {
			got[inp][ng[inp]] = C.Registers[reg].(uint8)
			ng[inp]++
		}
		for q := 0; q < 2; q++ {
			zzAssert("no-loss", ns[q] <= ng[q])
			zzAssert("no-duplicate", ng[q] <= ns[q]+1)
			for i := 0; i < T; i++ {
				if i < ns[q] && i < ng[q] {
					zzAssert("same-value-in-order", got[q][i] == sent[q][i])
				}
			}
		}
	}
	zzReach("end")
}

// zzC04Port: port selection of the handshaked opcodes. A producer with pn inputs and pm outputs runs
// "r2owa r0 o<j>; j 0", a consumer with cn inputs runs "i2rw r1 i<e>; j 0", bonded p1i<e> <- p0o<j>; the value
// (a solver variable) arrives within 8 ticks and is the one sent.
func zzC04Port(pn int, pm int, j int, cn int, e int) {
	bm := new(Bondmachine)
	bm.Rsize = 8
	prod := zzPMachine(8, 1, pn, pm, 0, 2, "i2rw,j,nop,r2owa")
	cons := zzPMachine(8, 1, cn, 1, 0, 2, "i2rw,j,nop,r2owa")
	asm := func(m *procbuilder.Machine, lines ...string) {
		m.Program.Slocs = nil
		for len(lines) < 4 {
			lines = append(lines, "j 0")
		}
		for _, l := range lines {
			w, err := m.Arch.Assembler_process_line([]byte(l))
			if err != nil || len(w) != m.Max_word() {
				zzUnsupported("cannot assemble " + l)
			}
			m.Program.Slocs = append(m.Program.Slocs, w)
		}
	}
	asm(prod, "r2owa r0 o"+strconv.Itoa(j), "j 0")
	asm(cons, "i2rw r1 i"+strconv.Itoa(e), "j 0")
	bm.Domains = append(bm.Domains, prod, cons)
	bm.Init()
	bm.Add_processor(0)
	bm.Add_processor(1)
	bm.Add_bond([]string{"p1i" + strconv.Itoa(e), "p0o" + strconv.Itoa(j)})
	vm := new(VM)
	vm.Bmach = bm
	vm.Init()
	vm.Launch_processors(nil)
	v := zzNondetU8("value")
	vm.Processors[0].Registers[0] = v
	vm.Processors[1].Registers[1] = zzNondetU8("old")
	got := false
	for t := 0; t < 8; t++ {
		pre := vm.Processors[1].Pc
		vm.Step(nil)
		if pre == 0 && vm.Processors[1].Pc == 1 && !got {
			got = true
			zzAssert("the-value-sent-is-the-value-received", vm.Processors[1].Registers[1].(uint8) == v)
		}
	}
	zzAssert("delivered-within-8-ticks", got)
	zzReach("end")
}

func zzDispatch(name string, args []string) {
	atoi := func(s string) int { v, _ := strconv.Atoi(s); return v }
	switch name {
	case "zzC04Port":
		zzC04Port(atoi(args[0]), atoi(args[1]), atoi(args[2]), atoi(args[3]), atoi(args[4]))
	case "zzC04FanIn":
		zzC04FanIn(atoi(args[0]), atoi(args[1]), atoi(args[2]))
	case "zzC04":
		zzC04(atoi(args[0]), atoi(args[1]), atoi(args[2]), atoi(args[3]), atoi(args[4]))
	}
}
