package bondmachine

import (
	"strconv"
	"strings"

	"github.com/BondMachineHQ/BondMachine/pkg/procbuilder"
)

// C02(a), simulator side: the data-movement phases of VM.Step implement exactly
// the bond graph: every bonded consumer sees its producer's data and valid,
// every producer's received is the conjunction of the received flags of exactly
// the inputs bonded to it. Port values are solver variables; the processors run
// "j 0" so that the compute phase leaves the ports alone.
//
// spec: "rsize;N:M,N:M,...;I,O,P0,P1,...;in>out,in>out,..." (same text the native helper takes)

func zzC02Build(spec string) (*Bondmachine, []string) {
	parts := strings.Split(spec, ";")
	bm := new(Bondmachine)
	rs, _ := strconv.Atoi(parts[0])
	bm.Rsize = uint8(rs)
	for _, d := range strings.Split(parts[1], ",") {
		if d == "" {
			continue
		}
		nm := strings.Split(d, ":")
		n, _ := strconv.Atoi(nm[0])
		m, _ := strconv.Atoi(nm[1])
		mach := zzPMachine(rs, 1, n, m, 0, 1, "j,nop")
		mach.Program.Slocs = make([]string, 2)
		for i := range mach.Program.Slocs {
			line, err := mach.Arch.Assembler_process_line([]byte("j 0"))
			if err != nil || len(line) != mach.Max_word() {
				zzUnsupported("cannot assemble 'j 0'")
			}
			mach.Program.Slocs[i] = line
		}
		bm.Domains = append(bm.Domains, mach)
	}
	bm.Init()
	for _, h := range strings.Split(parts[2], ",") {
		switch {
		case h == "I":
			bm.Add_input()
		case h == "O":
			bm.Add_output()
		case strings.HasPrefix(h, "P"):
			d, _ := strconv.Atoi(h[1:])
			bm.Add_processor(d)
		}
	}
	var bonds []string
	if len(parts) > 3 && parts[3] != "" {
		bonds = strings.Split(parts[3], ",")
		for _, b := range bonds {
			e := strings.Split(b, ">")
			bm.Add_bond([]string{e[0], e[1]})
		}
	}
	return bm, bonds
}

type zzPort struct {
	data  uint8
	valid bool
}

func zzC02Wiring(spec string) {
	bm, bonds := zzC02Build(spec)
	vm := new(VM)
	vm.Bmach = bm
	vm.Init()
	vm.Launch_processors(nil)
	// symbolic port values
	for _, P := range vm.Processors {
		for f := range P.Outputs {
			P.Outputs[f] = zzNondetU8("pout")
			P.OutputsValid[f] = zzNondetBool("poutv")
		}
		for e := range P.InputsRecv {
			P.InputsRecv[e] = zzNondetBool("pinr")
		}
	}
	for k := range vm.Inputs_regs {
		vm.Inputs_regs[k] = zzNondetU8("bmin")
		vm.InputsValid[k] = zzNondetBool("bminv")
	}
	for k := range vm.OutputsRecv {
		vm.OutputsRecv[k] = zzNondetBool("bmoutr")
	}
	// the ports as the producers drive them
	outPort := func(name string) zzPort {
		if name[0] == 'i' {
			k, _ := strconv.Atoi(name[1:])
			return zzPort{vm.Inputs_regs[k].(uint8), vm.InputsValid[k]}
		}
		q, f := zzSplitCP(name, 'o')
		return zzPort{vm.Processors[q].Outputs[f].(uint8), vm.Processors[q].OutputsValid[f]}
	}
	inRecv := func(name string) bool {
		if name[0] == 'o' {
			k, _ := strconv.Atoi(name[1:])
			return vm.OutputsRecv[k]
		}
		p, e := zzSplitCP(name, 'i')
		return vm.Processors[p].InputsRecv[e]
	}
	var want []zzPort
	for _, b := range bonds {
		e := strings.Split(b, ">")
		want = append(want, outPort(e[1]))
	}
	wantRecv := map[string]bool{}
	hasCons := map[string]bool{}
	for _, b := range bonds {
		e := strings.Split(b, ">")
		r := inRecv(e[0])
		if hasCons[e[1]] {
			wantRecv[e[1]] = wantRecv[e[1]] && r
		} else {
			wantRecv[e[1]] = r
			hasCons[e[1]] = true
		}
	}
	vm.Step(nil)
	vm.Step(nil)
	for i, b := range bonds {
		e := strings.Split(b, ">")
		if e[0][0] == 'o' {
			k, _ := strconv.Atoi(e[0][1:])
			zzAssert("bm-output-data", vm.Outputs_regs[k].(uint8) == want[i].data)
			zzAssert("bm-output-valid", vm.OutputsValid[k] == want[i].valid)
		} else {
			p, x := zzSplitCP(e[0], 'i')
			zzAssert("cp-input-data", vm.Processors[p].Inputs[x].(uint8) == want[i].data)
			zzAssert("cp-input-valid", vm.Processors[p].InputsValid[x] == want[i].valid)
		}
	}
	// received of every output endpoint
	for j, ob := range bm.Internal_outputs {
		name := ob.String()
		var got bool
		if ob.Map_to == BMINPUT {
			got = vm.InputsRecv[ob.Res_id]
		} else {
			got = vm.Processors[ob.Res_id].OutputsRecv[ob.Ext_id]
		}
		_ = j
		if hasCons[name] {
			zzAssert("received-is-conjunction-of-consumers", got == wantRecv[name])
		} else {
			zzAssert("received-false-without-consumer", !got)
		}
	}
	zzReach("end")
}

func zzSplitCP(name string, sep byte) (int, int) {
	// "p<q>o<f>" or "p<p>i<e>"
	i := strings.IndexByte(name[1:], sep) + 1
	a, _ := strconv.Atoi(name[1:i])
	b, _ := strconv.Atoi(name[i+1:])
	return a, b
}

var _ = procbuilder.Allopcodes

func zzDispatch(name string, args []string) {
	switch name {
	case "zzC02Wiring":
		zzC02Wiring(args[0])
	case "zzC02Stream":
		atoi := func(s string) int { v, _ := strconv.Atoi(s); return v }
		zzC02Stream(atoi(args[0]), args[1], args[2], args[3], args[4], atoi(args[5]))
	}
}
