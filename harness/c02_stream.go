package bondmachine

import "strconv"

// C02(b), simulator side: a machine emitted by the real basm front-end (run
// natively, described by the arguments) is simulated for T ticks from reset with
// the external inputs as solver variables (constant, always valid); the external
// outputs after every tick and the registers at the horizon are exported. The
// driver unrolls the Verilog the real generators write for the SAME machine over
// the same variables and compares.

func zzC02Stream(rsize int, cps string, ins string, outs string, links string, T int) {
	bm, nin, nout := zzEmittedBM(rsize, cps, ins, outs, links)
	vm := new(VM)
	vm.Bmach = bm
	vm.Init()
	vm.Launch_processors(nil)
	mask := uint64(1)<<uint(rsize) - 1
	inputs := make([]uint64, nin)
	for k := range inputs {
		inputs[k] = zzNondetU64("input") & mask
	}
	for t := 0; t < T; t++ {
		for k := range inputs {
			vm.Inputs_regs[k] = zzWordOf(rsize, inputs[k])
			vm.InputsValid[k] = true
		}
		for k := range vm.OutputsRecv {
			vm.OutputsRecv[k] = vm.OutputsValid[k]
		}
		vm.Step(nil)
		for k := 0; k < nout; k++ {
			zzExport("out"+strconv.Itoa(t)+"_"+strconv.Itoa(k), zzU64(vm.Outputs_regs[k]))
		}
		zzExport("pc"+strconv.Itoa(t), vm.Processors[0].Pc)
	}
	for i, r := range vm.Processors[0].Registers {
		zzExport("reg"+strconv.Itoa(i), zzU64(r))
	}
	zzReach("end")
}
