package main

import (
	"fmt"
	"os"
	"time"

	"verif/smt"
	"verif/symgo"
)

const harness = `package procbuilder

func zzT1() {
	x := zzNondetU8("x")
	y := zzNondetU8("y")
	s := zzNondetBits("w", 4)
	id := get_id(s)
	zzAssert("idrange", id < 16)
	zzAssert("idrange-bad", id < 15)
	n := Needed_bits(int(x))
	zzAssume(x > 0)
	zzAssert("adequate", 1<<uint(n) >= int(x))
	zzAssert("sum", x+y == y+x)
	zzReach("end")
}

func zzT2() {
	m := new(Machine)
	m.Rsize = 8
	m.R = 2
	m.O = 3
	m.Modes = []string{"ha"}
	m.Op = []Opcode{Add{}, Inc{}, J{}, Rset{}}
	for _, op := range m.Op {
		_ = op.Op_get_name()
	}
	a := zzNondetU8("a")
	zzAssume(a < 6)
	w, err := Add{}.Assembler(&m.Arch, []string{"r" + string(rune('0'+a)), "r1"})
	if err == nil {
		zzAssert("len", len(w) == m.Max_word()-m.Opcodes_bits())
		zzAssert("a<4", a < 4)
		d, _ := Add{}.Disassembler(&m.Arch, w)
		zzExport("dis", d)
		zzReach("ok")
	} else {
		zzAssert("a>=4", a >= 4)
		zzReach("err")
	}
}
` + symgo.Prelude

func main() {
	t0 := time.Now()
	p, err := symgo.Load("/repo", []string{"pkg/procbuilder"}, map[string][]byte{"/repo/pkg/procbuilder/zz_verif_harness.go": []byte(harness)})
	if err != nil {
		fmt.Println(err)
		os.Exit(2)
	}
	fmt.Println("loaded in", time.Since(t0))
	for _, name := range os.Args[1:] {
		st := smt.NewStore()
		sol, _ := smt.NewSolver("z3", st, 20000)
		in := symgo.NewInterp(p, st, sol)
		in.Trace = os.Getenv("TRACE") != ""
		t1 := time.Now()
		err = in.RunHarness(p.Func("pkg/procbuilder", name), nil, "pkg/procbuilder")
		fmt.Println(name, "ran in", time.Since(t1), "err:", err, "instrs", in.Stats.Instrs, "forks", in.Stats.Forks, "feas", in.Stats.FeasQueries)
		for _, v := range in.Discharge() {
			fmt.Printf("  %-8s %-14s %-12s %v %s\n", v.Obl.Kind, v.Obl.Tag, v.Result, v.Model, v.Obl.Pos)
		}
		fmt.Println("  stubs:", in.Stats.Stubs, "lastkill:", in.LastKill)
		fmt.Println("  solver errors:", sol.Errors)
		sol.Close()
	}
}
