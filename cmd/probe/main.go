// probe runs one harness function from a file under /verif/harness (debugging aid):
//
//	probe <pkg> <harness-file[,extra...]> <func> [args...]
package main

import (
	"fmt"
	"os"
	"strconv"
	"strings"

	"verif/checks"
	"verif/symgo"
)

func main() {
	if len(os.Args) < 4 {
		fmt.Println("usage: probe <pkg> <file[,extra]> <func> [args]")
		os.Exit(2)
	}
	files := strings.Split(os.Args[2], ",")
	h := checks.Harness{File: files[0], Extra: files[1:], Pkg: os.Args[1]}
	p := checks.LoadProgram([]string{os.Args[1]}, h)
	var args []checks.Arg
	for _, a := range os.Args[4:] {
		if strings.HasPrefix(a, "s:") {
			args = append(args, checks.S(a[2:]))
		} else if v, err := strconv.Atoi(a); err == nil {
			args = append(args, checks.I(v))
		} else {
			args = append(args, checks.S(a))
		}
	}
	inits := []string{os.Args[1]}
	if e := os.Getenv("PROBE_INITS"); e != "" {
		inits = strings.Split(e, ",")
	}
	cfg := checks.Config{Name: "probe", Func: os.Args[3], Args: args}
	opts := checks.RunOpts{Pkg: os.Args[1], Inits: inits, PanicObl: os.Getenv("PROBE_NOPANIC") == "", Workers: 1}
	if os.Getenv("PROBE_RACE") != "" {
		// happens-before race obligations (symgo/race.go)
		cfg.Setup = func(in *symgo.Interp) { in.RaceDetect = true }
		opts.Post = func(o *checks.Outcome, in *symgo.Interp) {
			c, n := in.RaceObligations()
			fmt.Println("race: cells shared between goroutines", c, "unordered conflicting segment pairs", n)
		}
	}
	outs := checks.RunFamily(p, []checks.Config{cfg}, opts)
	o := outs[0]
	fmt.Println("err:", o.Err, "instrs", o.Instrs, "forks", o.Forks, "queries", o.Queries, "solver_s", o.SolverS)
	for _, ob := range o.Obls {
		fmt.Printf("  %-7s %-28s %-12s %s %v\n", ob.Kind, ob.Tag, ob.Result, ob.Pos, ob.Model)
	}
}
