// bmnative links against /repo (replace directive in /verif/go.mod) and runs
// the real generators natively. It is rebuilt by every check that needs it, so
// it always reflects /repo's current working tree.
//
//	bmnative stack <LIFO|FIFO> <depth> <senders> <receivers> <datasize>
//	bmnative proc <rsize> <r> <n> <m> <l> <o> <ops,comma> [hwopt=<flags>] [prog=<asm with ; as newline>]
//	bmnative bm <spec>     (see bmSpec)
package main

import (
	"fmt"
	"go/ast"
	"go/parser"
	"go/token"
	"os"
	"sort"
	"strconv"
	"strings"
	"time"

	"github.com/BondMachineHQ/BondMachine/pkg/basm"
	"github.com/BondMachineHQ/BondMachine/pkg/bmconfig"
	"github.com/BondMachineHQ/BondMachine/pkg/bminfo"
	"github.com/BondMachineHQ/BondMachine/pkg/bmreqs"
	"github.com/BondMachineHQ/BondMachine/pkg/bmstack"
	"github.com/BondMachineHQ/BondMachine/pkg/bondgo"
	"github.com/BondMachineHQ/BondMachine/pkg/bondmachine"
	"github.com/BondMachineHQ/BondMachine/pkg/procbuilder"
)

func atoi(s string) int {
	v, err := strconv.Atoi(s)
	if err != nil {
		fmt.Fprintln(os.Stderr, "bad integer", s)
		os.Exit(2)
	}
	return v
}

func mkMachine(rsize, r, n, m, l, o int, ops string) *procbuilder.Machine {
	mach := new(procbuilder.Machine)
	mach.Rsize, mach.R, mach.N, mach.M, mach.L, mach.O = uint8(rsize), uint8(r), uint8(n), uint8(m), uint8(l), uint8(o)
	mach.Modes = []string{"ha"}
	list := make([]procbuilder.Opcode, 0)
	for _, name := range strings.Split(ops, ",") {
		if name == "" {
			continue
		}
		procbuilder.EventuallyCreateInstruction(name)
		found := false
		for _, op := range procbuilder.Allopcodes {
			if op.Op_get_name() == name {
				list = append(list, op)
				found = true
				break
			}
		}
		if !found {
			fmt.Fprintln(os.Stderr, "unknown opcode", name)
			os.Exit(2)
		}
	}
	sort.Sort(procbuilder.ByName(list))
	mach.Op = list
	return mach
}

func section(name, body string) {
	fmt.Printf("//@@FILE %s\n%s\n", name, body)
}

func main() {
	if len(os.Args) < 2 {
		os.Exit(2)
	}
	// generators write side files (e.g. thread stacks) into the cwd: the caller runs us in a scratch directory
	switch os.Args[1] {
	case "stack":
		s := bmstack.CreateBasicStack()
		s.MemType = os.Args[2]
		s.Depth = atoi(os.Args[3])
		s.DataSize = atoi(os.Args[6])
		for i := 0; i < atoi(os.Args[4]); i++ {
			s.Senders = append(s.Senders, "s"+strconv.Itoa(i))
		}
		for i := 0; i < atoi(os.Args[5]); i++ {
			s.Receivers = append(s.Receivers, "r"+strconv.Itoa(i))
		}
		s.ModuleName = "dut"
		txt, err := s.WriteHDL()
		if err != nil {
			fmt.Fprintln(os.Stderr, err)
			os.Exit(1)
		}
		fmt.Print(txt)
	case "proc":
		a := os.Args[2:]
		mach := mkMachine(atoi(a[0]), atoi(a[1]), atoi(a[2]), atoi(a[3]), atoi(a[4]), atoi(a[5]), a[6])
		conf := new(procbuilder.Config)
		ri := new(procbuilder.RuntimeInfo)
		ri.Init()
		conf.Runinfo = ri
		for _, x := range a[7:] {
			if strings.HasPrefix(x, "hwopt=") {
				// hwopt=<opcode>:<reg>+<reg>;<opcode>:... : the destination registers a program uses per opcode,
				// recorded the way the front-end does, with the onlydestregs optimisation switched on
				mach.Arch.Tag = "0"
				rg := bmreqs.NewReqRoot()
				rg.Requirement(bmreqs.ReqRequest{Node: "/", T: bmreqs.ObjectSet, Name: "bm", Value: "cps", Op: bmreqs.OpAdd})
				rg.Requirement(bmreqs.ReqRequest{Node: "/bm:cps", T: bmreqs.ObjectSet, Name: "id", Value: "0", Op: bmreqs.OpAdd})
				node := "/bm:cps/id:0"
				for _, ent := range strings.Split(strings.TrimPrefix(x, "hwopt="), ";") {
					if ent == "" {
						continue
					}
					p := strings.SplitN(ent, ":", 2)
					rg.Requirement(bmreqs.ReqRequest{Node: node, T: bmreqs.ObjectSet, Name: "opcodes", Value: p[0], Op: bmreqs.OpAdd})
					for _, r := range strings.Split(p[1], "+") {
						if r != "" {
							rg.Requirement(bmreqs.ReqRequest{Node: node + "/opcodes:" + p[0], T: bmreqs.ObjectSet, Name: "destregs", Value: r, Op: bmreqs.OpAdd})
						}
					}
				}
				conf.ReqRoot = rg
				conf.HwOptimizations = procbuilder.SetHwOptimization(conf.HwOptimizations, procbuilder.HwOptimizations(procbuilder.OnlyDestRegs))
			}
			if strings.HasPrefix(x, "prog=") {
				src := strings.ReplaceAll(strings.TrimPrefix(x, "prog="), ";", "\n") + "\n"
				prog, err := mach.Arch.Assembler([]byte(src))
				if err != nil {
					fmt.Fprintln(os.Stderr, "assembler:", err)
					os.Exit(1)
				}
				mach.Program = prog
			}
		}
		section("proc", mach.Conproc.Write_verilog(conf, &mach.Arch, "p0", "iverilog"))
		section("rom", mach.Rom.Write_verilog(mach, "p0rom", "iverilog"))
		if mach.L > 0 {
			section("ram", mach.Ram.Write_verilog(conf, mach, "p0ram", "iverilog"))
		}
		section("arch", mach.Arch.Write_verilog("a0", map[string]string{"processor": "p0", "rom": "p0rom", "ram": "p0ram"}, "iverilog"))
		fmt.Printf("//@@INFO maxword=%d opbits=%d ops=", mach.Max_word(), mach.Opcodes_bits())
		for i, op := range mach.Op {
			if i > 0 {
				fmt.Print(",")
			}
			fmt.Print(op.Op_get_name())
		}
		fmt.Println()
	case "bm":
		bm := bmSpec(os.Args[2])
		conf := new(bondmachine.Config)
		section("main", bm.Write_verilog_main(conf, "bondmachine", "iverilog"))
		// the architecture module of every processor (used as a black box: only its port list matters)
		for i, d := range bm.Processors {
			n := strconv.Itoa(i)
			section("arch"+n, bm.Domains[d].Arch.Write_verilog("a"+n, map[string]string{"processor": "p" + n, "rom": "p" + n + "rom", "ram": "p" + n + "ram"}, "iverilog"))
		}
		fmt.Printf("//@@INFO links=")
		for i, l := range bm.Links {
			if i > 0 {
				fmt.Print(",")
			}
			fmt.Print(l)
		}
		fmt.Println()
	case "basm":
		// basm <source file> : run the real assembler front-end and describe the emitted machine
		src, err := os.ReadFile(os.Args[2])
		if err != nil {
			fmt.Fprintln(os.Stderr, err)
			os.Exit(2)
		}
		bi := new(basm.BasmInstance)
		bi.BMinfo = new(bminfo.BMinfo)
		bi.BasmInstanceInit(nil)
		bi.Activate(bmconfig.ChooserMinWordSize)
		bi.Activate(bmconfig.ChooserForceSameName)
		if err := bi.ParseAssemblyStringDefault(string(src)); err != nil {
			fmt.Println("BASM-ERROR parse:", err)
			return
		}
		if err := bi.RunAssembler(); err != nil {
			fmt.Println("BASM-ERROR assemble:", err)
			return
		}
		if err := bi.Assembler2BondMachine(); err != nil {
			fmt.Println("BASM-ERROR emit:", err)
			return
		}
		bm := bi.GetBondMachine()
		fmt.Print(describeBM(bm, bi.CPNames))
	case "bondgo":
		// bondgo <source.go> <rsize> : run the real Go-subset compiler the way cmd/bondgo does (multi-processor mode)
		// and describe the emitted machine; a watchdog reports a compiler that does not finish
		rsize := atoi(os.Args[3])
		done := make(chan string, 1)
		go func() { done <- runBondgo(os.Args[2], rsize) }()
		select {
		case out := <-done:
			fmt.Print(out)
		case <-time.After(60 * time.Second):
			fmt.Println("BONDGO-TIMEOUT the compiler did not finish within 60 s")
		}
	case "basmhdl":
		// basmhdl <source file> : the machine the real assembler emits, described (as //@@DESC comment lines) and
		// with every Verilog module the real generators write for it
		src, err := os.ReadFile(os.Args[2])
		if err != nil {
			fmt.Fprintln(os.Stderr, err)
			os.Exit(2)
		}
		bi := new(basm.BasmInstance)
		bi.BMinfo = new(bminfo.BMinfo)
		bi.BasmInstanceInit(nil)
		bi.Activate(bmconfig.ChooserMinWordSize)
		bi.Activate(bmconfig.ChooserForceSameName)
		if err := bi.ParseAssemblyStringDefault(string(src)); err != nil {
			fmt.Println("BASM-ERROR parse:", err)
			return
		}
		if err := bi.RunAssembler(); err != nil {
			fmt.Println("BASM-ERROR assemble:", err)
			return
		}
		if err := bi.Assembler2BondMachine(); err != nil {
			fmt.Println("BASM-ERROR emit:", err)
			return
		}
		bm := bi.GetBondMachine()
		for _, l := range strings.Split(strings.TrimSpace(describeBM(bm, bi.CPNames)), "\n") {
			fmt.Println("//@@DESC " + l)
		}
		if len(os.Args) > 3 && os.Args[3] == "onlydestregs" {
			// the way the tools do it: basm exports its requirement tree, bondmachine imports it and generates the
			// processors for the destination registers the program uses
			reqs := bi.DumpRequirements()
			rg, err := bmreqs.Import(&reqs)
			if err != nil {
				fmt.Println("BASM-ERROR requirements:", err)
				return
			}
			hwReqRoot = rg
		}
		writeModules(bm)
	case "bmfull":
		// bmfull "<rsize>;<N>:<M>:<R>:<O>:<op+op+...>,...;I,O,P0,...;bonds" : every module of the machine
		parts := strings.Split(os.Args[2], ";")
		bm := new(bondmachine.Bondmachine)
		bm.Rsize = uint8(atoi(parts[0]))
		for _, d := range strings.Split(parts[1], ",") {
			f := strings.Split(d, ":")
			bm.Domains = append(bm.Domains, mkMachine(int(bm.Rsize), atoi(f[2]), atoi(f[0]), atoi(f[1]), 0, atoi(f[3]), strings.ReplaceAll(f[4], "+", ",")))
		}
		bm.Init()
		for _, h := range strings.Split(parts[2], ",") {
			switch {
			case h == "I":
				bm.Add_input()
			case h == "O":
				bm.Add_output()
			case strings.HasPrefix(h, "P"):
				bm.Add_processor(atoi(h[1:]))
			}
		}
		if len(parts) > 3 {
			for _, b := range strings.Split(parts[3], ",") {
				if b != "" {
					e := strings.Split(b, ">")
					bm.Add_bond([]string{e[0], e[1]})
				}
			}
		}
		writeModules(bm)
	default:
		os.Exit(2)
	}
}

// bmSpec: "rsize;dom:N:M,dom:N:M;ops as history I,O,P0,P1;bonds in>out,..." e.g.
// "8;1:1,2:1;I,O,P0,P1;p0i0>i0,o0>p0o0"
func bmSpec(spec string) *bondmachine.Bondmachine {
	parts := strings.Split(spec, ";")
	bm := new(bondmachine.Bondmachine)
	bm.Rsize = uint8(atoi(parts[0]))
	for _, d := range strings.Split(parts[1], ",") {
		if d == "" {
			continue
		}
		nm := strings.Split(d, ":")
		ops := "nop"
		if atoi(nm[0]) > 0 {
			ops += ",i2rw"
		}
		if atoi(nm[1]) > 0 {
			ops += ",r2owa"
		}
		bm.Domains = append(bm.Domains, mkMachine(int(bm.Rsize), 1, atoi(nm[0]), atoi(nm[1]), 0, 2, ops))
	}
	bm.Init()
	for _, h := range strings.Split(parts[2], ",") {
		switch {
		case h == "I":
			bm.Add_input()
		case h == "O":
			bm.Add_output()
		case strings.HasPrefix(h, "P"):
			bm.Add_processor(atoi(h[1:]))
		}
	}
	if len(parts) > 3 {
		for _, b := range strings.Split(parts[3], ",") {
			if b == "" {
				continue
			}
			e := strings.Split(b, ">")
			bm.Add_bond([]string{e[0], e[1]})
		}
	}
	return bm
}

func runBondgo(file string, rsize int) string {
	var sb strings.Builder
	config := new(bondgo.BondgoConfig)
	config.Mpm = true
	config.Rsize = uint8(rsize)
	config.Basic_type = "uint" + strconv.Itoa(rsize)
	config.Basic_chantype = "chan uint" + strconv.Itoa(rsize)
	fset := token.NewFileSet()
	f, err := parser.ParseFile(fset, file, nil, 0)
	if err != nil {
		return "BONDGO-ERROR parse: " + err.Error() + "\n"
	}
	usagedone := make(chan bool)
	assignerdone := make(chan bool)
	results := new(bondgo.BondgoResults)
	results.Init_Results(config)
	messages := new(bondgo.BondgoMessages)
	messages.Init_Messages(config)
	reqmnts := new(bondgo.BondgoRequirements)
	reqmnts.Init_Requirements(config)
	usagenotify := make(chan bondgo.UsageNotify)
	go reqmnts.Usage_Monitor(usagenotify, usagedone)
	run := new(bondgo.BondgoRuninfo)
	run.Init_Runinfo(config)
	varreq := make(chan bondgo.VarReq)
	varans := make(chan bondgo.VarAns)
	go run.Var_assigner(varreq, varans, usagenotify, assignerdone)
	functs := new(bondgo.BondgoFunctions)
	functs.Init_Functions(config, messages)
	vars := make(map[string]bondgo.VarCell)
	returns := make([]bondgo.VarCell, 0)
	bgmain := &bondgo.BondgoCheck{results, config, reqmnts, run, messages, functs, usagenotify, varreq, varans, nil, nil, vars, returns, "", "", "device_0", 0}
	bgmain.Used <- bondgo.UsageNotify{bondgo.TR_PROC, 0, bondgo.C_DEVICE, bgmain.CurrentDevice, bondgo.I_NIL}
	ast.Walk(functs, f)
	if !bgmain.Is_faulty() {
		executable := false
		for ifuncname, ifunc := range functs.Functions {
			if ifuncname == "main" {
				ast.Walk(bgmain, ifunc.Body)
				executable = true
				break
			}
		}
		if !executable {
			bgmain.Set_faulty("main function not found.")
		}
		for procid, rout := range bgmain.Program {
			bgmain.Used <- bondgo.UsageNotify{bondgo.TR_PROC, procid, bondgo.C_ROMSIZE, bondgo.S_NIL, len(rout.Lines)}
		}
		// barrier: Var_assigner answers a request BEFORE it notifies the usage monitor, so the notification of the
		// last allocation can still be pending here; cmd/bondgo then sends TR_EXIT, the monitor may take that first
		// and exit, and assigner and main block forever (the shutdown race named by property C12, met natively
		// while building this driver). A no-op request/answer round trip makes the assigner deliver it first.
		gent, _ := bondgo.Type_from_string(bgmain.Basic_type)
		bgmain.Reqs <- bondgo.VarReq{bondgo.REQ_REMOVE, 0, bondgo.VarCell{gent, bondgo.INPUT, 0, 0, 0, 0, 0, 0}}
		<-bgmain.Answers
		bgmain.Used <- bondgo.UsageNotify{bondgo.TR_EXIT, 0, 0, bondgo.S_NIL, bondgo.I_NIL}
		<-usagedone
		bgmain.Reqs <- bondgo.VarReq{bondgo.REQ_EXIT, 0, bondgo.VarCell{gent, 0, 0, 0, 0, 0, 0, 0}}
		<-assignerdone
	}
	if bgmain.Is_faulty() {
		return "BONDGO-ERROR compile: " + strings.ReplaceAll(bgmain.Dump_log(), "\n", " | ") + "\n"
	}
	for i := range bgmain.Program {
		sb.WriteString("ASM " + strconv.Itoa(i) + " " + strings.ReplaceAll(strings.TrimSpace(bgmain.Write_assembly(i)), "\n", " ; ") + "\n")
	}
	bm, _, err := bgmain.Create_Bondmachine(rsize, "device_0")
	if err != nil {
		return sb.String() + "BONDGO-ERROR machine: " + err.Error() + "\n"
	}
	sb.WriteString(describeBM(bm, nil))
	return sb.String()
}

func describeBM(bm *bondmachine.Bondmachine, names map[int]string) string {
	var sb strings.Builder
	fmt.Fprintf(&sb, "BM rsize=%d inputs=%d outputs=%d processors=%d\n", bm.Rsize, bm.Inputs, bm.Outputs, len(bm.Processors))
	fmt.Fprintf(&sb, "LINKS %v\n", bm.Links)
	var ii, oo []string
	for _, b := range bm.Internal_inputs {
		ii = append(ii, b.String())
	}
	for _, b := range bm.Internal_outputs {
		oo = append(oo, b.String())
	}
	fmt.Fprintf(&sb, "IN %s\nOUT %s\n", strings.Join(ii, ","), strings.Join(oo, ","))
	for i, d := range bm.Processors {
		m := bm.Domains[d]
		var ops []string
		for _, op := range m.Op {
			ops = append(ops, op.Op_get_name())
		}
		fmt.Fprintf(&sb, "CP %d rsize=%d R=%d N=%d M=%d L=%d O=%d wordsize=%d maxword=%d opbits=%d ops=%s rom=%s name=%s data=%d mode=%s vars=%s\n", i, m.Rsize, m.R, m.N, m.M, m.L, m.O, m.WordSize, m.Max_word(), m.Opcodes_bits(),
			strings.Join(ops, ","), strings.Join(m.Program.Slocs, ","), names[i], len(m.Data.Vars), strings.Join(m.Modes, "+"), strings.Join(m.Data.Vars, ","))
	}
	return sb.String()
}

// hwReqRoot: when set, processors are generated with the onlydestregs optimisation from this requirement tree
var hwReqRoot *bmreqs.ReqRoot

// writeModules prints every module of a machine: top level, and per processor the processor, its ROM and its arch wrapper
func writeModules(bm *bondmachine.Bondmachine) {
	conf := new(bondmachine.Config)
	pconf := new(procbuilder.Config)
	ri := new(procbuilder.RuntimeInfo)
	ri.Init()
	pconf.Runinfo = ri
	if hwReqRoot != nil {
		pconf.ReqRoot = hwReqRoot
		pconf.HwOptimizations = procbuilder.SetHwOptimization(pconf.HwOptimizations, procbuilder.HwOptimizations(procbuilder.OnlyDestRegs))
	}
	section("main", bm.Write_verilog_main(conf, "bondmachine", "iverilog"))
	for i, d := range bm.Processors {
		n := strconv.Itoa(i)
		mach := bm.Domains[d]
		mach.Arch.Tag = n // the requirement tree is indexed by the processor id
		section("proc"+n, mach.Conproc.Write_verilog(pconf, &mach.Arch, "p"+n, "iverilog"))
		section("rom"+n, mach.Rom.Write_verilog(mach, "p"+n+"rom", "iverilog"))
		section("arch"+n, mach.Arch.Write_verilog("a"+n, map[string]string{"processor": "p" + n, "rom": "p" + n + "rom", "ram": "p" + n + "ram"}, "iverilog"))
		fmt.Printf("//@@INFO p%s.maxword=%d p%s.opbits=%d p%s.ops=", n, mach.Max_word(), n, mach.Opcodes_bits(), n)
		for k, op := range mach.Op {
			if k > 0 {
				fmt.Print("+")
			}
			fmt.Print(op.Op_get_name())
		}
		fmt.Println()
	}
}
