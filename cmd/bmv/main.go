// bmv is the entry point of the /verif machinery: bmv check <id> [--tier quick|thorough], bmv replay <file>.
package main

import (
	"fmt"
	"os"

	"verif/checks"
)

func main() {
	if len(os.Args) < 3 {
		fmt.Println("usage: bmv check <id> [--tier quick|thorough] | bmv replay <file>")
		os.Exit(2)
	}
	switch os.Args[1] {
	case "check":
		id := os.Args[2]
		tier := os.Getenv("VERIF_TIER")
		for i := 3; i < len(os.Args); i++ {
			if os.Args[i] == "--tier" && i+1 < len(os.Args) {
				tier = os.Args[i+1]
			}
		}
		if tier == "" {
			tier = "quick"
		}
		f, ok := checks.Registry[id]
		if !ok {
			fmt.Println("unknown check", id)
			os.Exit(2)
		}
		os.Exit(f(tier))
	case "replay":
		res, err := checks.RunReplay(os.Args[2])
		if err != nil {
			fmt.Println(err)
			os.Exit(2)
		}
		fmt.Printf("failed=%v panic=%q assume-violated=%v reached=%v\n", res.Failed, res.Panic, res.AssumeViolated, res.Reached)
		if len(res.Failed) > 0 || res.Panic != "" {
			os.Exit(1)
		}
	default:
		fmt.Println("unknown command")
		os.Exit(2)
	}
}
