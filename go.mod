module verif

go 1.23.3

toolchain go1.23.5

require (
	github.com/BondMachineHQ/BondMachine v0.0.0
	golang.org/x/tools v0.32.0
)

require (
	golang.org/x/mod v0.24.0 // indirect
	golang.org/x/sync v0.13.0 // indirect
)

replace github.com/BondMachineHQ/BondMachine => /repo
