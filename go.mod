module verif

go 1.23.3

toolchain go1.23.5

require (
	github.com/BondMachineHQ/BondMachine v0.0.0
	golang.org/x/tools v0.32.0
)

require (
	github.com/llir/ll v0.0.0-20220802044011-65001c0fb73c // indirect
	github.com/llir/llvm v0.3.6 // indirect
	github.com/mdlayher/packet v0.0.0-20220221164757-67998ac0ff93 // indirect
	github.com/mdlayher/raw v0.1.0 // indirect
	github.com/mdlayher/socket v0.2.1 // indirect
	github.com/mewmew/float v0.0.0-20201204173432-505706aa38fa // indirect
	github.com/mmirko/mel v0.0.0-20250221224538-07744443e851 // indirect
	github.com/pkg/errors v0.9.1 // indirect
	github.com/x448/float16 v0.8.4 // indirect
	golang.org/x/exp v0.0.0-20250408133849-7e4ce0ab07d0 // indirect
	golang.org/x/mod v0.24.0 // indirect
	golang.org/x/net v0.39.0 // indirect
	golang.org/x/sync v0.13.0 // indirect
	golang.org/x/sys v0.32.0 // indirect
	google.golang.org/protobuf v1.36.6 // indirect
)

replace github.com/BondMachineHQ/BondMachine => /repo
