package smt

import (
	"math"
	"math/big"
	"strings"
)

// Real sort: W == RealW. Constants carry their exact value as a canonical
// rational string in Name ("p/q"). Used for float32/float64 program values
// interpreted as exact reals (rounding is outside such a claim).
const RealW = -1

func (t *Term) IsReal() bool { return t.W == RealW }

func (s *Store) RealRat(r *big.Rat) *Term {
	return s.mk(&Term{Op: OpConst, W: RealW, Name: r.RatString()})
}

func (s *Store) RealFloat(f float64) *Term {
	r := new(big.Rat)
	if r.SetFloat64(f) == nil {
		panic("smt: non-finite real constant")
	}
	return s.RealRat(r)
}

func (s *Store) RealVar(name string) *Term { return s.Var(name, RealW) }

func ratOf(t *Term) (*big.Rat, bool) {
	if t.Op != OpConst || t.W != RealW {
		return nil, false
	}
	r, ok := new(big.Rat).SetString(t.Name)
	return r, ok
}

// RBin builds a real-arithmetic node (OpRAdd, OpRSub, OpRMul) with constant folding.
func (s *Store) RBin(op Op, a, b *Term) *Term {
	ra, ca := ratOf(a)
	rb, cb := ratOf(b)
	if ca && cb {
		z := new(big.Rat)
		switch op {
		case OpRAdd:
			z.Add(ra, rb)
		case OpRSub:
			z.Sub(ra, rb)
		case OpRMul:
			z.Mul(ra, rb)
		}
		return s.RealRat(z)
	}
	zero := func(r *big.Rat, c bool) bool { return c && r.Sign() == 0 }
	one := func(r *big.Rat, c bool) bool { return c && r.Cmp(big.NewRat(1, 1)) == 0 }
	switch op {
	case OpRAdd:
		if zero(ra, ca) {
			return b
		}
		if zero(rb, cb) {
			return a
		}
	case OpRSub:
		if zero(rb, cb) {
			return a
		}
		if a == b {
			return s.RealRat(new(big.Rat))
		}
	case OpRMul:
		if zero(ra, ca) || zero(rb, cb) {
			return s.RealRat(new(big.Rat))
		}
		if one(ra, ca) {
			return b
		}
		if one(rb, cb) {
			return a
		}
	}
	if (op == OpRAdd || op == OpRMul) && a.ID > b.ID {
		a, b = b, a
	}
	return s.mk(&Term{Op: op, W: RealW, Args: []*Term{a, b}})
}

func (s *Store) RNeg(a *Term) *Term {
	if r, ok := ratOf(a); ok {
		return s.RealRat(new(big.Rat).Neg(r))
	}
	return s.RBin(OpRSub, s.RealRat(new(big.Rat)), a)
}

// RCmp: OpRLt / OpRLe
func (s *Store) RCmp(op Op, a, b *Term) *Term {
	ra, ca := ratOf(a)
	rb, cb := ratOf(b)
	if ca && cb {
		c := ra.Cmp(rb)
		if op == OpRLt {
			return s.Bool(c < 0)
		}
		return s.Bool(c <= 0)
	}
	return s.mk(&Term{Op: op, W: 0, Args: []*Term{a, b}})
}

func realConstStr(name string) string {
	neg := strings.HasPrefix(name, "-")
	name = strings.TrimPrefix(name, "-")
	var txt string
	if i := strings.IndexByte(name, '/'); i >= 0 {
		txt = "(/ " + name[:i] + ".0 " + name[i+1:] + ".0)"
	} else {
		txt = name + ".0"
	}
	if neg {
		return "(- " + txt + ")"
	}
	return txt
}

// EvalReal evaluates a real-sorted term exactly; variables take the float64 value whose bit pattern the model holds.
func (s *Store) EvalReal(t *Term, m map[*Term]uint64, memo map[*Term]uint64) (*big.Rat, bool) {
	switch t.Op {
	case OpConst:
		return ratOf(t)
	case OpVar:
		r := new(big.Rat)
		if r.SetFloat64(math.Float64frombits(m[t])) == nil {
			return nil, false
		}
		return r, true
	case OpIte:
		c, ok := s.Eval(t.Args[0], m, memo)
		if !ok {
			return nil, false
		}
		if c == 1 {
			return s.EvalReal(t.Args[1], m, memo)
		}
		return s.EvalReal(t.Args[2], m, memo)
	case OpRAdd, OpRSub, OpRMul:
		x, ok1 := s.EvalReal(t.Args[0], m, memo)
		y, ok2 := s.EvalReal(t.Args[1], m, memo)
		if !ok1 || !ok2 {
			return nil, false
		}
		z := new(big.Rat)
		switch t.Op {
		case OpRAdd:
			z.Add(x, y)
		case OpRSub:
			z.Sub(x, y)
		default:
			z.Mul(x, y)
		}
		return z, true
	}
	return nil, false
}
