package smt

import "testing"

func TestBasic(t *testing.T) {
	for _, kind := range []string{"z3", "z3-new", "cvc5"} {
		st := NewStore()
		x := st.Var("x", 8)
		y := st.Var("y", 8)
		s, err := NewSolver(kind, st, 5000)
		if err != nil {
			t.Fatal(err)
		}
		// x+y == y+x always
		q := st.Ne(st.Bin(OpBvAdd, x, y), st.Bin(OpBvAdd, y, x))
		if r := s.Check(q); r != Unsat {
			t.Errorf("%s: commut: %v %v", kind, r, s.Errors)
		}
		q2 := st.And(st.Eq(st.Bin(OpBvMul, x, y), st.BV(35, 8)), st.Cmp(OpBvUlt, x, y))
		q2 = st.And(q2, st.Cmp(OpBvUlt, st.BV(1, 8), x))
		if r := s.Check(q2); r != Sat {
			t.Errorf("%s: mul: %v %v", kind, r, s.Errors)
		} else {
			m, err := s.Model([]*Term{x, y})
			if err != nil {
				t.Fatal(err)
			}
			v, _ := st.Eval(q2, m, map[*Term]uint64{})
			if v != 1 {
				t.Errorf("%s: model does not satisfy: %v", kind, m)
			}
			t.Logf("%s: x=%d y=%d", kind, m[x], m[y])
		}
		b := st.Var("b", 0)
		if r := s.Check(b, st.Not(b)); r != Unsat {
			t.Errorf("%s: b and not b: %v", kind, r)
		}
		s.Close()
	}
}

func TestRealPolynomialIdentity(t *testing.T) {
	st := NewStore()
	sol, err := NewSolver("z3", st, 20000)
	if err != nil {
		t.Skip(err)
	}
	defer sol.Close()
	a, b, c, d := st.RealVar("a"), st.RealVar("b"), st.RealVar("c"), st.RealVar("d")
	// (a+b)*(c+d) == a*c + a*d + b*c + b*d
	l := st.RBin(OpRMul, st.RBin(OpRAdd, a, b), st.RBin(OpRAdd, c, d))
	r := st.RBin(OpRAdd, st.RBin(OpRAdd, st.RBin(OpRMul, a, c), st.RBin(OpRMul, a, d)), st.RBin(OpRAdd, st.RBin(OpRMul, b, c), st.RBin(OpRMul, b, d)))
	if res := sol.Check(st.Not(st.Eq(l, r))); res != Unsat {
		t.Fatalf("identity: %v", res)
	}
	// a*b != a*c is satisfiable, model readable
	if res := sol.Check(st.Not(st.Eq(st.RBin(OpRMul, a, b), st.RBin(OpRMul, a, c)))); res != Sat {
		t.Fatalf("non-identity: %v", res)
	}
	m, err := sol.Model([]*Term{a, b, c})
	if err != nil {
		t.Fatal(err)
	}
	t.Log(m)
	if st.RBin(OpRMul, st.RealFloat(0.5), st.RealFloat(4)) != st.RealFloat(2) {
		t.Fatal("folding")
	}
}
