package smt

import "testing"

func TestBasic(t *testing.T) {
	for _, kind := range []string{"z3", "z3-new", "cvc5"} {
		st := NewStore()
		x := st.Var("x", 8)
		y := st.Var("y", 8)
		s, err := NewSolver(kind, st, 5000)
		if err != nil {
			t.Fatal(err)
		}
		// x+y == y+x always
		q := st.Ne(st.Bin(OpBvAdd, x, y), st.Bin(OpBvAdd, y, x))
		if r := s.Check(q); r != Unsat {
			t.Errorf("%s: commut: %v %v", kind, r, s.Errors)
		}
		q2 := st.And(st.Eq(st.Bin(OpBvMul, x, y), st.BV(35, 8)), st.Cmp(OpBvUlt, x, y))
		q2 = st.And(q2, st.Cmp(OpBvUlt, st.BV(1, 8), x))
		if r := s.Check(q2); r != Sat {
			t.Errorf("%s: mul: %v %v", kind, r, s.Errors)
		} else {
			m, err := s.Model([]*Term{x, y})
			if err != nil {
				t.Fatal(err)
			}
			v, _ := st.Eval(q2, m, map[*Term]uint64{})
			if v != 1 {
				t.Errorf("%s: model does not satisfy: %v", kind, m)
			}
			t.Logf("%s: x=%d y=%d", kind, m[x], m[y])
		}
		b := st.Var("b", 0)
		if r := s.Check(b, st.Not(b)); r != Unsat {
			t.Errorf("%s: b and not b: %v", kind, r)
		}
		s.Close()
	}
}
