// Package smt is a small hash-consed term DAG over Bool and fixed-width
// bit-vectors with local simplification, an SMT-LIB2 printer and a driver for
// long-lived solver processes (z3 -in, cvc5 --incremental).
package smt

import (
	"fmt"
	"math/bits"
)

type Op uint8

const (
	OpConst Op = iota
	OpVar
	OpNot
	OpAnd
	OpOr
	OpIte
	OpEq
	OpBvNot
	OpBvNeg
	OpBvAnd
	OpBvOr
	OpBvXor
	OpBvAdd
	OpBvSub
	OpBvMul
	OpBvUdiv
	OpBvUrem
	OpBvSdiv
	OpBvSrem
	OpBvShl
	OpBvLshr
	OpBvAshr
	OpBvUlt
	OpBvUle
	OpBvSlt
	OpBvSle
	OpConcat
	OpExtract
	OpZext
	OpSext
	OpUF
	OpRAdd
	OpRSub
	OpRMul
	OpRLt
	OpRLe
)

var opNames = map[Op]string{
	OpNot: "not", OpAnd: "and", OpOr: "or", OpIte: "ite", OpEq: "=",
	OpBvNot: "bvnot", OpBvNeg: "bvneg", OpBvAnd: "bvand", OpBvOr: "bvor", OpBvXor: "bvxor",
	OpBvAdd: "bvadd", OpBvSub: "bvsub", OpBvMul: "bvmul", OpBvUdiv: "bvudiv", OpBvUrem: "bvurem",
	OpBvSdiv: "bvsdiv", OpBvSrem: "bvsrem", OpBvShl: "bvshl", OpBvLshr: "bvlshr", OpBvAshr: "bvashr",
	OpBvUlt: "bvult", OpBvUle: "bvule", OpBvSlt: "bvslt", OpBvSle: "bvsle", OpConcat: "concat",
	OpRAdd: "+", OpRSub: "-", OpRMul: "*", OpRLt: "<", OpRLe: "<=",
}

// Term is immutable once created. W == 0 means sort Bool, W > 0 means (_ BitVec W).
type Term struct {
	ID   int
	Op   Op
	W    int
	Args []*Term
	Val  uint64 // OpConst (W<=64); Bool: 0/1
	Hi   int    // OpExtract hi; OpZext/OpSext: number of added bits
	Lo   int    // OpExtract lo
	Name string // OpVar, OpUF
	// HasReal: the term is, or contains, real arithmetic (nonlinear queries may not terminate quickly)
	HasReal bool
}

type key struct {
	op         Op
	w, hi, lo  int
	val        uint64
	name       string
	a0, a1, a2 int
}

// Store owns terms. Not safe for concurrent use: one Store per worker.
type Store struct {
	tab    map[key]*Term
	big    map[string]*Term
	All    []*Term
	Vars   []*Term
	UFs    map[string]*Term // one representative application per UF name (for declaration)
	T, F   *Term
	nfresh int
	// AbstractMul: replace bvmul/bvudiv/bvurem/bvsdiv/bvsrem of two non-constant
	// operands by uninterpreted functions (sound for unsat).
	AbstractMul     bool
	UsedAbstraction bool
}

func NewStore() *Store {
	s := &Store{tab: map[key]*Term{}, big: map[string]*Term{}, UFs: map[string]*Term{}}
	s.F = s.mk(&Term{Op: OpConst, W: 0, Val: 0})
	s.T = s.mk(&Term{Op: OpConst, W: 0, Val: 1})
	return s
}

func (s *Store) mk(t *Term) *Term {
	t.HasReal = t.W == RealW
	for _, a := range t.Args {
		if a.HasReal {
			t.HasReal = true
		}
	}
	if len(t.Args) > 3 {
		ks := fmt.Sprintf("%d|%d|%s", t.Op, t.W, t.Name)
		for _, a := range t.Args {
			ks += fmt.Sprintf("|%d", a.ID)
		}
		if o, ok := s.big[ks]; ok {
			return o
		}
		t.ID = len(s.All)
		s.All = append(s.All, t)
		s.big[ks] = t
		return t
	}
	k := key{op: t.Op, w: t.W, hi: t.Hi, lo: t.Lo, val: t.Val, name: t.Name, a0: -1, a1: -1, a2: -1}
	if len(t.Args) > 0 {
		k.a0 = t.Args[0].ID
	}
	if len(t.Args) > 1 {
		k.a1 = t.Args[1].ID
	}
	if len(t.Args) > 2 {
		k.a2 = t.Args[2].ID
	}
	if o, ok := s.tab[k]; ok {
		return o
	}
	t.ID = len(s.All)
	s.All = append(s.All, t)
	s.tab[k] = t
	return t
}

func mask(w int) uint64 {
	if w >= 64 {
		return ^uint64(0)
	}
	return (uint64(1) << uint(w)) - 1
}

func (t *Term) IsConst() bool { return t.Op == OpConst }
func (t *Term) IsBool() bool  { return t.W == 0 }
func (t *Term) IsTrue() bool  { return t.Op == OpConst && t.W == 0 && t.Val == 1 }
func (t *Term) IsFalse() bool { return t.Op == OpConst && t.W == 0 && t.Val == 0 }

func (s *Store) Bool(b bool) *Term {
	if b {
		return s.T
	}
	return s.F
}

// BV makes a constant of width w (1..64).
func (s *Store) BV(v uint64, w int) *Term {
	if w <= 0 || w > 64 {
		panic(fmt.Sprintf("smt.BV: width %d", w))
	}
	return s.mk(&Term{Op: OpConst, W: w, Val: v & mask(w)})
}

// Var returns the variable with this name (created on first use). w==0: Bool.
func (s *Store) Var(name string, w int) *Term {
	n := len(s.All)
	t := s.mk(&Term{Op: OpVar, W: w, Name: name})
	if t.ID == n {
		s.Vars = append(s.Vars, t)
	}
	return t
}

func (s *Store) Fresh(prefix string, w int) *Term {
	s.nfresh++
	return s.Var(fmt.Sprintf("%s!%d", prefix, s.nfresh), w)
}

func (s *Store) Not(a *Term) *Term {
	if a.W != 0 {
		panic("Not on non-bool")
	}
	if a.IsConst() {
		return s.Bool(a.Val == 0)
	}
	if a.Op == OpNot {
		return a.Args[0]
	}
	return s.mk(&Term{Op: OpNot, Args: []*Term{a}})
}

func isNeg(a, b *Term) bool {
	return (a.Op == OpNot && a.Args[0] == b) || (b.Op == OpNot && b.Args[0] == a)
}

func (s *Store) And(a, b *Term) *Term {
	if a.W != 0 || b.W != 0 {
		panic("And on non-bool")
	}
	if a.IsConst() {
		if a.Val == 1 {
			return b
		}
		return s.F
	}
	if b.IsConst() {
		if b.Val == 1 {
			return a
		}
		return s.F
	}
	if a == b {
		return a
	}
	if isNeg(a, b) {
		return s.F
	}
	// and(a, and(a, x)) = and(a,x)
	if b.Op == OpAnd && (b.Args[0] == a || b.Args[1] == a) {
		return b
	}
	if a.Op == OpAnd && (a.Args[0] == b || a.Args[1] == b) {
		return a
	}
	if a.ID > b.ID {
		a, b = b, a
	}
	return s.mk(&Term{Op: OpAnd, Args: []*Term{a, b}})
}

func (s *Store) Or(a, b *Term) *Term {
	if a.W != 0 || b.W != 0 {
		panic("Or on non-bool")
	}
	if a.IsConst() {
		if a.Val == 1 {
			return s.T
		}
		return b
	}
	if b.IsConst() {
		if b.Val == 1 {
			return s.T
		}
		return a
	}
	if a == b {
		return a
	}
	if isNeg(a, b) {
		return s.T
	}
	// or(and(g,c), and(g,not c)) = g
	if a.Op == OpAnd && b.Op == OpAnd {
		for i := 0; i < 2; i++ {
			for j := 0; j < 2; j++ {
				if a.Args[i] == b.Args[j] && isNeg(a.Args[1-i], b.Args[1-j]) {
					return a.Args[i]
				}
			}
		}
	}
	if a.ID > b.ID {
		a, b = b, a
	}
	return s.mk(&Term{Op: OpOr, Args: []*Term{a, b}})
}

func (s *Store) Implies(a, b *Term) *Term { return s.Or(s.Not(a), b) }

func (s *Store) AndN(ts ...*Term) *Term {
	r := s.T
	for _, t := range ts {
		r = s.And(r, t)
	}
	return r
}

func (s *Store) OrN(ts ...*Term) *Term {
	r := s.F
	for _, t := range ts {
		r = s.Or(r, t)
	}
	return r
}

func (s *Store) Ite(c, a, b *Term) *Term {
	if c.W != 0 {
		panic("Ite cond non-bool")
	}
	if a.W != b.W {
		panic(fmt.Sprintf("Ite width mismatch %d vs %d", a.W, b.W))
	}
	if c.IsConst() {
		if c.Val == 1 {
			return a
		}
		return b
	}
	if a == b {
		return a
	}
	if c.Op == OpNot {
		c, a, b = c.Args[0], b, a
	}
	if a.W == 0 {
		if a.IsConst() && b.IsConst() {
			if a.Val == 1 {
				return c
			}
			return s.Not(c)
		}
		if a.IsConst() {
			if a.Val == 1 {
				return s.Or(c, b)
			}
			return s.And(s.Not(c), b)
		}
		if b.IsConst() {
			if b.Val == 1 {
				return s.Or(s.Not(c), a)
			}
			return s.And(c, a)
		}
	}
	if a.Op == OpIte && a.Args[0] == c {
		a = a.Args[1]
	}
	if b.Op == OpIte && b.Args[0] == c {
		b = b.Args[2]
	}
	if a == b {
		return a
	}
	return s.mk(&Term{Op: OpIte, W: a.W, Args: []*Term{c, a, b}})
}

func (s *Store) Eq(a, b *Term) *Term {
	if a.W != b.W {
		panic(fmt.Sprintf("Eq width mismatch %d vs %d", a.W, b.W))
	}
	if a == b {
		return s.T
	}
	if a.W == RealW {
		if a.IsConst() && b.IsConst() {
			return s.F // canonical rational strings are hash-consed: different terms, different values
		}
		// x - y == 0  ->  x == y
		if b.IsConst() && b.Name == "0" && a.Op == OpRSub {
			return s.Eq(a.Args[0], a.Args[1])
		}
		if a.IsConst() && a.Name == "0" && b.Op == OpRSub {
			return s.Eq(b.Args[0], b.Args[1])
		}
		if a.ID > b.ID {
			a, b = b, a
		}
		return s.mk(&Term{Op: OpEq, Args: []*Term{a, b}})
	}
	if a.IsConst() && b.IsConst() {
		return s.Bool(a.Val == b.Val)
	}
	if a.IsConst() {
		a, b = b, a
	}
	if a.W == 0 {
		if b.IsConst() {
			if b.Val == 1 {
				return a
			}
			return s.Not(a)
		}
		if isNeg(a, b) {
			return s.F
		}
	}
	if b.IsConst() && a.Op == OpIte {
		x, y := a.Args[1], a.Args[2]
		if x.IsConst() {
			if x.Val == b.Val {
				return s.Or(a.Args[0], s.Eq(y, b))
			}
			return s.And(s.Not(a.Args[0]), s.Eq(y, b))
		}
		if y.IsConst() {
			if y.Val == b.Val {
				return s.Or(s.Not(a.Args[0]), s.Eq(x, b))
			}
			return s.And(a.Args[0], s.Eq(x, b))
		}
	}
	if b.IsConst() && a.Op == OpZext {
		// zext(x) == k : high bits of k must be zero
		xw := a.Args[0].W
		if b.Val>>uint(xw) != 0 {
			return s.F
		}
		return s.Eq(a.Args[0], s.BV(b.Val, xw))
	}
	if b.IsConst() && a.Op == OpConcat && a.W <= 64 {
		lo := a.Args[1]
		hi := a.Args[0]
		return s.And(s.Eq(hi, s.BV(b.Val>>uint(lo.W), hi.W)), s.Eq(lo, s.BV(b.Val, lo.W)))
	}
	if a.ID > b.ID {
		a, b = b, a
	}
	return s.mk(&Term{Op: OpEq, Args: []*Term{a, b}})
}

func (s *Store) Ne(a, b *Term) *Term { return s.Not(s.Eq(a, b)) }

func sx(v uint64, w int) int64 {
	if w >= 64 {
		return int64(v)
	}
	if v&(1<<uint(w-1)) != 0 {
		return int64(v | ^mask(w))
	}
	return int64(v)
}

func foldBin(op Op, a, b uint64, w int) (uint64, bool) {
	m := mask(w)
	switch op {
	case OpBvAnd:
		return a & b, true
	case OpBvOr:
		return a | b, true
	case OpBvXor:
		return a ^ b, true
	case OpBvAdd:
		return (a + b) & m, true
	case OpBvSub:
		return (a - b) & m, true
	case OpBvMul:
		return (a * b) & m, true
	case OpBvUdiv:
		if b == 0 {
			return m, true
		}
		return a / b, true
	case OpBvUrem:
		if b == 0 {
			return a, true
		}
		return a % b, true
	case OpBvSdiv:
		sa, sb := sx(a, w), sx(b, w)
		if sb == 0 {
			if sa < 0 {
				return 1, true
			}
			return m, true
		}
		if w == 64 && sa == -1<<63 && sb == -1 {
			return a, true
		}
		return uint64(sa/sb) & m, true
	case OpBvSrem:
		sa, sb := sx(a, w), sx(b, w)
		if sb == 0 {
			return a, true
		}
		if w == 64 && sa == -1<<63 && sb == -1 {
			return 0, true
		}
		return uint64(sa%sb) & m, true
	case OpBvShl:
		if b >= uint64(w) {
			return 0, true
		}
		return (a << b) & m, true
	case OpBvLshr:
		if b >= uint64(w) {
			return 0, true
		}
		return a >> b, true
	case OpBvAshr:
		sa := sx(a, w)
		if b >= uint64(w) {
			if sa < 0 {
				return m, true
			}
			return 0, true
		}
		return uint64(sa>>b) & m, true
	}
	return 0, false
}

func commutative(op Op) bool {
	switch op {
	case OpBvAnd, OpBvOr, OpBvXor, OpBvAdd, OpBvMul:
		return true
	}
	return false
}

// Bin builds a binary bit-vector operation.
func (s *Store) Bin(op Op, a, b *Term) *Term {
	if a.W != b.W || a.W == 0 {
		panic(fmt.Sprintf("Bin %s width mismatch %d vs %d", opNames[op], a.W, b.W))
	}
	w := a.W
	if a.IsConst() && b.IsConst() && w <= 64 {
		if v, ok := foldBin(op, a.Val, b.Val, w); ok {
			return s.BV(v, w)
		}
	}
	if commutative(op) && a.IsConst() {
		a, b = b, a
	}
	if b.IsConst() && w <= 64 {
		switch op {
		case OpBvAdd, OpBvSub, OpBvOr, OpBvXor, OpBvShl, OpBvLshr, OpBvAshr:
			if b.Val == 0 {
				return a
			}
		case OpBvAnd:
			if b.Val == 0 {
				return b
			}
			if b.Val == mask(w) {
				return a
			}
		case OpBvMul:
			if b.Val == 0 {
				return b
			}
			if b.Val == 1 {
				return a
			}
		case OpBvUdiv:
			if b.Val == 1 {
				return a
			}
		}
		if op == OpBvOr && b.Val == mask(w) {
			return b
		}
		// push through an ite with constant leaves
		if a.Op == OpIte && a.Args[1].IsConst() && a.Args[2].IsConst() {
			return s.Ite(a.Args[0], s.Bin(op, a.Args[1], b), s.Bin(op, a.Args[2], b))
		}
	}
	if a.IsConst() && w <= 64 && b.Op == OpIte && b.Args[1].IsConst() && b.Args[2].IsConst() {
		return s.Ite(b.Args[0], s.Bin(op, a, b.Args[1]), s.Bin(op, a, b.Args[2]))
	}
	if a == b {
		switch op {
		case OpBvAnd, OpBvOr:
			return a
		case OpBvXor, OpBvSub:
			if w <= 64 {
				return s.BV(0, w)
			}
		}
	}
	if s.AbstractMul && !a.IsConst() && !b.IsConst() {
		switch op {
		case OpBvMul, OpBvUdiv, OpBvUrem, OpBvSdiv, OpBvSrem:
			s.UsedAbstraction = true
			if op == OpBvMul && a.ID > b.ID {
				a, b = b, a
			}
			name := fmt.Sprintf("uf_%s_%d", opNames[op], w)
			t := s.mk(&Term{Op: OpUF, W: w, Name: name, Args: []*Term{a, b}})
			if _, ok := s.UFs[name]; !ok {
				s.UFs[name] = t
			}
			return t
		}
	}
	if commutative(op) && a.ID > b.ID && !b.IsConst() {
		a, b = b, a
	}
	return s.mk(&Term{Op: op, W: w, Args: []*Term{a, b}})
}

// UF applies an uninterpreted function (declared on first print).
func (s *Store) UF(name string, w int, args ...*Term) *Term {
	t := s.mk(&Term{Op: OpUF, W: w, Name: name, Args: args})
	if _, ok := s.UFs[name]; !ok {
		s.UFs[name] = t
	}
	return t
}

func (s *Store) Cmp(op Op, a, b *Term) *Term {
	if a.W != b.W || a.W == 0 {
		panic(fmt.Sprintf("Cmp width mismatch %d vs %d", a.W, b.W))
	}
	w := a.W
	if a.IsConst() && b.IsConst() && w <= 64 {
		switch op {
		case OpBvUlt:
			return s.Bool(a.Val < b.Val)
		case OpBvUle:
			return s.Bool(a.Val <= b.Val)
		case OpBvSlt:
			return s.Bool(sx(a.Val, w) < sx(b.Val, w))
		case OpBvSle:
			return s.Bool(sx(a.Val, w) <= sx(b.Val, w))
		}
	}
	if a == b {
		return s.Bool(op == OpBvUle || op == OpBvSle)
	}
	if w <= 64 {
		if op == OpBvUlt && b.IsConst() && b.Val == 0 {
			return s.F
		}
		if op == OpBvUle && a.IsConst() && a.Val == 0 {
			return s.T
		}
		if op == OpBvUle && b.IsConst() && b.Val == mask(w) {
			return s.T
		}
		if b.IsConst() && a.Op == OpIte && a.Args[1].IsConst() && a.Args[2].IsConst() {
			return s.Ite(a.Args[0], s.Cmp(op, a.Args[1], b), s.Cmp(op, a.Args[2], b))
		}
		if a.IsConst() && b.Op == OpIte && b.Args[1].IsConst() && b.Args[2].IsConst() {
			return s.Ite(b.Args[0], s.Cmp(op, a, b.Args[1]), s.Cmp(op, a, b.Args[2]))
		}
	}
	return s.mk(&Term{Op: op, W: 0, Args: []*Term{a, b}})
}

func (s *Store) BvNot(a *Term) *Term {
	if a.IsConst() && a.W <= 64 {
		return s.BV(^a.Val, a.W)
	}
	if a.Op == OpBvNot {
		return a.Args[0]
	}
	return s.mk(&Term{Op: OpBvNot, W: a.W, Args: []*Term{a}})
}

func (s *Store) BvNeg(a *Term) *Term {
	if a.IsConst() && a.W <= 64 {
		return s.BV(-a.Val, a.W)
	}
	return s.mk(&Term{Op: OpBvNeg, W: a.W, Args: []*Term{a}})
}

func (s *Store) Extract(hi, lo int, a *Term) *Term {
	if hi < lo || lo < 0 || hi >= a.W {
		panic(fmt.Sprintf("Extract [%d:%d] of width %d", hi, lo, a.W))
	}
	if lo == 0 && hi == a.W-1 {
		return a
	}
	w := hi - lo + 1
	switch a.Op {
	case OpConst:
		if a.W <= 64 {
			return s.BV(a.Val>>uint(lo), w)
		}
	case OpExtract:
		return s.Extract(hi+a.Lo, lo+a.Lo, a.Args[0])
	case OpConcat:
		l := a.Args[1]
		if hi < l.W {
			return s.Extract(hi, lo, l)
		}
		if lo >= l.W {
			return s.Extract(hi-l.W, lo-l.W, a.Args[0])
		}
		return s.Concat(s.Extract(hi-l.W, 0, a.Args[0]), s.Extract(l.W-1, lo, l))
	case OpZext:
		x := a.Args[0]
		if hi < x.W {
			return s.Extract(hi, lo, x)
		}
		if lo >= x.W && w <= 64 {
			return s.BV(0, w)
		}
		if lo < x.W {
			return s.Zext(hi-x.W+1, s.Extract(x.W-1, lo, x))
		}
	case OpSext:
		x := a.Args[0]
		if hi < x.W {
			return s.Extract(hi, lo, x)
		}
	case OpIte:
		if a.Args[1].IsConst() || a.Args[2].IsConst() {
			return s.Ite(a.Args[0], s.Extract(hi, lo, a.Args[1]), s.Extract(hi, lo, a.Args[2]))
		}
	case OpBvAnd, OpBvOr, OpBvXor:
		if a.Args[1].IsConst() {
			return s.Bin(a.Op, s.Extract(hi, lo, a.Args[0]), s.Extract(hi, lo, a.Args[1]))
		}
	case OpBvAdd, OpBvSub, OpBvMul:
		// low bits of modular arithmetic depend only on low bits of the operands
		if lo == 0 && (a.Args[0].Op == OpZext || a.Args[0].IsConst()) && (a.Args[1].Op == OpZext || a.Args[1].IsConst()) {
			return s.Bin(a.Op, s.Extract(hi, 0, a.Args[0]), s.Extract(hi, 0, a.Args[1]))
		}
	}
	return s.mk(&Term{Op: OpExtract, W: w, Hi: hi, Lo: lo, Args: []*Term{a}})
}

func (s *Store) Concat(hi, lo *Term) *Term {
	w := hi.W + lo.W
	if hi.IsConst() && lo.IsConst() && w <= 64 {
		return s.BV(hi.Val<<uint(lo.W)|lo.Val, w)
	}
	if hi.Op == OpExtract && lo.Op == OpExtract && hi.Args[0] == lo.Args[0] && hi.Lo == lo.Hi+1 {
		return s.Extract(hi.Hi, lo.Lo, hi.Args[0])
	}
	if hi.IsConst() && hi.W <= 64 && hi.Val == 0 {
		return s.Zext(hi.W, lo)
	}
	return s.mk(&Term{Op: OpConcat, W: w, Args: []*Term{hi, lo}})
}

func (s *Store) Zext(n int, a *Term) *Term {
	if n == 0 {
		return a
	}
	if n < 0 {
		panic("Zext negative")
	}
	if a.IsConst() && a.W+n <= 64 {
		return s.BV(a.Val, a.W+n)
	}
	if a.Op == OpZext {
		return s.Zext(n+a.Hi, a.Args[0])
	}
	if a.Op == OpIte && a.Args[1].IsConst() && a.Args[2].IsConst() && a.W+n <= 64 {
		return s.Ite(a.Args[0], s.Zext(n, a.Args[1]), s.Zext(n, a.Args[2]))
	}
	return s.mk(&Term{Op: OpZext, W: a.W + n, Hi: n, Args: []*Term{a}})
}

func (s *Store) Sext(n int, a *Term) *Term {
	if n == 0 {
		return a
	}
	if a.IsConst() && a.W+n <= 64 {
		return s.BV(uint64(sx(a.Val, a.W)), a.W+n)
	}
	return s.mk(&Term{Op: OpSext, W: a.W + n, Hi: n, Args: []*Term{a}})
}

// Resize converts a to width w: truncation, or zero/sign extension.
func (s *Store) Resize(a *Term, w int, signed bool) *Term {
	if a.W == w {
		return a
	}
	if a.W > w {
		return s.Extract(w-1, 0, a)
	}
	if signed {
		return s.Sext(w-a.W, a)
	}
	return s.Zext(w-a.W, a)
}

// BoolToBV gives a 1-bit vector for a Bool term.
func (s *Store) BoolToBV(c *Term) *Term { return s.Ite(c, s.BV(1, 1), s.BV(0, 1)) }

// Eval computes the value of t under the assignment (vars by pointer). UFs and
// widths above 64 are not supported (ok=false).
func (s *Store) Eval(t *Term, m map[*Term]uint64, memo map[*Term]uint64) (uint64, bool) {
	if v, ok := memo[t]; ok {
		return v, true
	}
	if t.W > 64 {
		return 0, false
	}
	var r uint64
	// comparisons of real-sorted terms: evaluated exactly over the rationals (model values of real variables are
	// float64 bit patterns; any point at which the two sides differ is a witness)
	if len(t.Args) == 2 && t.Args[0].W == RealW && (t.Op == OpEq || t.Op == OpRLt || t.Op == OpRLe) {
		x, ok1 := s.EvalReal(t.Args[0], m, memo)
		y, ok2 := s.EvalReal(t.Args[1], m, memo)
		if !ok1 || !ok2 {
			return 0, false
		}
		c := x.Cmp(y)
		switch t.Op {
		case OpEq:
			r = 0
			if c == 0 {
				r = 1
			}
		case OpRLt:
			r = 0
			if c < 0 {
				r = 1
			}
		default:
			r = 0
			if c <= 0 {
				r = 1
			}
		}
		memo[t] = r
		return r, true
	}
	if t.W == RealW {
		return 0, false
	}
	switch t.Op {
	case OpConst:
		r = t.Val
	case OpVar:
		r = m[t] & mask(max(t.W, 1))
	case OpUF:
		return 0, false
	default:
		av := make([]uint64, len(t.Args))
		for i, a := range t.Args {
			v, ok := s.Eval(a, m, memo)
			if !ok {
				return 0, false
			}
			av[i] = v
		}
		b2u := func(b bool) uint64 {
			if b {
				return 1
			}
			return 0
		}
		switch t.Op {
		case OpNot:
			r = 1 - av[0]
		case OpAnd:
			r = av[0] & av[1]
		case OpOr:
			r = av[0] | av[1]
		case OpIte:
			if av[0] == 1 {
				r = av[1]
			} else {
				r = av[2]
			}
		case OpEq:
			r = b2u(av[0] == av[1])
		case OpBvNot:
			r = ^av[0] & mask(t.W)
		case OpBvNeg:
			r = -av[0] & mask(t.W)
		case OpBvUlt:
			r = b2u(av[0] < av[1])
		case OpBvUle:
			r = b2u(av[0] <= av[1])
		case OpBvSlt:
			r = b2u(sx(av[0], t.Args[0].W) < sx(av[1], t.Args[0].W))
		case OpBvSle:
			r = b2u(sx(av[0], t.Args[0].W) <= sx(av[1], t.Args[0].W))
		case OpConcat:
			r = av[0]<<uint(t.Args[1].W) | av[1]
		case OpExtract:
			r = (av[0] >> uint(t.Lo)) & mask(t.W)
		case OpZext:
			r = av[0]
		case OpSext:
			r = uint64(sx(av[0], t.Args[0].W)) & mask(t.W)
		default:
			v, ok := foldBin(t.Op, av[0], av[1], t.W)
			if !ok {
				return 0, false
			}
			r = v
		}
	}
	memo[t] = r
	return r, true
}

// Size returns the number of distinct nodes under t.
func Size(t *Term) int {
	seen := map[*Term]bool{}
	var rec func(*Term)
	rec = func(x *Term) {
		if seen[x] {
			return
		}
		seen[x] = true
		for _, a := range x.Args {
			rec(a)
		}
	}
	rec(t)
	return len(seen)
}

var _ = bits.Len
