package smt

import (
	"bufio"
	"fmt"
	"io"
	"math"
	"os"
	"os/exec"
	"strconv"
	"strings"
	"sync"
	"sync/atomic"
	"time"
)

type Result int

const (
	Unsat Result = iota
	Sat
	Unknown
)

func (r Result) String() string { return [...]string{"unsat", "sat", "unknown"}[r] }

// Solver drives one long-lived solver process. Terms are defined once
// (define-fun at base level) and queries use check-sat-assuming.
type Solver struct {
	Kind    string // "z3", "z3-new", "cvc5"
	cmd     *exec.Cmd
	in      io.WriteCloser
	out     *bufio.Reader
	st      *Store
	defined []bool
	ufDecl  map[string]bool
	buf     strings.Builder
	Queries int
	Seconds float64
	Errors  []string
	timeout int
	Log     io.Writer
	dead    bool
	killed  atomic.Bool   // the watchdog ended the process at its CPU limit (a timeout, not an error)
	forkCPU time.Duration // CPU time of accounted forks
	lastCPU time.Duration // last reading of the process CPU time
	// Stretched counts the queries asked again with a longer timeout because the solver had been given less
	// CPU time than its budget (a loaded machine)
	Stretched int
	Macro     bool // emit define-fun instead of declare-const + equation (used for stand-alone scripts)
}

// NewSolver starts a solver for the given store. timeoutMs is the per-query soft timeout.
func NewSolver(kind string, st *Store, timeoutMs int) (*Solver, error) {
	var cmd *exec.Cmd
	switch kind {
	case "z3", "":
		kind = "z3"
		cmd = exec.Command("z3", "-in")
	case "z3-new":
		cmd = exec.Command("z3-new", "-in")
	case "cvc5":
		cmd = exec.Command("cvc5", "--incremental", "--produce-models", "--lang=smt2", fmt.Sprintf("--tlimit-per=%d", timeoutMs))
	default:
		return nil, fmt.Errorf("unknown solver %q", kind)
	}
	in, err := cmd.StdinPipe()
	if err != nil {
		return nil, err
	}
	out, err := cmd.StdoutPipe()
	if err != nil {
		return nil, err
	}
	cmd.Stderr = nil
	if err := cmd.Start(); err != nil {
		return nil, err
	}
	s := &Solver{Kind: kind, cmd: cmd, in: in, out: bufio.NewReaderSize(out, 1<<16), st: st, ufDecl: map[string]bool{}, timeout: timeoutMs}
	if kind == "cvc5" {
		s.send("(set-logic ALL)\n")
	} else {
		s.send(fmt.Sprintf("(set-option :timeout %d)\n", timeoutMs))
	}
	return s, nil
}

// Fork starts a fresh solver process of the same kind over the same store, with an empty assertion set.
// Used for nonlinear real queries: in incremental mode z3 keeps every earlier nonlinear atom in its
// context and slows down by orders of magnitude, a fresh context decides the same query at once.
func (s *Solver) Fork() (*Solver, error) { return NewSolver(s.Kind, s.st, s.timeout) }

// Account adds the statistics of a forked solver to this one.
func (s *Solver) Account(f *Solver) {
	s.forkCPU += f.CPU()
	s.Stretched += f.Stretched
	s.Queries += f.Queries
	s.Seconds += f.Seconds
	s.Errors = append(s.Errors, f.Errors...)
}

// Timeout returns the nominal per-query budget in milliseconds.
func (s *Solver) Timeout() int { return s.timeout }

func (s *Solver) SetTimeout(ms int) {
	if s.Kind != "cvc5" && ms != s.timeout {
		s.send(fmt.Sprintf("(set-option :timeout %d)\n", ms))
	}
	s.timeout = ms
}

func (s *Solver) Close() {
	if s == nil || s.cmd == nil {
		return
	}
	s.CPU() // keep the last reading
	s.in.Close()
	done := make(chan struct{})
	go func() { s.cmd.Wait(); close(done) }()
	select {
	case <-done:
	case <-time.After(500 * time.Millisecond):
		s.cmd.Process.Kill()
		<-done
	}
	s.cmd = nil
}

func (s *Solver) send(txt string) {
	if s.Log != nil {
		io.WriteString(s.Log, txt)
	}
	if _, err := io.WriteString(s.in, txt); err != nil {
		s.dead = true
		if !s.killed.Load() {
			s.Errors = append(s.Errors, "write: "+err.Error())
		}
	}
}

func sortStr(w int) string {
	if w == 0 {
		return "Bool"
	}
	if w == RealW {
		return "Real"
	}
	return "(_ BitVec " + strconv.Itoa(w) + ")"
}

func smtName(n string) string { return "|" + n + "|" }

func constStr(t *Term) string {
	if t.W == RealW {
		return realConstStr(t.Name)
	}
	if t.W == 0 {
		if t.Val == 1 {
			return "true"
		}
		return "false"
	}
	return "(_ bv" + strconv.FormatUint(t.Val, 10) + " " + strconv.Itoa(t.W) + ")"
}

func ref(t *Term) string {
	switch t.Op {
	case OpConst:
		return constStr(t)
	case OpVar:
		return smtName(t.Name)
	}
	if t.W == RealW {
		return realInline(t)
	}
	return "t" + strconv.Itoa(t.ID)
}

// Real-sorted nodes are printed inline (not named by a constant with a defining
// equation): z3's arithmetic rewriter then normalises the polynomials, whereas
// chains of nonlinear defining equations are left to the nonlinear solver.
var realInlineCache sync.Map

func realInline(t *Term) string {
	if v, ok := realInlineCache.Load(t); ok {
		return v.(string)
	}
	var sb strings.Builder
	sb.WriteString("(" + opNames[t.Op])
	for _, a := range t.Args {
		sb.WriteString(" " + ref(a))
	}
	sb.WriteString(")")
	r := sb.String()
	realInlineCache.Store(t, r)
	return r
}

// define emits definitions for every not yet defined node under t (iteratively).
func (s *Solver) define(t *Term) {
	if len(s.defined) < len(s.st.All) {
		nd := make([]bool, len(s.st.All)+1024)
		copy(nd, s.defined)
		s.defined = nd
	}
	type fr struct {
		t *Term
		i int
	}
	stack := []fr{{t, 0}}
	for len(stack) > 0 {
		f := &stack[len(stack)-1]
		if s.defined[f.t.ID] {
			stack = stack[:len(stack)-1]
			continue
		}
		if f.i < len(f.t.Args) {
			a := f.t.Args[f.i]
			f.i++
			if !s.defined[a.ID] {
				stack = append(stack, fr{a, 0})
			}
			continue
		}
		x := f.t
		stack = stack[:len(stack)-1]
		s.defined[x.ID] = true
		switch x.Op {
		case OpConst:
			continue
		case OpVar:
			fmt.Fprintf(&s.buf, "(declare-const %s %s)\n", smtName(x.Name), sortStr(x.W))
			continue
		case OpUF:
			if !s.ufDecl[x.Name] {
				s.ufDecl[x.Name] = true
				fmt.Fprintf(&s.buf, "(declare-fun %s (", x.Name)
				for _, a := range x.Args {
					s.buf.WriteString(sortStr(a.W) + " ")
				}
				fmt.Fprintf(&s.buf, ") %s)\n", sortStr(x.W))
			}
		}
		if x.W == RealW {
			continue // printed inline by ref()
		}
		// A defined name per DAG node. define-fun is a macro in z3 (the body is
		// re-expanded at every use, turning the DAG into a tree), so nodes are
		// introduced as constants with a defining equation instead.
		if s.Macro {
			fmt.Fprintf(&s.buf, "(define-fun t%d () %s ", x.ID, sortStr(x.W))
		} else {
			fmt.Fprintf(&s.buf, "(declare-const t%d %s)\n(assert (= t%d ", x.ID, sortStr(x.W), x.ID)
		}
		switch x.Op {
		case OpExtract:
			fmt.Fprintf(&s.buf, "((_ extract %d %d) %s)", x.Hi, x.Lo, ref(x.Args[0]))
		case OpZext:
			fmt.Fprintf(&s.buf, "((_ zero_extend %d) %s)", x.Hi, ref(x.Args[0]))
		case OpSext:
			fmt.Fprintf(&s.buf, "((_ sign_extend %d) %s)", x.Hi, ref(x.Args[0]))
		case OpUF:
			s.buf.WriteString("(" + x.Name)
			for _, a := range x.Args {
				s.buf.WriteString(" " + ref(a))
			}
			s.buf.WriteString(")")
		default:
			s.buf.WriteString("(" + opNames[x.Op])
			for _, a := range x.Args {
				s.buf.WriteString(" " + ref(a))
			}
			s.buf.WriteString(")")
		}
		if s.Macro {
			s.buf.WriteString(")\n")
		} else {
			s.buf.WriteString("))\n")
		}
	}
}

func (s *Solver) readLine() string {
	line, err := s.out.ReadString('\n')
	if err != nil {
		s.dead = true
		if s.killed.Load() {
			// ended by the watchdog at its CPU limit: a timeout, not an error
			return "(error \"solver died\")"
		}
		s.Errors = append(s.Errors, "read: "+err.Error())
		return "(error \"solver died\")"
	}
	return strings.TrimSpace(line)
}

// Assert adds t permanently to the solver's assertion set.
func (s *Solver) Assert(t *Term) {
	if s.dead || t.IsTrue() {
		return
	}
	s.define(t)
	s.buf.WriteString("(assert " + ref(t) + ")\n")
}

// procCPU returns the CPU time (user+system) a process has used so far, from /proc/<pid>/stat;
// ok is false where that file cannot be read.
func procCPU(pid int) (time.Duration, bool) {
	b, err := os.ReadFile(fmt.Sprintf("/proc/%d/stat", pid))
	if err != nil {
		return 0, false
	}
	txt := string(b)
	i := strings.LastIndexByte(txt, ')') // the command name may contain blanks
	if i < 0 {
		return 0, false
	}
	f := strings.Fields(txt[i+1:])
	if len(f) < 13 {
		return 0, false
	}
	ut, e1 := strconv.ParseInt(f[11], 10, 64)
	stt, e2 := strconv.ParseInt(f[12], 10, 64)
	if e1 != nil || e2 != nil {
		return 0, false
	}
	return time.Duration(ut+stt) * (time.Second / 100), true // USER_HZ is 100 on Linux
}

// ProcCPU is procCPU for the drivers that run one-shot solver processes themselves.
func ProcCPU(pid int) (time.Duration, bool) { return procCPU(pid) }

// RunWithCPULimit runs a one-shot process to its end or until it has used the given CPU time (or, where CPU
// time cannot be read, that much wall-clock time; in any case 40 times as much wall-clock time), and
// returns its combined output. The limit is CPU time so that a shared machine does not change the verdict.
func RunWithCPULimit(cmd *exec.Cmd, limit time.Duration) []byte {
	var out strings.Builder
	var mu sync.Mutex
	w := lockedWriter{&out, &mu}
	cmd.Stdout, cmd.Stderr = w, w
	if err := cmd.Start(); err != nil {
		return []byte("(error \"cannot start: " + err.Error() + "\")")
	}
	t0 := time.Now()
	pid := cmd.Process.Pid
	stop := make(chan struct{})
	go func() {
		tk := time.NewTicker(200 * time.Millisecond)
		defer tk.Stop()
		for {
			select {
			case <-stop:
				return
			case <-tk.C:
			}
			el := time.Since(t0)
			over := el > 40*limit
			if !over {
				if c, ok := procCPU(pid); ok {
					over = c > limit
				} else {
					over = el > limit
				}
			}
			if over {
				cmd.Process.Kill()
				return
			}
		}
	}()
	cmd.Wait()
	close(stop)
	mu.Lock()
	defer mu.Unlock()
	return []byte(out.String())
}

type lockedWriter struct {
	b  *strings.Builder
	mu *sync.Mutex
}

func (l lockedWriter) Write(p []byte) (int, error) {
	l.mu.Lock()
	defer l.mu.Unlock()
	return l.b.Write(p)
}

// CPU returns the CPU time the solver process has used since it was started (plus that of accounted forks).
func (s *Solver) CPU() time.Duration {
	d := s.forkCPU
	if s.cmd != nil && s.cmd.Process != nil {
		if c, ok := procCPU(s.cmd.Process.Pid); ok {
			d += c
			s.lastCPU = c
		} else {
			d += s.lastCPU
		}
	} else {
		d += s.lastCPU
	}
	return d
}

// Check decides satisfiability of the conjunction of the given Bool terms.
// Unknown covers timeouts, errors and a dead solver.
//
// The per-query timeout is a budget of solver CPU time, not of wall-clock time: when the solver answers
// unknown at its (wall-clock) timeout having been given less CPU than the budget - the machine is shared
// with other work - the same query is asked again with the timeout stretched by the observed starvation
// (at most three times, at most 40x). On an idle machine nothing changes.
func (s *Solver) Check(assumptions ...*Term) Result {
	if s.dead {
		return Unknown
	}
	lits := []string{}
	for _, a := range assumptions {
		if a.IsTrue() {
			continue
		}
		if a.IsFalse() {
			return Unsat
		}
		s.define(a)
		if a.Op == OpVar {
			lits = append(lits, ref(a))
		} else if a.Op == OpNot && a.Args[0].Op == OpVar {
			lits = append(lits, "(not "+ref(a.Args[0])+")")
		} else {
			lits = append(lits, ref(a))
		}
	}
	cmdline := "(check-sat)\n"
	if len(lits) > 0 {
		cmdline = "(check-sat-assuming (" + strings.Join(lits, " ") + "))\n"
	}
	s.buf.WriteString(cmdline)
	query := s.buf.String()
	s.buf.Reset()
	s.Queries++
	nominal := s.timeout
	res, cpu, wall := s.checkOnce(query, nominal)
	for try := 0; try < 3 && res == Unknown && !s.dead && nominal > 0 && s.Kind != "cvc5"; try++ {
		budget := time.Duration(nominal) * time.Millisecond
		if wall < budget*9/10 || cpu >= budget*85/100 {
			break // not a timeout, or a timeout after the full CPU budget
		}
		scale := 40.0
		if cpu > 0 {
			scale = 1.5 * float64(wall) / float64(cpu)
		}
		if scale > 40 {
			scale = 40
		}
		if scale < 2 {
			scale = 2
		}
		s.Stretched++
		s.SetTimeout(int(float64(nominal) * scale))
		res, cpu, wall = s.checkOnce(cmdline, nominal)
		s.SetTimeout(nominal)
	}
	return res
}

// checkOnce sends the text, reads the answer and returns it with the CPU and wall-clock time the solver took.
// cpuBudgetMs is the nominal per-query budget the watchdog is derived from.
func (s *Solver) checkOnce(query string, cpuBudgetMs int) (Result, time.Duration, time.Duration) {
	t0 := time.Now()
	var c0 time.Duration
	haveCPU := false
	pid := 0
	if s.cmd != nil && s.cmd.Process != nil {
		pid = s.cmd.Process.Pid
		c0, haveCPU = procCPU(pid)
	}
	s.send(query)
	// z3's soft timeout is not honoured inside every tactic (nonlinear arithmetic): a watchdog kills the
	// process once it has used twice the budget plus a grace period of CPU time (or, where CPU time cannot
	// be read, of wall-clock time; in any case after 45 times the budget of wall-clock time); the query and
	// all later ones are then Unknown
	if cpuBudgetMs > 0 && s.cmd != nil {
		proc := s.cmd.Process
		limit := time.Duration(2*cpuBudgetMs)*time.Millisecond + 5*time.Second
		hard := time.Duration(45*cpuBudgetMs)*time.Millisecond + 5*time.Second
		stop := make(chan struct{})
		defer close(stop)
		go func() {
			tk := time.NewTicker(500 * time.Millisecond)
			defer tk.Stop()
			for {
				select {
				case <-stop:
					return
				case <-tk.C:
				}
				el := time.Since(t0)
				over := el > hard
				if !over {
					if c, ok := procCPU(pid); ok && haveCPU {
						over = c-c0 > limit
					} else {
						over = el > limit
					}
				}
				if over {
					if f := os.Getenv("BMV_DUMPQ"); f != "" {
						os.WriteFile(f, []byte(query), 0o644)
					}
					s.killed.Store(true)
					proc.Kill()
					return
				}
			}
		}()
	}
	var res Result = Unknown
	for {
		line := s.readLine()
		if line == "" {
			continue
		}
		switch {
		case line == "sat":
			res = Sat
		case line == "unsat":
			res = Unsat
		case line == "unknown":
			res = Unknown
		case strings.HasPrefix(line, "(error"):
			if !(s.dead && s.killed.Load()) {
				s.Errors = append(s.Errors, line)
			}
			if s.dead {
				s.Seconds += time.Since(t0).Seconds()
				return Unknown, 0, time.Since(t0)
			}
			continue
		default:
			s.Errors = append(s.Errors, "unexpected: "+line)
			continue
		}
		break
	}
	wall := time.Since(t0)
	s.Seconds += wall.Seconds()
	cpu := wall
	if haveCPU {
		if c1, ok := procCPU(pid); ok {
			cpu = c1 - c0
		}
	}
	return res, cpu, wall
}

// Model returns the values of the given variables after a Sat answer.
func (s *Solver) Model(vars []*Term) (map[*Term]uint64, error) {
	m := map[*Term]uint64{}
	if len(vars) == 0 {
		return m, nil
	}
	// ask in chunks to keep lines short
	for i := 0; i < len(vars); i += 200 {
		j := min(i+200, len(vars))
		var sb strings.Builder
		sb.WriteString("(get-value (")
		for _, v := range vars[i:j] {
			s.define(v)
			sb.WriteString(ref(v) + " ")
		}
		sb.WriteString("))\n")
		s.send(s.buf.String() + sb.String())
		s.buf.Reset()
		txt, err := s.readSexp()
		if err != nil {
			return nil, err
		}
		vals, err := parseValues(txt)
		if err != nil {
			return nil, fmt.Errorf("%v in %q", err, txt)
		}
		if len(vals) != j-i {
			return nil, fmt.Errorf("model: expected %d values, got %d: %s", j-i, len(vals), txt)
		}
		for k, v := range vars[i:j] {
			m[v] = vals[k]
		}
	}
	return m, nil
}

func (s *Solver) readSexp() (string, error) {
	depth := 0
	var sb strings.Builder
	started := false
	inBar := false
	for {
		c, err := s.out.ReadByte()
		if err != nil {
			s.dead = true
			return "", err
		}
		sb.WriteByte(c)
		if c == '|' {
			inBar = !inBar
		}
		if inBar {
			continue
		}
		if c == '(' {
			depth++
			started = true
		} else if c == ')' {
			depth--
			if started && depth == 0 {
				return sb.String(), nil
			}
		}
	}
}

// parseValues parses "((name val) (name val) ...)" and returns vals in order.
func parseValues(txt string) ([]uint64, error) {
	if strings.HasPrefix(strings.TrimSpace(txt), "(error") {
		return nil, fmt.Errorf("solver error")
	}
	var vals []uint64
	// tokenise
	toks := []string{}
	i := 0
	for i < len(txt) {
		c := txt[i]
		switch {
		case c == '(' || c == ')':
			toks = append(toks, string(c))
			i++
		case c == ' ' || c == '\n' || c == '\t' || c == '\r':
			i++
		case c == '|':
			j := strings.IndexByte(txt[i+1:], '|')
			toks = append(toks, txt[i:i+j+2])
			i += j + 2
		default:
			j := i
			for j < len(txt) && !strings.ContainsRune("() \n\t\r", rune(txt[j])) {
				j++
			}
			toks = append(toks, txt[i:j])
			i = j
		}
	}
	// expect ( (name value) ... )
	p := 1
	for p < len(toks)-1 {
		if toks[p] != "(" {
			return nil, fmt.Errorf("parse: expected ( at %d", p)
		}
		p += 2 // skip "(" and name
		// value: token or (_ bvN w)
		var v uint64
		if toks[p] == "(" && toks[p+1] != "_" {
			// real value: (- x), (/ a b)
			f, np, err := parseReal(toks, p)
			if err != nil {
				return nil, err
			}
			v = math.Float64bits(f)
			p = np
		} else if toks[p] == "(" {
			// (_ bvN w)
			if toks[p+1] != "_" || !strings.HasPrefix(toks[p+2], "bv") {
				return nil, fmt.Errorf("parse: unexpected value form")
			}
			x, err := strconv.ParseUint(toks[p+2][2:], 10, 64)
			if err != nil {
				return nil, err
			}
			v = x
			p += 5
		} else {
			tk := toks[p]
			switch {
			case tk == "true":
				v = 1
			case tk == "false":
				v = 0
			case strings.HasPrefix(tk, "#b"):
				x, err := strconv.ParseUint(tk[2:], 2, 64)
				if err != nil {
					return nil, err
				}
				v = x
			case strings.HasPrefix(tk, "#x"):
				x, err := strconv.ParseUint(tk[2:], 16, 64)
				if err != nil {
					return nil, err
				}
				v = x
			case strings.ContainsRune(tk, '.'):
				f, err := strconv.ParseFloat(tk, 64)
				if err != nil {
					return nil, err
				}
				v = math.Float64bits(f)
			default:
				return nil, fmt.Errorf("parse: unexpected value %q", tk)
			}
			p++
		}
		if toks[p] != ")" {
			return nil, fmt.Errorf("parse: expected ) at %d", p)
		}
		p++
		vals = append(vals, v)
	}
	return vals, nil
}

// parseReal reads a real-valued model term: decimal, (- x), (/ a b); the value is returned as float64
// (a model value is only used to replay a counterexample).
func parseReal(toks []string, p int) (float64, int, error) {
	if toks[p] != "(" {
		f, err := strconv.ParseFloat(toks[p], 64)
		return f, p + 1, err
	}
	op := toks[p+1]
	p += 2
	var args []float64
	for toks[p] != ")" {
		f, np, err := parseReal(toks, p)
		if err != nil {
			return 0, 0, err
		}
		args = append(args, f)
		p = np
	}
	p++
	switch {
	case op == "-" && len(args) == 1:
		return -args[0], p, nil
	case op == "-" && len(args) == 2:
		return args[0] - args[1], p, nil
	case op == "/" && len(args) == 2:
		return args[0] / args[1], p, nil
	}
	return 0, 0, fmt.Errorf("parse: unexpected real value (%s ...)", op)
}

// Script renders a self-contained SMT-LIB2 script asserting the terms (for
// cross-checking with another solver binary or for debugging).
func Script(st *Store, asserts ...*Term) string {
	tmp := &Solver{st: st, ufDecl: map[string]bool{}}
	for _, a := range asserts {
		tmp.define(a)
	}
	var sb strings.Builder
	sb.WriteString(tmp.buf.String())
	for _, a := range asserts {
		sb.WriteString("(assert " + ref(a) + ")\n")
	}
	sb.WriteString("(check-sat)\n")
	return sb.String()
}

// RunScript runs a one-shot script through the named solver binary with a time limit.
func RunScript(kind, script string, timeoutMs int) (Result, string) {
	var cmd *exec.Cmd
	switch kind {
	case "z3", "z3-new":
		cmd = exec.Command(kind, "-in")
	case "cvc5":
		cmd = exec.Command("cvc5", "--lang=smt2")
		script = "(set-logic ALL)\n" + script
	}
	cmd.Stdin = strings.NewReader(script)
	out := RunWithCPULimit(cmd, time.Duration(timeoutMs)*time.Millisecond)
	txt := strings.TrimSpace(string(out))
	if strings.Contains(txt, "(error") {
		return Unknown, txt
	}
	switch {
	case strings.HasPrefix(txt, "unsat"):
		return Unsat, txt
	case strings.HasPrefix(txt, "sat"):
		return Sat, txt
	}
	return Unknown, txt
}
