package vlog

import (
	"os"
	"os/exec"
	"strings"
	"testing"

	"verif/smt"
)

func native(t *testing.T, args ...string) string {
	out, err := exec.Command("/verif/bin/bmnative", args...).Output()
	if err != nil {
		t.Skip("bmnative not built:", err)
	}
	return string(out)
}

func TestParseStack(t *testing.T) {
	os.Chdir(t.TempDir())
	src := native(t, "stack", "FIFO", "3", "2", "2", "4")
	mods, err := Parse("stack.v", src)
	if err != nil {
		t.Fatal(err)
	}
	d, err := Elaborate(mods, "dut", nil)
	if err != nil {
		t.Fatal(err)
	}
	t.Log(d.Describe())
	st := smt.NewStore()
	ev := NewEval(d, st, "")
	ev.FreshState("s0")
	ev.FreshInputs("i0")
	nx, err := ev.Step()
	if err != nil {
		t.Fatal(err)
	}
	for _, s := range d.StateSignals() {
		if s.Depth == 0 {
			t.Logf("%s' size %d", s.Name, smt.Size(nx.Regs[s.Name]))
		}
	}
}

func TestParseProc(t *testing.T) {
	os.Chdir(t.TempDir())
	src := native(t, "proc", "8", "1", "1", "1", "2", "3", "add,inc,j,rset,i2r,r2o,m2r,r2m,jz,mult,div,adc,cil")
	var mods []*Module
	for _, part := range strings.Split(src, "//@@FILE ")[1:] {
		nl := strings.IndexByte(part, '\n')
		ms, err := Parse(part[:nl], part[nl:])
		if err != nil {
			t.Fatal(err)
		}
		mods = append(mods, ms...)
	}
	d, err := Elaborate(mods, "a0", nil)
	if err != nil {
		t.Fatal(err)
	}
	t.Log(d.Describe())
	st := smt.NewStore()
	ev := NewEval(d, st, "")
	ev.FreshState("s0")
	ev.FreshInputs("i0")
	nx, err := ev.Step()
	if err != nil {
		t.Fatal(err)
	}
	for _, s := range d.StateSignals() {
		if s.Depth == 0 {
			t.Logf("%s' size %d", s.Name, smt.Size(nx.Regs[s.Name]))
		} else {
			t.Logf("%s memory depth %d", s.Name, s.Depth)
		}
	}
}
