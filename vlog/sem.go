package vlog

import (
	"fmt"

	"verif/smt"
)

// State holds the value of every state register / memory and every top input
// for one clock cycle.
type State struct {
	Regs map[string]*smt.Term
	Mems map[string][]*smt.Term
}

func (s *State) Clone() *State {
	n := &State{Regs: map[string]*smt.Term{}, Mems: map[string][]*smt.Term{}}
	for k, v := range s.Regs {
		n.Regs[k] = v
	}
	for k, v := range s.Mems {
		n.Mems[k] = append([]*smt.Term{}, v...)
	}
	return n
}

// Eval evaluates one cycle of a design symbolically.
type Eval struct {
	D      *Design
	St     *smt.Store
	Cur    *State               // current state
	In     map[string]*smt.Term // top inputs and black-box outputs (free)
	wires  map[string]*smt.Term
	busy   map[string]bool
	nfree  int
	loop   map[string]uint64
	Prefix string // name prefix for fresh variables
	// LiftMul: distribute * / % over ite trees (shape shared with the Go side)
	Lift func(op smt.Op, a, b *smt.Term) *smt.Term
}

func NewEval(d *Design, st *smt.Store, prefix string) *Eval {
	return &Eval{D: d, St: st, Cur: &State{Regs: map[string]*smt.Term{}, Mems: map[string][]*smt.Term{}}, In: map[string]*smt.Term{},
		wires: map[string]*smt.Term{}, busy: map[string]bool{}, Prefix: prefix}
}

// FreshState gives every state element and input an unconstrained variable.
func (e *Eval) FreshState(tag string) {
	for _, s := range e.D.StateSignals() {
		if s.Depth > 0 {
			m := make([]*smt.Term, s.Depth)
			for i := range m {
				m[i] = e.St.Var(fmt.Sprintf("%s%s.%s[%d]", e.Prefix, tag, s.Name, i), s.W)
			}
			e.Cur.Mems[s.Name] = m
		} else {
			e.Cur.Regs[s.Name] = e.St.Var(fmt.Sprintf("%s%s.%s", e.Prefix, tag, s.Name), s.W)
		}
	}
}

// FreshInputs gives every top input (and black-box output pin) a fresh variable.
func (e *Eval) FreshInputs(tag string) {
	for _, s := range e.D.TopInputs() {
		e.In[s.Name] = e.St.Var(fmt.Sprintf("%s%s.%s", e.Prefix, tag, s.Name), s.W)
	}
	for _, p := range e.D.Pins {
		if p.Dir == "output" {
			n := p.Inst + "." + p.Port
			e.In[n] = e.St.Var(fmt.Sprintf("%s%s.%s", e.Prefix, tag, n), p.W)
		}
	}
}

func (e *Eval) ResetWires() { e.wires = map[string]*smt.Term{}; e.busy = map[string]bool{} }

func (e *Eval) fresh(w int) *smt.Term {
	e.nfree++
	return e.St.Var(fmt.Sprintf("%sx!%d", e.Prefix, e.nfree), w)
}

func (e *Eval) constBig(n *Num, w int) *smt.Term {
	st := e.St
	if n.Big == "" {
		if w <= 64 {
			return st.BV(n.Val, w)
		}
		return st.Zext(w-64, st.BV(n.Val, 64))
	}
	digits := n.Big
	// build from chunks of 64 bits
	var t *smt.Term
	for len(digits) > 0 {
		k := len(digits) % 64
		if k == 0 {
			k = 64
		}
		var v uint64
		for _, c := range digits[:k] {
			v = v<<1 | uint64(c-'0')
		}
		chunk := st.BV(v, k)
		if t == nil {
			t = chunk
		} else {
			t = st.Concat(t, chunk)
		}
		digits = digits[k:]
	}
	return st.Resize(t, w, false)
}

// selfW is the self-determined width of an expression.
func (e *Eval) selfW(sc *scope, x Expr) int {
	switch v := x.(type) {
	case *Num:
		if v.Width > 0 {
			return v.Width
		}
		return 32
	case *Ident:
		if p, ok := sc.params[v.Name]; ok {
			return e.selfW(sc, p)
		}
		if s := e.D.Sigs[sc.prefix+v.Name]; s != nil {
			return s.W
		}
		efail("identifier %s is not declared in %s", v.Name, sc.mod.Name)
	case *Index:
		if id, ok := v.Base.(*Ident); ok {
			if s := e.D.Sigs[sc.prefix+id.Name]; s != nil && s.Depth > 0 {
				return s.W
			}
		}
		return 1
	case *Slice:
		return e.D.constExpr(sc, v.Msb) - e.D.constExpr(sc, v.Lsb) + 1
	case *Concat:
		w := 0
		for _, p := range v.Parts {
			w += e.selfW(sc, p)
		}
		return w
	case *Repl:
		return e.D.constExpr(sc, v.N) * e.selfW(sc, v.X)
	case *Unary:
		switch v.Op {
		case "!", "&", "|", "^", "~&", "~|", "~^":
			return 1
		}
		return e.selfW(sc, v.X)
	case *Binary:
		switch v.Op {
		case "==", "!=", "===", "!==", "<", "<=", ">", ">=", "&&", "||":
			return 1
		case "<<", ">>", "<<<", ">>>":
			return e.selfW(sc, v.L)
		}
		return max(e.selfW(sc, v.L), e.selfW(sc, v.R))
	case *Ternary:
		return max(e.selfW(sc, v.A), e.selfW(sc, v.B))
	}
	efail("width of %T", x)
	return 0
}

func (e *Eval) toBool(t *smt.Term) *smt.Term {
	if t.W == 0 {
		return t
	}
	if t.W <= 64 {
		return e.St.Ne(t, e.St.BV(0, t.W))
	}
	return e.St.Ne(t, e.St.Zext(t.W-64, e.St.BV(0, 64)))
}

func (e *Eval) fromBool(b *smt.Term) *smt.Term { return e.St.Ite(b, e.St.BV(1, 1), e.St.BV(0, 1)) }

func (e *Eval) ext(t *smt.Term, w int) *smt.Term {
	if t.W >= w {
		return t
	}
	return e.St.Zext(w-t.W, t)
}

// Sig returns the current value of a flattened signal.
func (e *Eval) Sig(name string) *smt.Term {
	s := e.D.Sigs[name]
	if s == nil {
		efail("unknown signal %s", name)
	}
	if v, ok := e.Cur.Regs[name]; ok {
		return v
	}
	if v, ok := e.In[name]; ok {
		return v
	}
	if v, ok := e.wires[name]; ok {
		return v
	}
	if s.Depth > 0 {
		efail("memory %s used as a scalar", name)
	}
	if e.busy[name] {
		efail("combinational cycle through %s", name)
	}
	drv := e.D.drivers[name]
	if len(drv) == 0 {
		// undriven net / register never assigned: arbitrary value
		v := e.fresh(s.W)
		e.wires[name] = v
		return v
	}
	e.busy[name] = true
	defer delete(e.busy, name)
	// collect bit drivers
	bits := make([]*smt.Term, s.W)
	for _, ai := range drv {
		a := e.D.assigns[ai]
		rsc := a.sc
		if a.rhsScope != nil {
			rsc = a.rhsScope
		}
		lw := e.selfW(a.sc, a.lhs)
		val := e.Expr(rsc, a.rhs, lw)
		val = e.St.Resize(val, lw, false)
		e.scatter(a.sc, a.lhs, val, name, bits)
	}
	var res *smt.Term
	for i := s.W - 1; i >= 0; i-- {
		b := bits[i]
		if b == nil {
			b = e.fresh(1)
		}
		if res == nil {
			res = b
		} else {
			res = e.St.Concat(res, b)
		}
	}
	e.wires[name] = res
	return res
}

// scatter distributes the bits of val (assigned to lhs) onto the bits of signal `name`.
func (e *Eval) scatter(sc *scope, lhs Expr, val *smt.Term, name string, bits []*smt.Term) {
	s := e.D.Sigs[name]
	put := func(lo int, v *smt.Term) {
		for k := 0; k < v.W; k++ {
			if lo+k < 0 || lo+k >= len(bits) {
				efail("assignment outside the range of %s", name)
			}
			if bits[lo+k] != nil {
				efail("net %s has more than one continuous driver on bit %d", name, lo+k)
			}
			bits[lo+k] = e.St.Extract(k, k, v)
		}
	}
	switch x := lhs.(type) {
	case *Ident:
		if sc.prefix+x.Name == name {
			put(0, val)
		}
	case *Index:
		if id, ok := x.Base.(*Ident); ok && sc.prefix+id.Name == name {
			put(e.D.constExpr(sc, x.Idx)-s.Lsb, val)
		}
	case *Slice:
		if id, ok := x.Base.(*Ident); ok && sc.prefix+id.Name == name {
			put(e.D.constExpr(sc, x.Lsb)-s.Lsb, val)
		}
	case *Concat:
		off := val.W
		for _, p := range x.Parts {
			w := e.selfW(sc, p)
			off -= w
			e.scatter(sc, p, e.St.Extract(off+w-1, off, val), name, bits)
		}
	}
}

func (e *Eval) memRead(name string, idx *smt.Term) *smt.Term {
	s := e.D.Sigs[name]
	m := e.Cur.Mems[name]
	if m == nil {
		// a memory nothing initialises or writes (e.g. an empty ROM): arbitrary, but fixed, contents
		m = make([]*smt.Term, s.Depth)
		for i := range m {
			m[i] = e.St.Var(fmt.Sprintf("%smem.%s[%d]", e.Prefix, name, i), s.W)
		}
		e.Cur.Mems[name] = m
	}
	st := e.St
	var res *smt.Term
	covered := uint64(1)<<uint(min(idx.W, 30)) <= uint64(s.Depth) && s.MemLo == 0
	if covered {
		res = m[len(m)-1]
	} else {
		res = e.fresh(s.W) // out-of-range read: arbitrary (two-state stand-in for X)
	}
	for k := len(m) - 1; k >= 0; k-- {
		if covered && k == len(m)-1 {
			continue
		}
		addr := uint64(k + s.MemLo)
		if idx.W < 64 && addr >= uint64(1)<<uint(idx.W) {
			continue
		}
		res = st.Ite(st.Eq(idx, st.BV(addr, idx.W)), m[k], res)
	}
	return res
}

var binOps = map[string]smt.Op{"+": smt.OpBvAdd, "-": smt.OpBvSub, "*": smt.OpBvMul, "/": smt.OpBvUdiv, "%": smt.OpBvUrem, "&": smt.OpBvAnd, "|": smt.OpBvOr, "^": smt.OpBvXor}

// Expr evaluates x in scope sc with context width ctx; the result has width
// max(self width, ctx).
func (e *Eval) Expr(sc *scope, x Expr, ctx int) *smt.Term {
	st := e.St
	switch v := x.(type) {
	case *Num:
		return e.constBig(v, max(e.selfW(sc, v), ctx))
	case *Ident:
		if p, ok := sc.params[v.Name]; ok {
			return e.Expr(sc, p, ctx)
		}
		if c, ok := e.loopVal(sc.prefix + v.Name); ok {
			return st.BV(c, max(32, ctx))
		}
		return e.ext(e.Sig(sc.prefix+v.Name), ctx)
	case *Index:
		id, ok := v.Base.(*Ident)
		if !ok {
			efail("index of a non-identifier")
		}
		s := e.D.Sigs[sc.prefix+id.Name]
		if s == nil {
			efail("identifier %s is not declared", id.Name)
		}
		if s.Depth > 0 {
			idx := e.Expr(sc, v.Idx, 0)
			return e.ext(e.memRead(s.Name, idx), ctx)
		}
		base := e.Sig(s.Name)
		if c, ok := e.D.constVal(sc, v.Idx, e.loop); ok {
			b := int(c) - s.Lsb
			if b < 0 || b >= base.W {
				return e.ext(e.fresh(1), ctx)
			}
			return e.ext(st.Extract(b, b, base), ctx)
		}
		idx := e.Expr(sc, v.Idx, 0)
		sh := st.Bin(smt.OpBvLshr, base, st.Resize(idx, base.W, false))
		return e.ext(st.Extract(0, 0, sh), ctx)
	case *Slice:
		id, ok := v.Base.(*Ident)
		if !ok {
			efail("part-select of a non-identifier")
		}
		s := e.D.Sigs[sc.prefix+id.Name]
		if s == nil {
			efail("identifier %s is not declared", id.Name)
		}
		base := e.Sig(s.Name)
		m, l := e.D.constExpr(sc, v.Msb)-s.Lsb, e.D.constExpr(sc, v.Lsb)-s.Lsb
		if l < 0 || m >= base.W || m < l {
			efail("part-select [%d:%d] outside %s[%d:0]", m, l, s.Name, base.W-1)
		}
		return e.ext(st.Extract(m, l, base), ctx)
	case *Concat:
		var res *smt.Term
		for _, p := range v.Parts {
			t := e.Expr(sc, p, 0)
			t = st.Resize(t, e.selfW(sc, p), false)
			if res == nil {
				res = t
			} else {
				res = st.Concat(res, t)
			}
		}
		return e.ext(res, ctx)
	case *Repl:
		n := e.D.constExpr(sc, v.N)
		t := st.Resize(e.Expr(sc, v.X, 0), e.selfW(sc, v.X), false)
		res := t
		for i := 1; i < n; i++ {
			res = st.Concat(res, t)
		}
		return e.ext(res, ctx)
	case *Unary:
		switch v.Op {
		case "!":
			return e.ext(e.fromBool(st.Not(e.toBool(e.Expr(sc, v.X, 0)))), ctx)
		case "~":
			w := max(e.selfW(sc, v), ctx)
			return st.BvNot(st.Resize(e.Expr(sc, v.X, w), w, false))
		case "-":
			w := max(e.selfW(sc, v), ctx)
			return st.BvNeg(st.Resize(e.Expr(sc, v.X, w), w, false))
		case "+":
			return e.Expr(sc, v.X, ctx)
		case "|":
			return e.ext(e.fromBool(e.toBool(e.Expr(sc, v.X, 0))), ctx)
		case "&":
			t := e.Expr(sc, v.X, 0)
			return e.ext(e.fromBool(st.Eq(t, st.BvNot(st.Bin(smt.OpBvXor, t, t)))), ctx)
		}
		efail("unary operator %s is outside the supported subset", v.Op)
	case *Binary:
		switch v.Op {
		case "+", "-", "*", "/", "%", "&", "|", "^":
			w := max(e.selfW(sc, v), ctx)
			l := st.Resize(e.Expr(sc, v.L, w), w, false)
			r := st.Resize(e.Expr(sc, v.R, w), w, false)
			op := binOps[v.Op]
			if (op == smt.OpBvMul || op == smt.OpBvUdiv || op == smt.OpBvUrem) && e.Lift != nil {
				return e.Lift(op, l, r)
			}
			if op == smt.OpBvUdiv || op == smt.OpBvUrem {
				// division by zero yields X: an arbitrary value
				zero := st.Eq(r, e.constBig(&Num{}, w))
				return st.Ite(zero, e.fresh(w), st.Bin(op, l, r))
			}
			return st.Bin(op, l, r)
		case "~^", "^~":
			w := max(e.selfW(sc, v), ctx)
			return st.BvNot(st.Bin(smt.OpBvXor, st.Resize(e.Expr(sc, v.L, w), w, false), st.Resize(e.Expr(sc, v.R, w), w, false)))
		case "==", "!=", "===", "!==", "<", "<=", ">", ">=":
			w := max(e.selfW(sc, v.L), e.selfW(sc, v.R))
			l := st.Resize(e.Expr(sc, v.L, w), w, false)
			r := st.Resize(e.Expr(sc, v.R, w), w, false)
			var b *smt.Term
			switch v.Op {
			case "==", "===":
				b = st.Eq(l, r)
			case "!=", "!==":
				b = st.Ne(l, r)
			case "<":
				b = st.Cmp(smt.OpBvUlt, l, r)
			case "<=":
				b = st.Cmp(smt.OpBvUle, l, r)
			case ">":
				b = st.Cmp(smt.OpBvUlt, r, l)
			case ">=":
				b = st.Cmp(smt.OpBvUle, r, l)
			}
			return e.ext(e.fromBool(b), ctx)
		case "&&":
			return e.ext(e.fromBool(st.And(e.toBool(e.Expr(sc, v.L, 0)), e.toBool(e.Expr(sc, v.R, 0)))), ctx)
		case "||":
			return e.ext(e.fromBool(st.Or(e.toBool(e.Expr(sc, v.L, 0)), e.toBool(e.Expr(sc, v.R, 0)))), ctx)
		case "<<", ">>", ">>>", "<<<":
			w := max(e.selfW(sc, v.L), ctx)
			l := st.Resize(e.Expr(sc, v.L, w), w, false)
			r := e.Expr(sc, v.R, 0)
			var cnt *smt.Term
			if r.W > w {
				big := st.Cmp(smt.OpBvUle, st.BV(uint64(w), r.W), r)
				if w > 64 {
					efail("shift of a value wider than 64 bits by a wider count")
				}
				cnt = st.Ite(big, st.BV(uint64(w)&mask(w), w), st.Extract(w-1, 0, r))
				if w < 8 && uint64(w) >= uint64(1)<<uint(w) {
					efail("shift width corner case")
				}
			} else {
				cnt = st.Zext(w-r.W, r)
			}
			if v.Op == "<<" || v.Op == "<<<" {
				return st.Bin(smt.OpBvShl, l, cnt)
			}
			return st.Bin(smt.OpBvLshr, l, cnt) // operands are unsigned: >>> is a logical shift
		}
		efail("binary operator %s is outside the supported subset", v.Op)
	case *Ternary:
		w := max(e.selfW(sc, v), ctx)
		c := e.toBool(e.Expr(sc, v.C, 0))
		return st.Ite(c, st.Resize(e.Expr(sc, v.A, w), w, false), st.Resize(e.Expr(sc, v.B, w), w, false))
	}
	efail("expression %T is outside the supported subset", x)
	return nil
}

func mask(w int) uint64 {
	if w >= 64 {
		return ^uint64(0)
	}
	return uint64(1)<<uint(w) - 1
}
