// Package vlog parses the synthesizable Verilog subset emitted by BondMachine's
// generators and gives it a symbolic cycle semantics over smt terms.
package vlog

import (
	"fmt"
	"strconv"
	"strings"
)

// ---- AST ----

type Expr interface{}

type Num struct {
	Width int // 0: unsized (32 bit)
	Val   uint64
	Big   string // binary digits when wider than 64 bits
	Sized bool
}
type Ident struct{ Name string }
type Index struct {
	Base Expr
	Idx  Expr
}
type Slice struct {
	Base     Expr
	Msb, Lsb Expr
}
type Concat struct{ Parts []Expr }
type Repl struct {
	N Expr
	X Expr
}
type Unary struct {
	Op string
	X  Expr
}
type Binary struct {
	Op   string
	L, R Expr
}
type Ternary struct{ C, A, B Expr }

type Stmt interface{}
type Block struct{ Stmts []Stmt }
type If struct {
	Cond       Expr
	Then, Else Stmt
}
type CaseItem struct {
	Exprs []Expr // nil: default
	Body  Stmt
}
type Case struct {
	Sel   Expr
	Items []CaseItem
}
type Assign struct {
	LHS      Expr
	RHS      Expr
	Blocking bool
	Line     int
}
type For struct {
	Init, Step *Assign
	Cond       Expr
	Body       Stmt
}
type Null struct{}

type Range struct{ Msb, Lsb Expr }

type Decl struct {
	Kind  string // input output inout wire reg integer
	IsReg bool   // "output reg"
	Rng   *Range
	Names []string
	Mem   map[string]*Range // memory dimension per name
	Init  map[string]Expr
	Line  int
}
type Localparam struct {
	Name string
	Val  Expr
}
type ContAssign struct {
	LHS, RHS Expr
	Line     int
}
type Always struct {
	Edges []string // posedge signal names
	Body  Stmt
	Line  int
}
type Initial struct{ Body Stmt }
type Conn struct {
	Port string // "" positional
	X    Expr
}
type Instance struct {
	Module, Name string
	Conns        []Conn
	Line         int
}
type Module struct {
	Name  string
	Ports []string
	Items []interface{}
	Line  int
}

// ---- lexer ----

type tok struct {
	kind string // id num str op eof
	s    string
	line int
}

type lexer struct {
	src  string
	pos  int
	line int
	toks []tok
}

func isIdStart(c byte) bool {
	return c == '_' || c == '$' || c >= 'a' && c <= 'z' || c >= 'A' && c <= 'Z'
}
func isIdChar(c byte) bool { return isIdStart(c) || c >= '0' && c <= '9' }
func isDigit(c byte) bool  { return c >= '0' && c <= '9' }

func lex(src string) ([]tok, error) {
	l := &lexer{src: src, line: 1}
	for l.pos < len(src) {
		c := src[l.pos]
		switch {
		case c == '\n':
			l.line++
			l.pos++
		case c == ' ' || c == '\t' || c == '\r':
			l.pos++
		case c == '/' && l.pos+1 < len(src) && src[l.pos+1] == '/':
			for l.pos < len(src) && src[l.pos] != '\n' {
				l.pos++
			}
		case c == '/' && l.pos+1 < len(src) && src[l.pos+1] == '*':
			end := strings.Index(src[l.pos+2:], "*/")
			if end < 0 {
				return nil, fmt.Errorf("line %d: unterminated comment", l.line)
			}
			l.line += strings.Count(src[l.pos:l.pos+2+end+2], "\n")
			l.pos += 2 + end + 2
		case c == '(' && l.pos+1 < len(src) && src[l.pos+1] == '*' && !(l.pos+2 < len(src) && src[l.pos+2] == ')'):
			// attribute (* ... *)
			end := strings.Index(src[l.pos+2:], "*)")
			if end < 0 {
				return nil, fmt.Errorf("line %d: unterminated attribute", l.line)
			}
			l.line += strings.Count(src[l.pos:l.pos+2+end+2], "\n")
			l.pos += 2 + end + 2
		case c == '`':
			// compiler directive: skip the line
			for l.pos < len(src) && src[l.pos] != '\n' {
				l.pos++
			}
		case c == '"':
			j := l.pos + 1
			for j < len(src) && src[j] != '"' {
				if src[j] == '\\' {
					j++
				}
				j++
			}
			l.toks = append(l.toks, tok{"str", src[l.pos+1 : min(j, len(src))], l.line})
			l.pos = j + 1
		case isIdStart(c):
			j := l.pos
			for j < len(src) && isIdChar(src[j]) {
				j++
			}
			l.toks = append(l.toks, tok{"id", src[l.pos:j], l.line})
			l.pos = j
		case isDigit(c) || c == '\'':
			j := l.pos
			for j < len(src) && (isDigit(src[j]) || src[j] == '_') {
				j++
			}
			if j < len(src) && src[j] == '\'' {
				j++
				if j < len(src) && (src[j] == 's' || src[j] == 'S') {
					j++
				}
				if j < len(src) {
					j++ // base
				}
				for j < len(src) && (isIdChar(src[j]) || src[j] == '?') {
					j++
				}
			}
			l.toks = append(l.toks, tok{"num", src[l.pos:j], l.line})
			l.pos = j
		default:
			ops := []string{"<<<", ">>>", "===", "!==", "<=", ">=", "==", "!=", "&&", "||", "<<", ">>", "~^", "^~", "~&", "~|"}
			matched := false
			for _, o := range ops {
				if strings.HasPrefix(src[l.pos:], o) {
					l.toks = append(l.toks, tok{"op", o, l.line})
					l.pos += len(o)
					matched = true
					break
				}
			}
			if !matched {
				l.toks = append(l.toks, tok{"op", string(c), l.line})
				l.pos++
			}
		}
	}
	l.toks = append(l.toks, tok{"eof", "", l.line})
	return l.toks, nil
}

// ---- parser ----

type parser struct {
	toks    []tok
	p       int
	file    string
	hoisted []*Decl
}

type ParseError struct{ Msg string }

func (e *ParseError) Error() string { return e.Msg }

func (p *parser) fail(format string, a ...interface{}) {
	panic(&ParseError{fmt.Sprintf("%s:%d: ", p.file, p.toks[p.p].line) + fmt.Sprintf(format, a...)})
}
func (p *parser) peek() tok { return p.toks[p.p] }
func (p *parser) next() tok  { t := p.toks[p.p]; p.p++; return t }
func (p *parser) is(s string) bool {
	t := p.toks[p.p]
	return (t.kind == "op" || t.kind == "id") && t.s == s
}
func (p *parser) accept(s string) bool {
	if p.is(s) {
		p.p++
		return true
	}
	return false
}
func (p *parser) expect(s string) {
	if !p.accept(s) {
		p.fail("expected %q, found %q", s, p.peek().s)
	}
}
func (p *parser) ident() string {
	t := p.next()
	if t.kind != "id" {
		p.p--
		p.fail("expected identifier, found %q", t.s)
	}
	return t.s
}

// Parse parses a source text into modules.
func Parse(file, src string) (mods []*Module, err error) {
	toks, err := lex(src)
	if err != nil {
		return nil, err
	}
	p := &parser{toks: toks, file: file}
	defer func() {
		if r := recover(); r != nil {
			if pe, ok := r.(*ParseError); ok {
				err = pe
				return
			}
			panic(r)
		}
	}()
	for p.peek().kind != "eof" {
		if p.is("module") {
			mods = append(mods, p.module())
		} else {
			p.fail("unexpected %q at top level", p.peek().s)
		}
	}
	return mods, nil
}

func (p *parser) rangeOpt() *Range {
	if !p.is("[") {
		return nil
	}
	p.expect("[")
	m := p.expr()
	p.expect(":")
	l := p.expr()
	p.expect("]")
	return &Range{m, l}
}

func (p *parser) module() *Module {
	m := &Module{Line: p.peek().line}
	p.expect("module")
	m.Name = p.ident()
	if p.accept("(") {
		for !p.is(")") {
			// ANSI: direction [reg] [range] name | non-ANSI: name
			if p.is("input") || p.is("output") || p.is("inout") {
				d := &Decl{Kind: p.next().s, Line: p.peek().line}
				if p.accept("reg") {
					d.IsReg = true
				}
				p.accept("wire")
				d.Rng = p.rangeOpt()
				n := p.ident()
				d.Names = []string{n}
				m.Ports = append(m.Ports, n)
				m.Items = append(m.Items, d)
				// further names of the same declaration
				for p.is(",") && p.toks[p.p+1].kind == "id" && !isDir(p.toks[p.p+1].s) {
					p.next()
					n := p.ident()
					d.Names = append(d.Names, n)
					m.Ports = append(m.Ports, n)
				}
			} else {
				m.Ports = append(m.Ports, p.ident())
			}
			if !p.accept(",") {
				break
			}
		}
		p.expect(")")
	}
	p.expect(";")
	for !p.is("endmodule") {
		if p.peek().kind == "eof" {
			p.fail("missing endmodule")
		}
		m.Items = append(m.Items, p.item()...)
	}
	p.expect("endmodule")
	for _, d := range p.hoisted {
		m.Items = append(m.Items, d)
	}
	p.hoisted = nil
	return m
}

func isDir(s string) bool { return s == "input" || s == "output" || s == "inout" }

func (p *parser) item() []interface{} {
	line := p.peek().line
	switch {
	case p.is("input") || p.is("output") || p.is("inout") || p.is("wire") || p.is("reg") || p.is("integer"):
		d := &Decl{Kind: p.next().s, Line: line, Mem: map[string]*Range{}, Init: map[string]Expr{}}
		if d.Kind != "reg" && p.accept("reg") {
			d.IsReg = true
		}
		p.accept("wire")
		p.accept("signed")
		d.Rng = p.rangeOpt()
		for {
			n := p.ident()
			d.Names = append(d.Names, n)
			if p.is("[") {
				d.Mem[n] = p.rangeOpt()
			}
			if p.accept("=") {
				d.Init[n] = p.expr()
			}
			if !p.accept(",") {
				break
			}
		}
		p.expect(";")
		return []interface{}{d}
	case p.is("localparam") || p.is("parameter"):
		p.next()
		p.rangeOpt()
		var out []interface{}
		for {
			n := p.ident()
			p.expect("=")
			out = append(out, &Localparam{n, p.expr()})
			if !p.accept(",") {
				break
			}
		}
		p.expect(";")
		return out
	case p.is("assign"):
		p.next()
		var out []interface{}
		for {
			l := p.lvalue()
			p.expect("=")
			p.delay()
			out = append(out, &ContAssign{l, p.expr(), line})
			if !p.accept(",") {
				break
			}
		}
		p.expect(";")
		return out
	case p.is("always"):
		p.next()
		a := &Always{Line: line}
		p.expect("@")
		p.expect("(")
		for {
			if p.accept("posedge") {
				a.Edges = append(a.Edges, p.ident())
			} else if p.accept("negedge") {
				p.fail("negedge is outside the supported subset")
			} else if p.accept("*") {
				a.Edges = nil
			} else {
				p.fail("level-sensitive always block is outside the supported subset (%q)", p.peek().s)
			}
			if !(p.accept(",") || p.accept("or")) {
				break
			}
		}
		p.expect(")")
		a.Body = p.stmt()
		return []interface{}{a}
	case p.is("initial"):
		p.next()
		return []interface{}{&Initial{p.stmt()}}
	case p.peek().kind == "id":
		// module instance: mod name ( conns ) ;
		in := &Instance{Module: p.ident(), Line: line}
		in.Name = p.ident()
		p.expect("(")
		for !p.is(")") {
			if p.accept(".") {
				port := p.ident()
				p.expect("(")
				var x Expr
				if !p.is(")") {
					x = p.expr()
				}
				p.expect(")")
				in.Conns = append(in.Conns, Conn{port, x})
			} else {
				in.Conns = append(in.Conns, Conn{"", p.expr()})
			}
			if !p.accept(",") {
				break
			}
		}
		p.expect(")")
		p.expect(";")
		return []interface{}{in}
	}
	p.fail("unexpected %q in module body", p.peek().s)
	return nil
}

func (p *parser) delay() {
	if p.accept("#") {
		p.next() // delay value
	}
}

func (p *parser) lvalue() Expr {
	if p.is("{") {
		return p.primary()
	}
	var e Expr = &Ident{p.ident()}
	for p.is("[") {
		p.next()
		a := p.expr()
		if p.accept(":") {
			b := p.expr()
			p.expect("]")
			e = &Slice{e, a, b}
		} else {
			p.expect("]")
			e = &Index{e, a}
		}
	}
	return e
}

func (p *parser) stmt() Stmt {
	line := p.peek().line
	switch {
	case p.accept(";"):
		return &Null{}
	case p.is("begin"):
		p.next()
		if p.accept(":") {
			p.ident()
		}
		b := &Block{}
		for !p.is("end") {
			if p.peek().kind == "eof" {
				p.fail("missing end")
			}
			if p.is("integer") {
				// block-local integer: hoisted to module level (names are unique in the generated code)
				line := p.next().line
				d := &Decl{Kind: "integer", Line: line, Mem: map[string]*Range{}, Init: map[string]Expr{}}
				for {
					d.Names = append(d.Names, p.ident())
					if !p.accept(",") {
						break
					}
				}
				p.expect(";")
				p.hoisted = append(p.hoisted, d)
				continue
			}
			if p.is("reg") {
				p.fail("block-local reg declarations are outside the supported subset")
			}
			b.Stmts = append(b.Stmts, p.stmt())
		}
		p.expect("end")
		return b
	case p.is("if"):
		p.next()
		p.expect("(")
		c := p.expr()
		p.expect(")")
		s := &If{Cond: c, Then: p.stmt()}
		if p.accept("else") {
			s.Else = p.stmt()
		}
		return s
	case p.is("case") || p.is("casez") || p.is("casex"):
		if !p.is("case") {
			p.fail("casez/casex are outside the supported subset")
		}
		p.next()
		p.expect("(")
		c := &Case{Sel: p.expr()}
		p.expect(")")
		for !p.is("endcase") {
			if p.peek().kind == "eof" {
				p.fail("missing endcase")
			}
			var it CaseItem
			if p.accept("default") {
				p.accept(":")
			} else {
				for {
					it.Exprs = append(it.Exprs, p.expr())
					if !p.accept(",") {
						break
					}
				}
				p.expect(":")
			}
			it.Body = p.stmt()
			c.Items = append(c.Items, it)
		}
		p.expect("endcase")
		return c
	case p.is("for"):
		p.next()
		p.expect("(")
		f := &For{}
		f.Init = p.plainAssign()
		p.expect(";")
		f.Cond = p.expr()
		p.expect(";")
		f.Step = p.plainAssign()
		p.expect(")")
		f.Body = p.stmt()
		return f
	case p.peek().kind == "id" && strings.HasPrefix(p.peek().s, "$"):
		// system task: ignored
		p.next()
		if p.accept("(") {
			depth := 1
			for depth > 0 {
				t := p.next()
				if t.kind == "eof" {
					p.fail("unterminated system task")
				}
				if t.kind == "op" && t.s == "(" {
					depth++
				}
				if t.kind == "op" && t.s == ")" {
					depth--
				}
			}
		}
		p.expect(";")
		return &Null{}
	case p.is("#"):
		p.delay()
		return p.stmt()
	}
	l := p.lvalue()
	a := &Assign{LHS: l, Line: line}
	if p.accept("<=") {
	} else if p.accept("=") {
		a.Blocking = true
	} else {
		p.fail("expected assignment, found %q", p.peek().s)
	}
	p.delay()
	a.RHS = p.expr()
	p.expect(";")
	return a
}

func (p *parser) plainAssign() *Assign {
	l := p.lvalue()
	p.expect("=")
	return &Assign{LHS: l, RHS: p.expr(), Blocking: true, Line: p.peek().line}
}

// expression parsing by precedence climbing
var binPrec = map[string]int{
	"||": 1, "&&": 2, "|": 3, "^": 4, "~^": 4, "^~": 4, "&": 5,
	"==": 6, "!=": 6, "===": 6, "!==": 6,
	"<": 7, "<=": 7, ">": 7, ">=": 7,
	"<<": 8, ">>": 8, "<<<": 8, ">>>": 8,
	"+": 9, "-": 9, "*": 10, "/": 10, "%": 10,
}

func (p *parser) expr() Expr {
	c := p.binary(1)
	if p.accept("?") {
		a := p.expr()
		p.expect(":")
		b := p.expr()
		return &Ternary{c, a, b}
	}
	return c
}

func (p *parser) binary(min int) Expr {
	l := p.unary()
	for {
		t := p.peek()
		if t.kind != "op" {
			return l
		}
		pr, ok := binPrec[t.s]
		if !ok || pr < min {
			return l
		}
		p.next()
		r := p.binary(pr + 1)
		l = &Binary{t.s, l, r}
	}
}

func (p *parser) unary() Expr {
	t := p.peek()
	if t.kind == "op" {
		switch t.s {
		case "!", "~", "-", "+", "&", "|", "^", "~&", "~|", "~^":
			p.next()
			return &Unary{t.s, p.unary()}
		}
	}
	return p.primary()
}

func (p *parser) primary() Expr {
	t := p.next()
	switch {
	case t.kind == "num":
		return p.number(t.s)
	case t.kind == "op" && t.s == "(":
		e := p.expr()
		p.expect(")")
		return e
	case t.kind == "op" && t.s == "{":
		first := p.expr()
		if p.is("{") {
			// replication {n{x}}
			p.next()
			x := p.expr()
			var parts []Expr
			parts = append(parts, x)
			for p.accept(",") {
				parts = append(parts, p.expr())
			}
			p.expect("}")
			p.expect("}")
			var inner Expr = &Concat{parts}
			if len(parts) == 1 {
				inner = parts[0]
			}
			return &Repl{first, inner}
		}
		parts := []Expr{first}
		for p.accept(",") {
			parts = append(parts, p.expr())
		}
		p.expect("}")
		return &Concat{parts}
	case t.kind == "id":
		var e Expr = &Ident{t.s}
		for p.is("[") {
			p.next()
			a := p.expr()
			if p.accept(":") {
				b := p.expr()
				p.expect("]")
				e = &Slice{e, a, b}
			} else {
				p.expect("]")
				e = &Index{e, a}
			}
		}
		return e
	}
	p.p--
	p.fail("unexpected %q in expression", t.s)
	return nil
}

func (p *parser) number(s string) Expr {
	s = strings.ReplaceAll(s, "_", "")
	q := strings.IndexByte(s, '\'')
	if q < 0 {
		v, err := strconv.ParseUint(s, 10, 64)
		if err != nil {
			p.fail("bad number %q", s)
		}
		return &Num{Width: 0, Val: v}
	}
	n := &Num{Sized: q > 0}
	if q > 0 {
		w, err := strconv.Atoi(s[:q])
		if err != nil || w <= 0 {
			p.fail("bad number width %q", s)
		}
		n.Width = w
	}
	rest := s[q+1:]
	if len(rest) > 0 && (rest[0] == 's' || rest[0] == 'S') {
		rest = rest[1:]
	}
	if len(rest) < 2 {
		p.fail("bad number %q", s)
	}
	base := map[byte]int{'b': 2, 'B': 2, 'o': 8, 'O': 8, 'd': 10, 'D': 10, 'h': 16, 'H': 16}[rest[0]]
	if base == 0 {
		p.fail("bad number base %q", s)
	}
	digits := rest[1:]
	if strings.ContainsAny(digits, "xXzZ?") {
		p.fail("x/z digits are outside the supported (two-state) subset: %q", s)
	}
	if base == 2 && len(digits) > 64 {
		n.Big = digits
		return n
	}
	v, err := strconv.ParseUint(digits, base, 64)
	if err != nil {
		if base == 16 {
			// wide hex: to binary digits
			var sb strings.Builder
			for _, c := range digits {
				d, e2 := strconv.ParseUint(string(c), 16, 8)
				if e2 != nil {
					p.fail("bad number %q", s)
				}
				sb.WriteString(fmt.Sprintf("%04b", d))
			}
			n.Big = sb.String()
			return n
		}
		p.fail("bad number %q", s)
	}
	// a sized literal keeps only its low Width bits (Verilog truncates 1'b10 to 1'b0)
	if n.Sized && n.Width < 64 {
		v &= uint64(1)<<uint(n.Width) - 1
	}
	n.Val = v
	return n
}
