package vlog

import (
	"fmt"
	"sort"
	"strings"
)

// Signal is a flattened net or variable.
type Signal struct {
	Name   string
	W      int
	Kind   string // input output wire reg integer
	IsReg  bool
	Depth  int // memory words (0: not a memory)
	MemLo  int
	Lsb    int
	Top    bool // port of the top module
	Driven string // "", "cont", "proc:<always index>", "init"

	hasPort, hasNet bool
}

type scope struct {
	prefix string
	mod    *Module
	params map[string]*Num
}

type flatAssign struct {
	sc       *scope
	lhs, rhs Expr
	rhsScope *scope // scope of rhs when different (port connections)
	line     int
}

type flatAlways struct {
	sc  *scope
	blk *Always
	idx int
}

type flatInitial struct {
	sc   *scope
	body Stmt
}

// Pin is the connection of a black-box instance port.
type Pin struct {
	Inst, Port string
	Dir        string
	W          int
	sc         *scope
	x          Expr
}

// Design is a flattened, elaborated design.
type Design struct {
	Mods     map[string]*Module
	Top      string
	Sigs     map[string]*Signal
	Order    []string
	assigns  []flatAssign
	always   []flatAlways
	initials []flatInitial
	BlackBox map[string]bool
	Pins     []*Pin // black-box pins
	drivers  map[string][]int // signal -> indices into assigns
	File     string
}

type ElabError struct{ Msg string }

func (e *ElabError) Error() string { return "ENCODING-FAILURE (elaboration): " + e.Msg }

func efail(format string, a ...interface{}) { panic(&ElabError{fmt.Sprintf(format, a...)}) }

// Elaborate flattens the design rooted at top. Modules named in blackBox are
// not descended into: their output pins become free variables.
func Elaborate(mods []*Module, top string, blackBox map[string]bool) (d *Design, err error) {
	defer func() {
		if r := recover(); r != nil {
			if ee, ok := r.(*ElabError); ok {
				err = ee
				return
			}
			panic(r)
		}
	}()
	d = &Design{Mods: map[string]*Module{}, Top: top, Sigs: map[string]*Signal{}, BlackBox: blackBox, drivers: map[string][]int{}}
	for _, m := range mods {
		if _, dup := d.Mods[m.Name]; dup {
			efail("module %s defined twice", m.Name)
		}
		d.Mods[m.Name] = m
	}
	tm, ok := d.Mods[top]
	if !ok {
		efail("top module %s is not defined", top)
	}
	d.flatten(&scope{prefix: "", mod: tm, params: map[string]*Num{}}, true)
	// driver bookkeeping
	for i, a := range d.assigns {
		for _, n := range d.lhsSignals(a.sc, a.lhs) {
			s := d.Sigs[n]
			if s.IsReg && s.Kind != "wire" {
				efail("line %d: reg %s is assigned continuously", a.line, n)
			}
			d.drivers[n] = append(d.drivers[n], i)
		}
	}
	for _, al := range d.always {
		for _, n := range d.stmtTargets(al.sc, al.blk.Body) {
			s := d.Sigs[n]
			if s == nil {
				continue
			}
			if s.Kind == "integer" {
				continue
			}
			if !s.IsReg {
				efail("line %d: %s is a net but is assigned procedurally", al.blk.Line, n)
			}
			tag := fmt.Sprintf("proc:%d", al.idx)
			if s.Driven != "" && s.Driven != tag && s.Driven != "init" {
				efail("register %s is assigned from more than one process", n)
			}
			s.Driven = tag
		}
	}
	for _, in := range d.initials {
		for _, n := range d.stmtTargets(in.sc, in.body) {
			if s := d.Sigs[n]; s != nil && s.Driven == "" {
				s.Driven = "init"
			}
		}
	}
	return d, nil
}

func (d *Design) constExpr(sc *scope, e Expr) int {
	v, ok := d.constVal(sc, e, nil)
	if !ok {
		efail("expression is not an elaboration-time constant in %s", sc.mod.Name)
	}
	return int(v)
}

func (d *Design) constVal(sc *scope, e Expr, loop map[string]uint64) (uint64, bool) {
	switch x := e.(type) {
	case *Num:
		if x.Big != "" {
			return 0, false
		}
		return x.Val, true
	case *Ident:
		if loop != nil {
			if v, ok := loop[sc.prefix+x.Name]; ok {
				return v, true
			}
		}
		if p, ok := sc.params[x.Name]; ok {
			return p.Val, true
		}
		return 0, false
	case *Binary:
		l, ok1 := d.constVal(sc, x.L, loop)
		r, ok2 := d.constVal(sc, x.R, loop)
		if !ok1 || !ok2 {
			return 0, false
		}
		switch x.Op {
		case "+":
			return l + r, true
		case "-":
			return l - r, true
		case "*":
			return l * r, true
		case "/":
			if r == 0 {
				return 0, false
			}
			return l / r, true
		case "<":
			return b2u(l < r), true
		case "<=":
			return b2u(l <= r), true
		case ">":
			return b2u(l > r), true
		case ">=":
			return b2u(l >= r), true
		case "==":
			return b2u(l == r), true
		case "!=":
			return b2u(l != r), true
		case "<<":
			return l << r, true
		case ">>":
			return l >> r, true
		}
	case *Unary:
		v, ok := d.constVal(sc, x.X, loop)
		if ok && x.Op == "-" {
			return -v, true
		}
	}
	return 0, false
}

func b2u(b bool) uint64 {
	if b {
		return 1
	}
	return 0
}

func (d *Design) declare(sc *scope, dl *Decl, top bool) {
	w, lsb := 1, 0
	if dl.Kind == "integer" {
		w = 32
	}
	if dl.Rng != nil {
		m, l := d.constExpr(sc, dl.Rng.Msb), d.constExpr(sc, dl.Rng.Lsb)
		if m < l {
			m, l = l, m
		}
		w, lsb = m-l+1, l
	}
	for _, n := range dl.Names {
		full := sc.prefix + n
		isReg := dl.Kind == "reg" || dl.IsReg || dl.Kind == "integer"
		isNowPort := dl.Kind == "input" || dl.Kind == "output" || dl.Kind == "inout"
		if old, ok := d.Sigs[full]; ok {
			// a port may be declared again as wire/reg of the same width (non-ANSI style)
			if (isNowPort && old.hasPort) || (!isNowPort && old.hasNet) {
				efail("line %d: %s declared twice in %s", dl.Line, n, sc.mod.Name)
			}
			if old.W != w {
				efail("line %d: %s redeclared with a different width (%d vs %d)", dl.Line, n, old.W, w)
			}
			if isNowPort {
				old.Kind = dl.Kind
				old.hasPort = true
			} else {
				old.hasNet = true
			}
			old.IsReg = old.IsReg || isReg
			continue
		}
		s := &Signal{Name: full, W: w, Kind: dl.Kind, IsReg: isReg, Lsb: lsb, Top: top, hasPort: isNowPort, hasNet: !isNowPort || dl.IsReg}
		if dl.Mem != nil {
			if r := dl.Mem[n]; r != nil {
				a, b := d.constExpr(sc, r.Msb), d.constExpr(sc, r.Lsb)
				if a > b {
					a, b = b, a
				}
				s.Depth, s.MemLo = b-a+1, a
			}
		}
		d.Sigs[full] = s
		d.Order = append(d.Order, full)
	}
}

func (d *Design) flatten(sc *scope, top bool) {
	m := sc.mod
	// parameters first, then declarations, then the rest
	for _, it := range m.Items {
		if lp, ok := it.(*Localparam); ok {
			n, isNum := lp.Val.(*Num)
			if !isNum {
				v, ok := d.constVal(sc, lp.Val, nil)
				if !ok {
					efail("localparam %s of %s is not constant", lp.Name, m.Name)
				}
				n = &Num{Width: 32, Val: v, Sized: true}
			}
			sc.params[lp.Name] = n
		}
	}
	for _, it := range m.Items {
		if dl, ok := it.(*Decl); ok {
			d.declare(sc, dl, top)
		}
	}
	for _, p := range m.Ports {
		if _, ok := d.Sigs[sc.prefix+p]; !ok {
			efail("port %s of module %s has no declaration", p, m.Name)
		}
	}
	for _, it := range m.Items {
		switch x := it.(type) {
		case *Decl:
			for n, e := range x.Init {
				d.initials = append(d.initials, flatInitial{sc, &Assign{LHS: &Ident{n}, RHS: e, Blocking: true}})
			}
		case *ContAssign:
			d.checkNames(sc, x.LHS)
			d.checkNames(sc, x.RHS)
			d.assigns = append(d.assigns, flatAssign{sc: sc, lhs: x.LHS, rhs: x.RHS, line: x.Line})
		case *Always:
			for _, e := range x.Edges {
				if _, ok := d.Sigs[sc.prefix+e]; !ok {
					efail("line %d: clock/reset %s is not declared in %s", x.Line, e, m.Name)
				}
			}
			d.checkStmt(sc, x.Body)
			d.always = append(d.always, flatAlways{sc, x, len(d.always)})
		case *Initial:
			d.checkStmt(sc, x.Body)
			d.initials = append(d.initials, flatInitial{sc, x.Body})
		case *Instance:
			d.instantiate(sc, x)
		}
	}
}

func (d *Design) instantiate(sc *scope, in *Instance) {
	sub, ok := d.Mods[in.Module]
	if !ok {
		efail("line %d: module %s instantiated in %s is not defined", in.Line, in.Module, sc.mod.Name)
	}
	if len(in.Conns) != len(sub.Ports) && (len(in.Conns) == 0 || in.Conns[0].Port == "") {
		efail("line %d: instance %s of %s has %d connections, the module has %d ports", in.Line, in.Name, in.Module, len(in.Conns), len(sub.Ports))
	}
	nsc := &scope{prefix: sc.prefix + in.Name + ".", mod: sub, params: map[string]*Num{}}
	black := d.BlackBox[in.Module]
	if black {
		// declare only the ports
		for _, it := range sub.Items {
			if lp, ok := it.(*Localparam); ok {
				if n, ok := lp.Val.(*Num); ok {
					nsc.params[lp.Name] = n
				}
			}
		}
		for _, it := range sub.Items {
			if dl, ok := it.(*Decl); ok && (dl.Kind == "input" || dl.Kind == "output" || dl.Kind == "inout") {
				d.declare(nsc, dl, false)
			}
		}
	} else {
		d.flatten(nsc, false)
	}
	for i, c := range in.Conns {
		port := c.Port
		if port == "" {
			port = sub.Ports[i]
		} else {
			found := false
			for _, p := range sub.Ports {
				if p == port {
					found = true
				}
			}
			if !found {
				efail("line %d: module %s has no port %s", in.Line, in.Module, port)
			}
		}
		ps := d.Sigs[nsc.prefix+port]
		if ps == nil {
			efail("line %d: port %s of %s is not declared", in.Line, port, in.Module)
		}
		if c.X == nil {
			continue
		}
		d.checkNames(sc, c.X)
		switch ps.Kind {
		case "input":
			if black {
				d.Pins = append(d.Pins, &Pin{Inst: sc.prefix + in.Name, Port: port, Dir: "input", W: ps.W, sc: sc, x: c.X})
				ps.Driven = "cont"
			}
			d.assigns = append(d.assigns, flatAssign{sc: nsc, lhs: &Ident{port}, rhs: c.X, rhsScope: sc, line: in.Line})
		case "output":
			if black {
				d.Pins = append(d.Pins, &Pin{Inst: sc.prefix + in.Name, Port: port, Dir: "output", W: ps.W, sc: sc, x: c.X})
			}
			d.assigns = append(d.assigns, flatAssign{sc: sc, lhs: c.X, rhs: &Ident{port}, rhsScope: nsc, line: in.Line})
		default:
			efail("line %d: inout port %s is outside the supported subset", in.Line, port)
		}
	}
}

func (d *Design) checkNames(sc *scope, e Expr) {
	switch x := e.(type) {
	case nil, *Num:
	case *Ident:
		if _, ok := sc.params[x.Name]; ok {
			return
		}
		if _, ok := d.Sigs[sc.prefix+x.Name]; !ok {
			efail("identifier %s is not declared in module %s", x.Name, sc.mod.Name)
		}
	case *Index:
		d.checkNames(sc, x.Base)
		d.checkNames(sc, x.Idx)
	case *Slice:
		d.checkNames(sc, x.Base)
		d.checkNames(sc, x.Msb)
		d.checkNames(sc, x.Lsb)
	case *Concat:
		for _, p := range x.Parts {
			d.checkNames(sc, p)
		}
	case *Repl:
		d.checkNames(sc, x.N)
		d.checkNames(sc, x.X)
	case *Unary:
		d.checkNames(sc, x.X)
	case *Binary:
		d.checkNames(sc, x.L)
		d.checkNames(sc, x.R)
	case *Ternary:
		d.checkNames(sc, x.C)
		d.checkNames(sc, x.A)
		d.checkNames(sc, x.B)
	default:
		efail("unknown expression node %T", e)
	}
}

func (d *Design) checkStmt(sc *scope, s Stmt) {
	switch x := s.(type) {
	case nil, *Null:
	case *Block:
		for _, y := range x.Stmts {
			d.checkStmt(sc, y)
		}
	case *If:
		d.checkNames(sc, x.Cond)
		d.checkStmt(sc, x.Then)
		d.checkStmt(sc, x.Else)
	case *Case:
		d.checkNames(sc, x.Sel)
		for _, it := range x.Items {
			for _, e := range it.Exprs {
				d.checkNames(sc, e)
			}
			d.checkStmt(sc, it.Body)
		}
	case *Assign:
		d.checkNames(sc, x.LHS)
		d.checkNames(sc, x.RHS)
	case *For:
		d.checkStmt(sc, x.Init)
		d.checkNames(sc, x.Cond)
		d.checkStmt(sc, x.Step)
		d.checkStmt(sc, x.Body)
	default:
		efail("unknown statement node %T", s)
	}
}

func (d *Design) lhsSignals(sc *scope, e Expr) []string {
	switch x := e.(type) {
	case *Ident:
		return []string{sc.prefix + x.Name}
	case *Index:
		return d.lhsSignals(sc, x.Base)
	case *Slice:
		return d.lhsSignals(sc, x.Base)
	case *Concat:
		var r []string
		for _, p := range x.Parts {
			r = append(r, d.lhsSignals(sc, p)...)
		}
		return r
	}
	efail("unsupported assignment target %T", e)
	return nil
}

func (d *Design) stmtTargets(sc *scope, s Stmt) []string {
	set := map[string]bool{}
	var rec func(Stmt)
	rec = func(s Stmt) {
		switch x := s.(type) {
		case *Block:
			for _, y := range x.Stmts {
				rec(y)
			}
		case *If:
			rec(x.Then)
			rec(x.Else)
		case *Case:
			for _, it := range x.Items {
				rec(it.Body)
			}
		case *Assign:
			for _, n := range d.lhsSignals(sc, x.LHS) {
				set[n] = true
			}
		case *For:
			rec(x.Body)
		}
	}
	rec(s)
	var r []string
	for n := range set {
		r = append(r, n)
	}
	sort.Strings(r)
	return r
}

// StateSignals lists registers and memories that hold state (assigned in a
// clocked block or only initialised).
func (d *Design) StateSignals() []*Signal {
	var r []*Signal
	for _, n := range d.Order {
		s := d.Sigs[n]
		if s.Kind == "integer" {
			continue
		}
		if strings.HasPrefix(s.Driven, "proc:") || s.Driven == "init" {
			r = append(r, s)
		}
	}
	return r
}

// TopInputs lists the input ports of the top module.
func (d *Design) TopInputs() []*Signal {
	var r []*Signal
	for _, n := range d.Order {
		s := d.Sigs[n]
		if s.Top && s.Kind == "input" {
			r = append(r, s)
		}
	}
	return r
}
