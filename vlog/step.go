package vlog

import (
	"fmt"

	"verif/smt"
)

func (e *Eval) loopVal(name string) (uint64, bool) {
	if e.loop == nil {
		return 0, false
	}
	v, ok := e.loop[name]
	return v, ok
}

type pending struct {
	regs map[string]*smt.Term
	mems map[string][]*smt.Term
}

// Step computes the state after one rising clock edge (all clocked blocks fire;
// asynchronous resets are treated as synchronous with priority, as written).
func (e *Eval) Step() (next *State, err error) {
	defer func() {
		if r := recover(); r != nil {
			if ee, ok := r.(*ElabError); ok {
				err = ee
				return
			}
			panic(r)
		}
	}()
	p := &pending{regs: map[string]*smt.Term{}, mems: map[string][]*smt.Term{}}
	for _, al := range e.D.always {
		e.loop = map[string]uint64{}
		e.exec(al.sc, al.blk.Body, e.St.T, p, false)
	}
	e.loop = nil
	next = e.Cur.Clone()
	for k, v := range p.regs {
		next.Regs[k] = v
	}
	for k, v := range p.mems {
		next.Mems[k] = v
	}
	return next, nil
}

// ApplyInitial executes the initial blocks on the current state (power-on values).
func (e *Eval) ApplyInitial() (err error) {
	defer func() {
		if r := recover(); r != nil {
			if ee, ok := r.(*ElabError); ok {
				err = ee
				return
			}
			panic(r)
		}
	}()
	p := &pending{regs: map[string]*smt.Term{}, mems: map[string][]*smt.Term{}}
	for _, in := range e.D.initials {
		e.loop = map[string]uint64{}
		e.exec(in.sc, in.body, e.St.T, p, true)
		// blocking semantics between initial statements: commit immediately
		for k, v := range p.regs {
			e.Cur.Regs[k] = v
		}
		for k, v := range p.mems {
			e.Cur.Mems[k] = v
		}
	}
	e.loop = nil
	return nil
}

func (e *Eval) exec(sc *scope, s Stmt, g *smt.Term, p *pending, initial bool) {
	st := e.St
	if g.IsFalse() {
		return
	}
	switch x := s.(type) {
	case nil, *Null:
	case *Block:
		for _, y := range x.Stmts {
			e.exec(sc, y, g, p, initial)
		}
	case *If:
		c := e.toBool(e.Expr(sc, x.Cond, 0))
		e.exec(sc, x.Then, st.And(g, c), p, initial)
		if x.Else != nil {
			e.exec(sc, x.Else, st.And(g, st.Not(c)), p, initial)
		}
	case *Case:
		w := e.selfW(sc, x.Sel)
		for _, it := range x.Items {
			for _, ex := range it.Exprs {
				w = max(w, e.selfW(sc, ex))
			}
		}
		sel := st.Resize(e.Expr(sc, x.Sel, w), w, false)
		none := g
		var def Stmt
		hasDef := false
		for _, it := range x.Items {
			if it.Exprs == nil {
				def, hasDef = it.Body, true
				continue
			}
			m := st.F
			for _, ex := range it.Exprs {
				m = st.Or(m, st.Eq(sel, st.Resize(e.Expr(sc, ex, w), w, false)))
			}
			e.exec(sc, it.Body, st.And(none, m), p, initial)
			none = st.And(none, st.Not(m))
		}
		if hasDef {
			e.exec(sc, def, none, p, initial)
		}
	case *For:
		name := sc.prefix + x.Init.LHS.(*Ident).Name
		v, ok := e.D.constVal(sc, x.Init.RHS, e.loop)
		if !ok {
			efail("for loop with a non-constant initial value")
		}
		e.loop[name] = v
		for n := 0; ; n++ {
			if n > 4096 {
				efail("for loop does not terminate within 4096 iterations")
			}
			c, ok := e.D.constVal(sc, x.Cond, e.loop)
			if !ok {
				efail("for loop with a non-constant condition")
			}
			if c == 0 {
				break
			}
			e.exec(sc, x.Body, g, p, initial)
			nv, ok := e.D.constVal(sc, x.Step.RHS, e.loop)
			if !ok {
				efail("for loop with a non-constant step")
			}
			e.loop[name] = nv
		}
		delete(e.loop, name)
	case *Assign:
		if id, ok := x.LHS.(*Ident); ok {
			if s := e.D.Sigs[sc.prefix+id.Name]; s != nil && s.Kind == "integer" {
				v, ok := e.D.constVal(sc, x.RHS, e.loop)
				if !ok {
					efail("line %d: integer %s assigned a non-constant value", x.Line, id.Name)
				}
				e.loop[sc.prefix+id.Name] = v
				return
			}
		}
		lw := e.selfW(sc, x.LHS)
		val := st.Resize(e.Expr(sc, x.RHS, lw), lw, false)
		e.assign(sc, x.LHS, val, g, p)
		if x.Blocking && !initial {
			// a blocking assignment to a state register inside a clocked block would be visible to later statements
			efail("line %d: blocking assignment to a register in a clocked block is outside the supported subset", x.Line)
		}
	default:
		efail("statement %T is outside the supported subset", s)
	}
}

func (e *Eval) curReg(name string, p *pending) *smt.Term {
	if v, ok := p.regs[name]; ok {
		return v
	}
	if v, ok := e.Cur.Regs[name]; ok {
		return v
	}
	s := e.D.Sigs[name]
	v := e.fresh(s.W)
	e.Cur.Regs[name] = v
	return v
}

func (e *Eval) assign(sc *scope, lhs Expr, val *smt.Term, g *smt.Term, p *pending) {
	st := e.St
	switch x := lhs.(type) {
	case *Ident:
		name := sc.prefix + x.Name
		s := e.D.Sigs[name]
		if s == nil {
			efail("assignment to undeclared %s", x.Name)
		}
		if s.Depth > 0 {
			efail("assignment to a whole memory %s", name)
		}
		old := e.curReg(name, p)
		p.regs[name] = st.Ite(g, st.Resize(val, s.W, false), old)
	case *Index:
		id := x.Base.(*Ident)
		name := sc.prefix + id.Name
		s := e.D.Sigs[name]
		if s == nil {
			efail("assignment to undeclared %s", id.Name)
		}
		if s.Depth > 0 {
			m, ok := p.mems[name]
			if !ok {
				cur := e.Cur.Mems[name]
				if cur == nil {
					cur = make([]*smt.Term, s.Depth)
					for i := range cur {
						cur[i] = e.fresh(s.W)
					}
					e.Cur.Mems[name] = cur
				}
				m = append([]*smt.Term{}, cur...)
			}
			if c, ok := e.D.constVal(sc, x.Idx, e.loop); ok {
				k := int(c) - s.MemLo
				if k >= 0 && k < len(m) {
					m[k] = st.Ite(g, st.Resize(val, s.W, false), m[k])
				}
			} else {
				idx := e.Expr(sc, x.Idx, 0)
				for k := range m {
					addr := uint64(k + s.MemLo)
					if idx.W < 64 && addr >= uint64(1)<<uint(idx.W) {
						continue
					}
					hit := st.And(g, st.Eq(idx, st.BV(addr, idx.W)))
					m[k] = st.Ite(hit, st.Resize(val, s.W, false), m[k])
				}
			}
			p.mems[name] = m
			return
		}
		// single bit of a vector
		c, ok := e.D.constVal(sc, x.Idx, e.loop)
		if !ok {
			efail("assignment to a bit selected by a non-constant index")
		}
		e.assignBits(name, int(c)-s.Lsb, int(c)-s.Lsb, val, g, p)
	case *Slice:
		id := x.Base.(*Ident)
		name := sc.prefix + id.Name
		s := e.D.Sigs[name]
		if s == nil {
			efail("assignment to undeclared %s", id.Name)
		}
		e.assignBits(name, e.D.constExpr(sc, x.Msb)-s.Lsb, e.D.constExpr(sc, x.Lsb)-s.Lsb, val, g, p)
	case *Concat:
		off := val.W
		for _, part := range x.Parts {
			w := e.selfW(sc, part)
			off -= w
			if off < 0 {
				efail("concatenation target wider than the value")
			}
			e.assign(sc, part, st.Extract(off+w-1, off, val), g, p)
		}
	default:
		efail("assignment target %T is outside the supported subset", lhs)
	}
}

func (e *Eval) assignBits(name string, msb, lsb int, val *smt.Term, g *smt.Term, p *pending) {
	st := e.St
	s := e.D.Sigs[name]
	if lsb < 0 || msb >= s.W || msb < lsb {
		efail("part-select [%d:%d] outside %s", msb, lsb, name)
	}
	old := e.curReg(name, p)
	v := st.Resize(val, msb-lsb+1, false)
	var nw *smt.Term = v
	if lsb > 0 {
		nw = st.Concat(nw, st.Extract(lsb-1, 0, old))
	}
	if msb < s.W-1 {
		nw = st.Concat(st.Extract(s.W-1, msb+1, old), nw)
	}
	p.regs[name] = st.Ite(g, nw, old)
}

// PinExpr evaluates the expression connected to a black-box pin.
func (e *Eval) PinExpr(p *Pin) *smt.Term {
	t := e.Expr(p.sc, p.x, p.W)
	return e.St.Resize(t, p.W, false)
}

// Describe is a short human-readable summary of the design.
func (d *Design) Describe() string {
	return fmt.Sprintf("top=%s signals=%d assigns=%d always=%d initial=%d", d.Top, len(d.Sigs), len(d.assigns), len(d.always), len(d.initials))
}
