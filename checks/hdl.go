package checks

import (
	"fmt"
	"os"
	"os/exec"
	"path/filepath"
	"sort"
	"strings"
	"sync"
	"time"

	"verif/smt"
	"verif/vlog"
)

var nativeOnce sync.Once
var nativeErr error

// BuildNative (re)builds cmd/bmnative against /repo's current working tree.
func BuildNative() error {
	nativeOnce.Do(func() {
		cmd := exec.Command("go", "build", "-o", filepath.Join(VerifDir, "bin", "bmnative"), "./cmd/bmnative")
		cmd.Dir = VerifDir
		cmd.Env = append(os.Environ(), "GOFLAGS=-mod=mod", "GOPROXY=off", "GOSUMDB=off", "GOTOOLCHAIN=local")
		out, err := cmd.CombinedOutput()
		if err != nil {
			nativeErr = fmt.Errorf("building bmnative against /repo failed: %v\n%s", err, tail(string(out), 20))
		}
	})
	return nativeErr
}

// Native runs bmnative in a private scratch directory and returns its stdout.
func Native(args ...string) (string, error) {
	if err := BuildNative(); err != nil {
		return "", err
	}
	work := filepath.Join(VerifDir, ".work", fmt.Sprintf("native-%d-%d", os.Getpid(), time.Now().UnixNano()))
	os.MkdirAll(work, 0o755)
	defer os.RemoveAll(work)
	cmd := exec.Command(filepath.Join(VerifDir, "bin", "bmnative"), args...)
	cmd.Dir = work
	var stderr strings.Builder
	cmd.Stderr = &stderr
	out, err := cmd.Output()
	if err != nil {
		return "", fmt.Errorf("bmnative %s: %v: %s", strings.Join(args, " "), err, tail(stderr.String(), 5))
	}
	return string(out), nil
}

// ParseFiles splits bmnative output at //@@FILE markers and parses every part.
func ParseFiles(src string) ([]*vlog.Module, map[string]string, error) {
	info := map[string]string{}
	var mods []*vlog.Module
	if !strings.Contains(src, "//@@FILE ") {
		ms, err := vlog.Parse("hdl", src)
		return ms, info, err
	}
	for _, line := range strings.Split(src, "\n") {
		if strings.HasPrefix(line, "//@@INFO ") {
			for _, kv := range strings.Fields(strings.TrimPrefix(line, "//@@INFO ")) {
				if i := strings.IndexByte(kv, '='); i > 0 {
					info[kv[:i]] = kv[i+1:]
				}
			}
		}
	}
	for _, part := range strings.Split(src, "//@@FILE ")[1:] {
		nl := strings.IndexByte(part, '\n')
		ms, err := vlog.Parse(part[:nl], part[nl:])
		if err != nil {
			return nil, info, err
		}
		mods = append(mods, ms...)
	}
	return mods, info, nil
}

// TermObl is an obligation stated directly over smt terms: Hyp ∧ ¬Concl must be unsat.
type TermObl struct {
	Tag   string
	Kind  string // assert | reach
	Hyp   *smt.Term
	Concl *smt.Term
}

// DecideTerms decides obligations with one solver; returns results with models (variable name -> value).
func DecideTerms(st *smt.Store, sol *smt.Solver, obls []TermObl, modelVars []*smt.Term) []OblResult {
	var res []OblResult
	for _, o := range obls {
		r := OblResult{Kind: o.Kind, Tag: o.Tag, Pos: "hdl"}
		s0 := sol.Seconds
		if o.Kind == "reach" {
			switch sol.Check(o.Hyp) {
			case smt.Sat:
				r.Result = "reachable"
			case smt.Unsat:
				r.Result = "unreachable"
			default:
				r.Result = "inconclusive"
			}
		} else {
			switch sol.Check(o.Hyp, st.Not(o.Concl)) {
			case smt.Unsat:
				r.Result = "holds"
			case smt.Sat:
				r.Result = "violated"
				neg := st.And(o.Hyp, st.Not(o.Concl))
				vars := termVars(neg)
				if m, err := sol.Model(vars); err == nil {
					r.Model = map[string]uint64{}
					for t, v := range m {
						r.Model[t.Name] = v
					}
					if v, ok := st.Eval(neg, m, map[*smt.Term]uint64{}); ok && v == 1 {
						r.Confirmed = true
					}
				}
			default:
				r.Result = "inconclusive"
			}
		}
		r.Secs = sol.Seconds - s0
		res = append(res, r)
	}
	return res
}

// WriteTrace stores a counterexample of an HDL obligation (there is no native
// Verilog simulator in this image: the trace is the model itself, re-evaluated
// by /verif's own Verilog semantics).
func WriteTrace(prop string, n int, cfg string, ob *OblResult, extra map[string]interface{}) string {
	dir := filepath.Join(VerifDir, "replay")
	os.MkdirAll(dir, 0o755)
	path := filepath.Join(dir, fmt.Sprintf("%s-%d.json", prop, n))
	keys := make([]string, 0, len(ob.Model))
	for k := range ob.Model {
		keys = append(keys, k)
	}
	sort.Strings(keys)
	var sb strings.Builder
	sb.WriteString("{\n \"property\": \"" + prop + "\",\n \"config\": \"" + strings.ReplaceAll(cfg, "\"", "'") + "\",\n \"assert\": \"" + ob.Tag + "\",\n \"kind\": \"hdl-trace\",\n \"vector\": {\n")
	for i, k := range keys {
		c := ","
		if i == len(keys)-1 {
			c = ""
		}
		fmt.Fprintf(&sb, "  %q: %d%s\n", k, ob.Model[k], c)
	}
	sb.WriteString(" }\n}\n")
	os.WriteFile(path, []byte(sb.String()), 0o644)
	return path
}
