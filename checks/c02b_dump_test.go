package checks

import (
	"fmt"
	"math/rand"
	"os"
	"testing"
)

func TestDumpC02bSource(t *testing.T) {
	if os.Getenv("C02B_DUMP") == "" {
		t.Skip()
	}
	var i int
	fmt.Sscan(os.Getenv("C02B_DUMP"), &i)
	pr := rand.New(rand.NewSource(int64(Seed()*104729 + i)))
	p := c05Params{seed: Seed()*200000 + i, rsize: []int{8, 16}[pr.Intn(2)], nregs: 2 + pr.Intn(3), nin: pr.Intn(3), nout: 1 + pr.Intn(2),
		nlines: 6 + pr.Intn(7), nmacros: pr.Intn(2)}
	fmt.Println(c05Source(p))
}
