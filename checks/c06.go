package checks

import (
	"fmt"
	"math/rand"
	"os"
	"path/filepath"
	"strings"

	"verif/symgo"
)

type c06Frag struct {
	name       string
	nin, nout  int
	resin, out string
	body       []string
}

var c06Lib = []c06Frag{
	{"addone", 1, 1, "r0", "r0", []string{"inc r0"}},
	{"subone", 1, 1, "r0", "r0", []string{"dec r0"}},
	{"sum2", 2, 1, "r0:r1", "r0", []string{"add r0, r1"}},
	{"dbl", 1, 1, "r0", "r0", []string{"cpy r1, r0", "add r0, r1"}},
	{"fan2", 1, 2, "r0", "r0:r1", []string{"cpy r1, r0", "inc r1"}},
	{"swapsum", 2, 2, "r0:r1", "r1:r0", []string{"add r1, r0"}},
	{"sumb", 2, 1, "r0:r1", "r1", []string{"add r1, r0"}},
	{"dbl3", 1, 1, "r0", "r0", []string{"cpy r3, r0", "add r0, r3"}}, // scratch register with a gap in the numbering
	{"mul2", 2, 1, "r0:r1", "r0", []string{"mult r0, r1"}},           // 8-bit graphs only (last entry)
}

type c06Inst struct {
	name string
	frag c06Frag
	src  []string // per input port: xK or name.P
}

type c06Graph struct {
	insts []c06Inst
	outs  []string // sources of the external outputs
	nin   int
}

func c06Gen(seed, n, rsize int) c06Graph {
	r := rand.New(rand.NewSource(int64(seed)))
	var g c06Graph
	var free []string // unused output ports of earlier instances
	var used []string // output ports that already feed a link (may feed more: fan-out of one port)
	usedMul := false
	for i := 0; i < n; i++ {
		nlib := len(c06Lib)
		if rsize != 8 {
			nlib--
		}
		f := c06Lib[r.Intn(nlib)]
		if f.name == "mul2" {
			if usedMul {
				f = c06Lib[r.Intn(len(c06Lib)-1)] // one multiplication per graph: products of products do not finish in the solver
			}
			usedMul = true
		}
		in := c06Inst{name: fmt.Sprintf("f%d", i), frag: f}
		for p := 0; p < f.nin; p++ {
			switch k := r.Intn(7); {
			case k < 3 && len(free) > 0:
				j := r.Intn(len(free))
				in.src = append(in.src, free[j])
				used = append(used, free[j])
				free = append(free[:j], free[j+1:]...)
			case (k == 3 || k == 4) && len(used) > 0:
				in.src = append(in.src, used[r.Intn(len(used))])
			default:
				in.src = append(in.src, fmt.Sprintf("x%d", g.nin))
				g.nin++
			}
		}
		for p := 0; p < f.nout; p++ {
			free = append(free, fmt.Sprintf("%s.%d", in.name, p))
		}
		g.insts = append(g.insts, in)
	}
	// an already consumed port may also be an external output
	if len(used) > 0 && r.Intn(2) == 0 {
		free = append(free, used[r.Intn(len(used))])
	}
	g.outs = free
	return g
}

// c06Parse builds a graph from its spec text (the fixed shapes of the family)
func c06Parse(spec string) c06Graph {
	var g c06Graph
	parts := strings.Split(spec, "|")
	for _, inst := range strings.Split(parts[0], ";") {
		eq := strings.Split(inst, "=")
		fa := strings.Split(eq[1], ":")
		in := c06Inst{name: eq[0]}
		for _, f := range c06Lib {
			if f.name == fa[0] {
				in.frag = f
			}
		}
		in.src = strings.Split(fa[1], ",")
		for _, s := range in.src {
			if s[0] == 'x' {
				g.nin++
			}
		}
		g.insts = append(g.insts, in)
	}
	g.outs = strings.Split(parts[1], ",")
	return g
}

var c06Shapes = []string{
	"f0=addone:x0;f1=addone:f0.0;f2=dbl:f0.0;f3=sum2:f1.0,f2.0|f3.0,f0.0",     // diamond, its source also an external output
	"f0=sumb:x0,x1;f1=dbl:f0.0;f2=addone:f1.0|f2.0",                           // chain through fragments whose result register differs from their input register
	"f0=fan2:x0;f1=addone:f0.0;f2=subone:f0.1;f3=swapsum:f1.0,f2.0|f3.0,f3.1", // fork and join
	"f0=sum2:x0,x1;f1=fan2:f0.0;f2=sumb:f1.0,f0.0;f3=dbl:f1.1|f2.0,f3.0",      // one port feeding two instances
	"f0=addone:x0;f1=addone:x1;f2=dbl3:x2;f3=sum2:f0.0,f1.0|f3.0,f2.0",        // two internal links next to a fragment whose registers leave a gap
}

func (g c06Graph) spec() string {
	var parts []string
	for _, in := range g.insts {
		parts = append(parts, in.name+"="+in.frag.name+":"+strings.Join(in.src, ","))
	}
	return strings.Join(parts, ";") + "|" + strings.Join(g.outs, ",")
}

// blocks: partition of the instance indices, each block in topological (= index) order
func (g c06Graph) source(rsize int, blocks [][]int) string {
	var sb strings.Builder
	used := map[string]bool{}
	for _, in := range g.insts {
		if used[in.frag.name] {
			continue
		}
		used[in.frag.name] = true
		fmt.Fprintf(&sb, "%%fragment %s resin:%s resout:%s\n", in.frag.name, in.frag.resin, in.frag.out)
		for _, l := range in.frag.body {
			sb.WriteString("        " + l + "\n")
		}
		sb.WriteString("%endfragment\n")
	}
	fmt.Fprintf(&sb, "%%meta bmdef global registersize:%d\n%%meta bmdef global iomode: sync\n", rsize)
	for _, in := range g.insts {
		fmt.Fprintf(&sb, "%%meta fidef %s fragment: %s\n", in.name, in.frag.name)
	}
	nl := 0
	link := func(a, b string) {
		fmt.Fprintf(&sb, "%%meta filinkdef l%d type:fl\n%%meta filinkatt l%d %s\n%%meta filinkatt l%d %s\n", nl, nl, a, nl, b)
		nl++
	}
	end := func(src string) string {
		if src[0] == 'x' {
			return "fi:ext, type:input, index:" + src[1:]
		}
		f := strings.Split(src, ".")
		return "fi:" + f[0] + ", type:output, index:" + f[1]
	}
	for _, in := range g.insts {
		for p, s := range in.src {
			link(end(s), fmt.Sprintf("fi:%s, type:input, index:%d", in.name, p))
		}
	}
	for k, s := range g.outs {
		link(end(s), fmt.Sprintf("fi:ext, type:output, index:%d", k))
	}
	for b, blk := range blocks {
		var names []string
		for _, i := range blk {
			names = append(names, g.insts[i].name)
		}
		fmt.Fprintf(&sb, "%%meta cpdef cp%d fragcollapse:%s\n", b, strings.Join(names, ":"))
	}
	return sb.String()
}

// convex 2-block partitions (no edges in both directions between the blocks), plus all-separate and all-collapsed
func (g c06Graph) partitions() [][][]int {
	n := len(g.insts)
	idx := map[string]int{}
	for i, in := range g.insts {
		idx[in.name] = i
	}
	var res [][][]int
	all := make([]int, n)
	var sep [][]int
	for i := range all {
		all[i] = i
		sep = append(sep, []int{i})
	}
	res = append(res, [][]int{all})
	if n > 1 {
		res = append(res, sep)
	}
	for mask := 1; mask < 1<<uint(n-1); mask++ { // instance n-1 always in block B: each split once
		inA := func(i int) bool { return mask>>uint(i)&1 == 1 }
		ab, ba := false, false
		for i, in := range g.insts {
			for _, s := range in.src {
				if s[0] == 'x' {
					continue
				}
				j := idx[strings.Split(s, ".")[0]]
				if inA(j) && !inA(i) {
					ab = true
				}
				if !inA(j) && inA(i) {
					ba = true
				}
			}
		}
		if ab && ba {
			continue
		}
		var a, b []int
		for i := 0; i < n; i++ {
			if inA(i) {
				a = append(a, i)
			} else {
				b = append(b, i)
			}
		}
		if len(a) == n || len(b) == n || (len(a) == 1 && len(b) == 1) {
			continue
		}
		if ba {
			a, b = b, a
		}
		res = append(res, [][]int{a, b})
	}
	return res
}

// c06IODeadlock decides, on the emitted programs alone, whether the blocking handshakes can complete once: every
// processor performs its i2rw/r2owa in program order, a link transfers when its producer is at the send and its
// consumer at the receive, external ports are always ready. true = the processors wait for each other forever
// (the producer offers its values in another order than the consumer takes them).
func c06IODeadlock(cps []map[string]string, inl, outl []string, links []int) bool {
	type ev struct {
		send bool
		port string // internal endpoint name pKiN / pKoN
	}
	bits := func(n int) int {
		b := 0
		for 1<<uint(b) < n {
			b++
		}
		if b == 0 {
			b = 1
		}
		return b
	}
	var progs [][]ev
	for k, kv := range cps {
		ops := strings.Split(kv["ops"], ",")
		ob := bits(len(ops))
		var R, N, M int
		fmt.Sscan(kv["R"], &R)
		fmt.Sscan(kv["N"], &N)
		fmt.Sscan(kv["M"], &M)
		var evs []ev
		for _, w := range strings.Split(kv["rom"], ",") {
			id := 0
			for _, c := range w[:ob] {
				id = id<<1 | int(c-'0')
			}
			if id >= len(ops) {
				continue
			}
			field := func(from, n int) int {
				v := 0
				for _, c := range w[from : from+n] {
					v = v<<1 | int(c-'0')
				}
				return v
			}
			switch ops[id] {
			case "i2rw":
				evs = append(evs, ev{false, fmt.Sprintf("p%di%d", k, field(ob+R, bits(N)))})
			case "r2owa":
				evs = append(evs, ev{true, fmt.Sprintf("p%do%d", k, field(ob+R, bits(M)))})
			}
		}
		progs = append(progs, evs)
	}
	// peer of an endpoint through the link table ("" = external, always ready)
	peerOfIn := map[string]string{}
	peerOfOut := map[string][]string{}
	for i, l := range links {
		if l < 0 || i >= len(inl) || l >= len(outl) {
			continue
		}
		peerOfIn[inl[i]] = outl[l]
		peerOfOut[outl[l]] = append(peerOfOut[outl[l]], inl[i])
	}
	pos := make([]int, len(progs))
	for {
		progress, done := false, true
		for k := range progs {
			if pos[k] >= len(progs[k]) {
				continue
			}
			done = false
			e := progs[k][pos[k]]
			ready := false
			if !e.send {
				src := peerOfIn[e.port]
				if src == "" || src[0] == 'i' {
					ready = true
				} else {
					var q int
					fmt.Sscanf(src, "p%d", &q)
					ready = pos[q] < len(progs[q]) && progs[q][pos[q]].send && progs[q][pos[q]].port == src
				}
			} else {
				ready = true
				for _, dst := range peerOfOut[e.port] {
					if dst[0] == 'o' {
						continue
					}
					var q int
					fmt.Sscanf(dst, "p%d", &q)
					if !(pos[q] < len(progs[q]) && !progs[q][pos[q]].send && progs[q][pos[q]].port == dst) {
						ready = false
					}
				}
				if ready {
					for _, dst := range peerOfOut[e.port] {
						if dst[0] != 'o' {
							var q int
							fmt.Sscanf(dst, "p%d", &q)
							pos[q]++
						}
					}
				}
			}
			if !e.send && ready {
				src := peerOfIn[e.port]
				if src != "" && src[0] == 'p' {
					continue // advanced together with its producer
				}
			}
			if ready {
				pos[k]++
				progress = true
			}
		}
		if done {
			return false
		}
		if !progress {
			return true
		}
	}
}

func C06(tier string) int {
	h := Harness{File: "c06.go", Extra: []string{"lib_emitted.go"}, Pkg: "pkg/bondmachine"}
	ngraphs := 10
	if tier == "thorough" {
		ngraphs = 60
	}
	var errs []string
	if err := BuildNative(); err != nil {
		errs = append(errs, err.Error())
	}
	work := filepath.Join(VerifDir, ".work", fmt.Sprintf("c06-%d", os.Getpid()))
	os.MkdirAll(work, 0o755)
	defer os.RemoveAll(work)
	var cfgs []Config
	var rejections []string
	nparts := 0
	for gi := 0; gi < ngraphs+len(c06Shapes) && len(errs) == 0; gi++ {
		n := 2 + gi%4
		rsize := []int{8, 16}[gi%2]
		var g c06Graph
		if gi < len(c06Shapes) {
			g = c06Parse(c06Shapes[gi])
			n = len(g.insts)
		} else {
			g = c06Gen(Seed()*10007+gi, n, rsize)
		}
		collapsedAccepted := false
		for pi, blocks := range g.partitions() {
			nparts++
			text := g.source(rsize, blocks)
			f := filepath.Join(work, fmt.Sprintf("g%d_p%d.basm", gi, pi))
			os.WriteFile(f, []byte(text), 0o644)
			out, err := Native("basm", f)
			name := fmt.Sprintf("graph #%d (%s) Rsize=%d partition=%v", gi, g.spec(), rsize, blocks)
			if err != nil {
				errs = append(errs, name+": "+err.Error())
				continue
			}
			if k := strings.Index(out, "BASM-ERROR"); k >= 0 {
				msg := out[k:]
				if j := strings.IndexByte(msg, '\n'); j >= 0 {
					msg = msg[:j]
				}
				if pi > 0 && collapsedAccepted {
					// the same graph on one processor was accepted: refusing another placement of it is a difference
					// between partitions, not a source outside the language
					cfgs = append(cfgs, Config{Name: name + " REJECTED: " + msg, Func: "zzC06Rejected", Args: []Arg{S(msg)}})
					continue
				}
				rejections = append(rejections, name+": "+msg)
				continue
			}
			if pi == 0 {
				collapsedAccepted = true
			}
			var cps []string
			var cpkv []map[string]string
			var inLine, outLine, linkLine string
			for _, line := range strings.Split(out, "\n") {
				switch {
				case strings.HasPrefix(line, "IN "):
					inLine = strings.TrimPrefix(line, "IN ")
				case strings.HasPrefix(line, "OUT "):
					outLine = strings.TrimPrefix(line, "OUT ")
				case strings.HasPrefix(line, "LINKS "):
					linkLine = strings.Trim(strings.TrimPrefix(line, "LINKS "), "[]")
				case strings.HasPrefix(line, "CP "):
					kv := map[string]string{}
					for _, f := range strings.Fields(line)[2:] {
						if j := strings.IndexByte(f, '='); j > 0 {
							kv[f[:j]] = f[j+1:]
						}
					}
					cps = append(cps, fmt.Sprintf("%s:%s:%s:%s:%s:%s|%s|%s", kv["R"], kv["N"], kv["M"], kv["L"], kv["O"], kv["wordsize"], kv["ops"], kv["rom"]))
					cpkv = append(cpkv, kv)
				}
			}
			var lk []int
			for _, f := range strings.Fields(linkLine) {
				var v int
				fmt.Sscan(f, &v)
				lk = append(lk, v)
			}
			name += fmt.Sprintf(" io-order-deadlock=%v", c06IODeadlock(cpkv, strings.Split(inLine, ","), strings.Split(outLine, ","), lk))
			T := 30 + 14*n
			cfgs = append(cfgs, Config{Name: name, Func: "zzC06", Setup: func(in *symgo.Interp) { in.MaxUnwind = 400 },
				Args: []Arg{I(rsize), S(strings.Join(cps, ";")), S(inLine), S(outLine), S(linkLine), S(g.spec()), I(T)}})
		}
	}
	if len(rejections)*2 > nparts {
		errs = append(errs, fmt.Sprintf("the front-end rejected %d of %d generated sources: the source family no longer matches the assembler's input language", len(rejections), nparts))
	}
	sp := &Spec{
		ID: "C06", Level: "translation_validation", Tier: tier, Harness: h,
		LoadPkgs: []string{"pkg/bondmachine"},
		Opts:     RunOpts{Inits: []string{"pkg/bmnumbers", "pkg/procbuilder", "pkg/bondmachine"}, ConfigBudgetS: 900, TimeoutMs: 60000},
		Configs:  FilterConfigs(cfgs),
		Assumptions: []string{
			"metamorphic translation validation: for each fragment graph of a seeded family and each partition of its instances into processors (all collapsed, all separate, every convex two-block partition; collapse lists in topological order) the real basm front-end (fragment analyzer/composer, link resolution, register allocation, Assembler2BondMachine) is RUN NATIVELY - it is not encoded - and the solver decides, per emitted machine, that its simulation (bondmachine.VM.Step with all processors, handshaked i2rw/r2owa links, executed symbolically) delivers on every external output exactly the value of the graph's dataflow expression FOR ALL input values, and delivers every output within the horizon. All partitions are compared with the same expression, hence with each other",
			"graph family: five fixed shapes (diamond with a tapped source, chain through fragments whose result register differs from their input register, fork and join, one port feeding two instances, two internal links next to a fragment with a gap in its register numbering) and seeded random graphs of 2-5 instances of the fragments addone, subone, sum2, dbl (scratch register), fan2 (two outputs), swapsum (outputs in swapped register order), sumb (result in the second register), dbl3 (scratch register r3, leaving r2 unused), mul2 (8-bit graphs only, at most one per graph); every input port is fed by a fresh external input or by an output port of an earlier instance - unused, or already feeding another link (fan-out of one port, also across processors) - unused output ports become external outputs and an already consumed port may be one too; register sizes 8 and 16",
			"environment: external inputs constant and always valid, external outputs acknowledged one tick after they are offered; horizon 30+14*instances ticks from reset. Input streams of several values, stalls, cyclic quotient graphs, fragments with jumps or immediates are outside; sources the front-end rejects are counted, not failed",
		},
		Bounds: map[string]interface{}{"graphs": ngraphs, "partitions": nparts, "rejected_by_the_front_end": len(rejections), "rejections": rejections, "instances_max": 5},
		Rule:   "one configuration per (graph, partition); obligations: per tick and valid external output the equality with the dataflow expression, at the horizon delivery of every output",
	}
	sp.Extra = func(cov map[string]interface{}, outs []Outcome) {
		cov["programs"] = len(outs)
		cov["disagreements_checked"] = len(outs)
	}
	code := Execute(sp)
	for _, e := range errs {
		fmt.Println("MACHINERY:", e)
	}
	if len(errs) > 0 && code == 0 {
		code = 2
	}
	return code
}
