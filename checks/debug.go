package checks

import (
	"fmt"
	"os"

	"verif/symgo"
)

func init() {
	if os.Getenv("BMV_SLOWQ") != "" {
		symgo.SlowQueryLog = func(s string) { fmt.Fprintln(os.Stderr, "SLOW:", s) }
	}
}
