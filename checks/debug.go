package checks

import (
	"fmt"
	"os"

	"verif/symgo"
)

func init() {
	if os.Getenv("BMV_SLOWQ") != "" {
		symgo.SlowQueryLog = func(s string) { fmt.Fprintln(os.Stderr, "SLOW:", s) }
	}
	if os.Getenv("BMV_RACEDUMP") != "" {
		symgo.RaceDump = func(s string) { fmt.Fprintln(os.Stderr, "RACE:", s) }
		if v := os.Getenv("BMV_RACEDUMP"); v != "1" {
			symgo.RaceDumpPos = v
		}
	}
}
