package checks

import (
	"fmt"
	"sync"

	"verif/symgo"
)

func C09(tier string) int {
	h := Harness{File: "c09.go", Extra: []string{"lib_bondmachine.go"}, Pkg: "pkg/bondmachine"}
	type p struct{ kind, words, T int }
	fam := []p{{0, 2, 2}, {1, 2, 2}, {2, 2, 2}, {2, 2, 3}, {3, 2, 4}}
	if tier == "thorough" {
		fam = []p{{0, 2, 2}, {0, 2, 3}, {0, 3, 3}, {1, 2, 2}, {1, 2, 3}, {1, 3, 3}, {2, 2, 2}, {2, 2, 4}, {2, 3, 4}, {2, 4, 4}, {3, 2, 4}, {3, 3, 6}}
	}
	kinds := []string{"step-order independence (one VM, two unbonded processors, two worker orders)",
		"non-interference inside one VM (P0 vs. arbitrary P1)", "non-interference between two simulations in one process",
		"two simulations of one Bondmachine object with different per-opcode delay sets: each obeys its own"}
	var cfgs []Config
	for _, f := range fam {
		cfgs = append(cfgs, Config{Name: fmt.Sprintf("kind=%d (%s) program_words=%d ticks=%d", f.kind, kinds[f.kind], f.words, f.T), Func: "zzC09",
			Args: []Arg{I(f.kind), I(f.words), I(f.T)}, Setup: delayHooks})
	}
	// data races: happens-before race obligations over the goroutine model (symgo/race.go)
	type rp struct{ shape, words, T int }
	rfam := []rp{{0, 2, 2}, {1, 2, 4}, {2, 2, 2}, {3, 2, 4}, {4, 0, 0}, {5, 0, 0}, {6, 0, 0}}
	if tier == "thorough" {
		rfam = []rp{{0, 2, 3}, {0, 3, 4}, {1, 2, 4}, {1, 3, 6}, {2, 2, 3}, {2, 3, 4}, {3, 2, 4}, {3, 3, 6}, {4, 0, 0}, {5, 0, 0}, {6, 0, 0}}
	}
	shapes := []string{"one VM, two unbonded processors", "one VM, producer bonded to two consumers", "two simulations, each stepped by its own goroutine",
		"one VM, producer bonded to two consumers, per-opcode delays", "witness: an unsynchronised shared write in the harness must be reported",
		"witness: a worker loop that answers before it updates its state on one arm of a branch, state read right after the answer: must be reported",
		"witness: the same worker loop, state read after the next exchange: must not be reported"}
	for _, f := range rfam {
		order := []int{2, 3, 4}
		if f.shape == 2 {
			order = nil
		}
		cfgs = append(cfgs, Config{Name: fmt.Sprintf("data-race freedom (%s) program_words=%d ticks=%d", shapes[f.shape], f.words, f.T), Func: "zzC09Race",
			Args: []Arg{I(f.shape), I(f.words), I(f.T)}, Setup: func(in *symgo.Interp) {
				delayHooks(in)
				in.MaxUnion = 64
				in.RaceDetect = true
				in.SchedOrder = order
			}})
	}
	var raceMu sync.Mutex
	raceCells, racePairs := 0, 0
	sp := &Spec{
		ID: "C09", Level: "model_checking", Tier: tier, Harness: h,
		LoadPkgs: []string{"pkg/bondmachine"},
		Opts:     RunOpts{Inits: []string{"pkg/bmnumbers", "pkg/procbuilder", "pkg/bondmachine"}, ConfigBudgetS: 1500, TimeoutMs: 120000, Abstract: true},
		Configs:  FilterConfigs(cfgs),
		Assumptions: []string{
			"narrowed claim: STATE ISOLATION only. Decided: (0) the result of VM.Step does not depend on the order in which the per-processor workers run (two orders of a run-until-block scheduler), (1) a processor's state does not depend on another, unbonded processor of the same VM, (2) a simulation's state does not depend on another simulation stepped in the same process - for all programs over {add,addp,cpy,dec,divp,inc,j,multp,nop,rset} of the stated size, all register values and ALL values of the hidden mutable state reachable from procbuilder.Allopcodes (found by walking the heap after init)",
			"kind 3: per-opcode delay distributions are single-delay maps whose delay is a solver variable in 0..2; simbox.DelayDistribution.GetValue is stubbed by its contract (returns one of the delays of the distribution)",
			"data-race freedom configurations: the harness only steps the machines; the obligations are the engine's happens-before race obligations (symgo/race.go): segments cut at go/send/receive/lock/unlock, ordered by program order, go, send->receive, receive->completion of the (k+cap)-th send, unlock->later lock; cells compared by identical object and access path (a whole-struct copy against a field write is missed), accesses inside natives (copy, append) not recorded; one obligation per cell with unordered conflicting accesses: the guards of the two accesses cannot hold together. A witness configuration (an unsynchronised shared write in the harness) must be reported, else the check fails as vacuous. A race counterexample is confirmed by exact evaluation under the model, not by a native run (the Go scheduler cannot be forced)",
			"NOT decided: Go-scheduler interleavings finer than a processor step, GOMAXPROCS, the native race detector's verdict, goroutine timing, simbox/delaydistr.go and bmnumbers/dynamical_type.go registries under concurrent callers; the dynamically created fixed-point/FXP/linear-quantiser opcodes (floating point, not encodable)",
			"induction over ticks extends the bounded result provided the barrier in VM.Step is the only synchronisation (assumed)",
		},
		Bounds: map[string]interface{}{"family_kind_words_ticks": fam, "opcodes": "add,addp,cpy,dec,divp,inc,j,multp,nop,rset", "register_size": 8},
		Rule:   "one symbolic state per tick per world; obligations compare pc and registers of the two worlds and the shared hidden state",
	}
	// a worker order cannot be forced on the real Go scheduler: order-dependence counterexamples are
	// confirmed by concrete evaluation of the obligation under the model, the others are replayed natively
	// a data race cannot be replayed deterministically either: same treatment
	sp.ModelConfirmed = func(o *Outcome, ob *OblResult) bool { return o.Config.Args[0].I == 0 || ob.Pos == "race" }
	sp.Opts.Post = func(o *Outcome, in *symgo.Interp) {
		if in.RaceDetect {
			c, p := in.RaceObligations()
			if sh := o.Config.Args[0].I; sh >= 4 {
				// witnesses: the race obligation of shapes 4 and 5 must come back violated, shape 6 must have none
				// that is violated; the outcome is turned into a reachability marker (or a machinery problem)
				found := false
				kept := in.Verdicts[:0]
				for _, v := range in.Verdicts {
					if v.Obl.Pos == "race" {
						found = found || (v.Result == "violated" && v.Confirmed)
						continue
					}
					kept = append(kept, v)
				}
				in.Verdicts = kept
				if found == (sh != 6) {
					in.Verdicts = append(in.Verdicts, symgo.Verdict{Obl: &symgo.Obligation{Kind: "reach", Tag: "race-witness-as-expected"}, Result: "reachable"})
				} else if sh == 6 {
					o.Err = "a race was reported on the ordered witness (worker loop, state read after the next exchange)"
				} else {
					o.Err = "the race witness was not reported"
				}
				return
			}
			raceMu.Lock()
			raceCells += c
			racePairs += p
			raceMu.Unlock()
		}
	}
	sp.Extra = func(cov map[string]interface{}, outs []Outcome) {
		n := 0
		for _, o := range outs {
			n += int(o.Config.Args[2].I) * 2
		}
		cov["states"], cov["transitions"], cov["traces_validated_against_impl"] = n, n, 0
		cov["race_cells_shared_between_goroutines"] = raceCells
		cov["race_unordered_conflicting_segment_pairs"] = racePairs
	}
	return Execute(sp)
}
