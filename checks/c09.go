package checks

import "fmt"

func C09(tier string) int {
	h := Harness{File: "c09.go", Extra: []string{"lib_bondmachine.go"}, Pkg: "pkg/bondmachine"}
	type p struct{ kind, words, T int }
	fam := []p{{0, 2, 2}, {1, 2, 2}, {2, 2, 2}, {2, 2, 3}, {3, 2, 4}}
	if tier == "thorough" {
		fam = []p{{0, 2, 2}, {0, 2, 3}, {0, 3, 3}, {1, 2, 2}, {1, 2, 3}, {1, 3, 3}, {2, 2, 2}, {2, 2, 4}, {2, 3, 4}, {2, 4, 4}, {3, 2, 4}, {3, 3, 6}}
	}
	kinds := []string{"step-order independence (one VM, two unbonded processors, two worker orders)",
		"non-interference inside one VM (P0 vs. arbitrary P1)", "non-interference between two simulations in one process",
		"two simulations of one Bondmachine object with different per-opcode delay sets: each obeys its own"}
	var cfgs []Config
	for _, f := range fam {
		cfgs = append(cfgs, Config{Name: fmt.Sprintf("kind=%d (%s) program_words=%d ticks=%d", f.kind, kinds[f.kind], f.words, f.T), Func: "zzC09",
			Args: []Arg{I(f.kind), I(f.words), I(f.T)}, Setup: delayHooks})
	}
	sp := &Spec{
		ID: "C09", Level: "model_checking", Tier: tier, Harness: h,
		LoadPkgs: []string{"pkg/bondmachine"},
		Opts:     RunOpts{Inits: []string{"pkg/bmnumbers", "pkg/procbuilder", "pkg/bondmachine"}, ConfigBudgetS: 1500, TimeoutMs: 120000, Abstract: true},
		Configs:  FilterConfigs(cfgs),
		Assumptions: []string{
			"narrowed claim: STATE ISOLATION only. Decided: (0) the result of VM.Step does not depend on the order in which the per-processor workers run (two orders of a run-until-block scheduler), (1) a processor's state does not depend on another, unbonded processor of the same VM, (2) a simulation's state does not depend on another simulation stepped in the same process - for all programs over {add,addp,cpy,dec,divp,inc,j,multp,nop,rset} of the stated size, all register values and ALL values of the hidden mutable state reachable from procbuilder.Allopcodes (found by walking the heap after init)",
			"kind 3: per-opcode delay distributions are single-delay maps whose delay is a solver variable in 0..2; simbox.DelayDistribution.GetValue is stubbed by its contract (returns one of the delays of the distribution)",
			"NOT decided: Go-scheduler interleavings finer than a processor step, GOMAXPROCS, the race detector's verdict, goroutine timing, simbox/delaydistr.go and bmnumbers/dynamical_type.go registries under concurrent callers; the dynamically created fixed-point/FXP/linear-quantiser opcodes (floating point, not encodable)",
			"induction over ticks extends the bounded result provided the barrier in VM.Step is the only synchronisation (assumed)",
		},
		Bounds: map[string]interface{}{"family_kind_words_ticks": fam, "opcodes": "add,addp,cpy,dec,divp,inc,j,multp,nop,rset", "register_size": 8},
		Rule:   "one symbolic state per tick per world; obligations compare pc and registers of the two worlds and the shared hidden state",
	}
	// a worker order cannot be forced on the real Go scheduler: order-dependence counterexamples are
	// confirmed by concrete evaluation of the obligation under the model, the others are replayed natively
	sp.ModelConfirmed = func(o *Outcome, ob *OblResult) bool { return o.Config.Args[0].I == 0 }
	sp.Extra = func(cov map[string]interface{}, outs []Outcome) {
		n := 0
		for _, o := range outs {
			n += int(o.Config.Args[2].I) * 2
		}
		cov["states"], cov["transitions"], cov["traces_validated_against_impl"] = n, n, 0
	}
	return Execute(sp)
}
