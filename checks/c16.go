package checks

import "time"

var hProcLib = []string{"lib_procbuilder.go"}

func C16(tier string) int {
	t0 := time.Now()
	hp := Harness{File: "c16_procbuilder.go", Extra: hProcLib, Pkg: "pkg/procbuilder"}
	hb := Harness{File: "c16_bondmachine.go", Pkg: "pkg/bondmachine"}
	hs := Harness{File: "c16_bmstack.go", Pkg: "pkg/bmstack"}
	opsets := []string{"add,inc,j,rset,nop", "i2r,r2o,i2rw,r2owa,jz,cpy,clr,dec", "r2m,m2r,mult,div,and,or,xor,not,j,ja,jo"}
	if tier == "thorough" {
		opsets = append(opsets, "adc,add,addi,and,cil,cilc,cir,cirn,clr,cpy,dec,div,i2r,i2rw,inc,incc,j,ja,jo,jz,mod,mulc,mult,nand,nop,nor,not,or,r2o,r2owa,rsc,rset,sbc,xnor,xor",
			"chc,chw,k2r,q2r,r2q,r2t,r2u,r2v,t2r,u2r,s2r,r2s,lfsr82r,hit,hlt,wrd,wwr")
	}
	cfgs := []Config{
		{Name: "procbuilder.Needed_bits", Func: "zzC16NeededBits", Harness: &hp},
		{Name: "Conproc.Opcodes_bits", Func: "zzC16OpcodesBits", Harness: &hp},
		{Name: "Conproc.Inputs_bits/Outputs_bits, Arch.Shared_depth", Func: "zzC16IOBits", Harness: &hp},
		{Name: "bondmachine.Needed_bits", Func: "zzC16NeededBits", Harness: &hb},
		{Name: "bmstack.NeededBits", Func: "zzC16NeededBits", Harness: &hs},
	}
	for _, o := range opsets {
		cfgs = append(cfgs, Config{Name: "Arch.Max_word ops=" + o, Func: "zzC16MaxWord", Args: []Arg{S(o)}, Harness: &hp})
	}
	sp := &Spec{
		ID: "C16", Level: "proof", Tier: tier,
		Harness: hp, Harnesses: []Harness{hp, hb, hs},
		LoadPkgs: []string{"pkg/procbuilder", "pkg/bondmachine", "pkg/bmstack"},
		Opts:     RunOpts{Inits: []string{"pkg/procbuilder"}, PanicObl: true},
		Configs:  cfgs,
		Assumptions: []string{
			"counts: 0 <= num <= 65536, len(Op) <= 32768, N and M any uint8; R <= 8, L,O <= 16 for Max_word",
			"part (a) only: the field-width functions every emitter relies on. Part (b) of the design (per emitted machine: no out-of-range access from any pc/state) is checked under the C16 machine family below when built; requirement inference passes (metadatainfer, bmreqs) and the front-ends themselves are not encoded",
		},
		Bounds: map[string]interface{}{"unwind": 40, "num_max": 65536, "nops_max": 32768, "opcode_sets": opsets},
		Rule:   "one obligation per assert site per function/opcode set; non-trivial = negation sent to the solver with a reachable end marker",
	}
	p := LoadProgram(sp.LoadPkgs, sp.Harnesses...)
	loadS := time.Since(t0).Seconds()
	outs := RunFamily(p, sp.Configs, sp.Opts)
	return Finish(sp, outs, t0, loadS)
}
