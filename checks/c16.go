package checks

import (
	"fmt"
	"math/rand"
	"os"
	"path/filepath"
	"regexp"
	"strconv"
	"strings"
	"time"
)

var hProcLib = []string{"lib_procbuilder.go"}

func C16(tier string) int {
	t0 := time.Now()
	hp := Harness{File: "c16_procbuilder.go", Extra: hProcLib, Pkg: "pkg/procbuilder"}
	hb := Harness{File: "c16_bondmachine.go", Pkg: "pkg/bondmachine"}
	hs := Harness{File: "c16_bmstack.go", Pkg: "pkg/bmstack"}
	opsets := []string{"add,inc,j,rset,nop", "i2r,r2o,i2rw,r2owa,jz,cpy,clr,dec", "r2m,m2r,mult,div,and,or,xor,not,j,ja,jo"}
	if tier == "thorough" {
		opsets = append(opsets, "adc,add,addi,and,cil,cilc,cir,cirn,clr,cpy,dec,div,i2r,i2rw,inc,incc,j,ja,jo,jz,mod,mulc,mult,nand,nop,nor,not,or,r2o,r2owa,rsc,rset,sbc,xnor,xor",
			"chc,chw,k2r,q2r,r2q,r2t,r2u,r2v,t2r,u2r,s2r,r2s,lfsr82r,hit,hlt,wrd,wwr")
	}
	cfgs := []Config{
		{Name: "procbuilder.Needed_bits", Func: "zzC16NeededBits", Harness: &hp},
		{Name: "Conproc.Opcodes_bits", Func: "zzC16OpcodesBits", Harness: &hp},
		{Name: "Conproc.Inputs_bits/Outputs_bits, Arch.Shared_depth", Func: "zzC16IOBits", Harness: &hp},
		{Name: "bondmachine.Needed_bits", Func: "zzC16NeededBits", Harness: &hb},
		{Name: "bmstack.NeededBits", Func: "zzC16NeededBits", Harness: &hs},
	}
	for _, o := range opsets {
		cfgs = append(cfgs, Config{Name: "Arch.Max_word ops=" + o, Func: "zzC16MaxWord", Args: []Arg{S(o)}, Harness: &hp})
	}
	sp := &Spec{
		ID: "C16", Level: "proof", Tier: tier,
		Harness: hp, Harnesses: []Harness{hp, hb, hs},
		LoadPkgs: []string{"pkg/procbuilder", "pkg/bondmachine", "pkg/bmstack"},
		Opts:     RunOpts{Inits: []string{"pkg/procbuilder"}, PanicObl: true},
		Configs:  cfgs,
		Assumptions: []string{
			"counts: 0 <= num <= 65536, len(Op) <= 32768, N and M any uint8; R <= 8, L,O <= 16 for Max_word",
			"part (a) only: the field-width functions every emitter relies on. Part (b) of the design (per emitted machine: no out-of-range access from any pc/state) is checked under the C16 machine family below when built; requirement inference passes (metadatainfer, bmreqs) and the front-ends themselves are not encoded",
		},
		Bounds: map[string]interface{}{"unwind": 40, "num_max": 65536, "nops_max": 32768, "opcode_sets": opsets},
		Rule:   "one obligation per assert site per function/opcode set; non-trivial = negation sent to the solver with a reachable end marker",
	}
	// part (b): machines emitted by the real basm front-end (run natively on a generated source family)
	emitted, rejected, ferrs := c16Emitted(tier, &hp, &hb)
	sp.Configs = append(sp.Configs, emitted...)
	sp.Bounds["basm_sources"] = len(emitted) + rejected
	sp.Bounds["basm_sources_rejected_by_the_front_end"] = rejected
	sp.Assumptions = append(sp.Assumptions,
		"part (b): sources of a generated family (register indices up to r8, 0-3 inputs/outputs, 3-17 ROM lines, jumps to the last line, mov/inc/dec/add/cpy/clr/jz/j/i2rw/r2owa, register sizes 8/16/32) are assembled NATIVELY by the real basm front-end; for every emitted processor one simulator step from ANY pc inside the ROM and ANY register/port/flag state is decided panic-free (no index outside ROM, registers, ports, opcode list) with pc' <= len(ROM); word width, opcode order and decodability, and the bond graph (one link slot per internal input, every endpoint the port counts require exactly once, links in range, every attachment the source declares present; attachments written cpu-side first and bm-side first alternate) are checked on the concrete emitted machine - the front-end run is a sample of sources, not a solver quantification. Sources with a ROM data section (code + data words around powers of two) and hybrid ROM/RAM code are checked structurally only (word width, opcode list, ROM + data fit the address space, bond graph); bondgo, neuralbond and bmqsim front-ends (floating-point opcodes) are outside")
	p := LoadProgram(sp.LoadPkgs, sp.Harnesses...)
	loadS := time.Since(t0).Seconds()
	outs := RunFamily(p, sp.Configs, sp.Opts)
	code := Finish(sp, outs, t0, loadS)
	for _, e := range ferrs {
		fmt.Println("MACHINERY:", e)
	}
	if len(ferrs) > 0 && code == 0 {
		code = 2
	}
	return code
}

// c16Source renders one basm source of the family.
func c16Source(seed, rsize, rmax, nin, nout, nlines int, bmFirst bool) string {
	r := rand.New(rand.NewSource(int64(seed)))
	reg := func() string { return fmt.Sprintf("r%d", r.Intn(rmax+1)) }
	var lines []string
	// make sure the highest register and every port is mentioned
	// immediates: mov is matched by the dynamic opcodes rsets5/6/7 and the chooser takes the narrowest
	// (rsets5) without looking at the value, so a value above 31 cannot be encoded; one source in eight
	// uses such a value and must be REJECTED by the front-end (before fix bc191a3 it was emitted with an
	// over-long ROM word), the others stay below 32
	big := seed%8 == 7
	imm := func() int {
		if big {
			return 32 + r.Intn(200)
		}
		return r.Intn(32)
	}
	lines = append(lines, fmt.Sprintf("mov r%d, %d", rmax, imm()))
	for i := 0; i < nin; i++ {
		lines = append(lines, fmt.Sprintf("i2rw %s, i%d", reg(), i))
	}
	for len(lines) < nlines-1-nout {
		switch r.Intn(8) {
		case 7:
			lines = append(lines, fmt.Sprintf("sub %s, %s", reg(), reg())) // an opcode sorted after the dynamically created rsets
		case 0:
			lines = append(lines, fmt.Sprintf("mov %s, %d", reg(), imm()))
		case 1:
			lines = append(lines, "inc "+reg())
		case 2:
			lines = append(lines, "dec "+reg())
		case 3:
			lines = append(lines, fmt.Sprintf("add %s, %s", reg(), reg()))
		case 4:
			lines = append(lines, fmt.Sprintf("cpy %s, %s", reg(), reg()))
		case 5:
			lines = append(lines, "clr "+reg())
		default:
			lines = append(lines, fmt.Sprintf("jz %s, _last", reg()))
		}
	}
	for i := 0; i < nout; i++ {
		lines = append(lines, fmt.Sprintf("r2owa %s, o%d", reg(), i))
	}
	var sb strings.Builder
	sb.WriteString("%section prog .romtext\n        entry _start\n_start:\n")
	for _, l := range lines {
		sb.WriteString("        " + l + "\n")
	}
	sb.WriteString("_last:\n        j _start\n%endsection\n%meta cpdef  cpu   romcode: prog, execmode: ha\n")
	// the two endpoints of an attachment may be written in either order
	a, b := "cpu", "bm"
	if bmFirst {
		a, b = "bm", "cpu"
	}
	for i := 0; i < nin; i++ {
		fmt.Fprintf(&sb, "%%meta ioatt  in%d   cp: %s, index:%d, type:input\n%%meta ioatt  in%d   cp: %s, index:%d, type:input\n", i, a, i, i, b, i)
	}
	for i := 0; i < nout; i++ {
		fmt.Fprintf(&sb, "%%meta ioatt  out%d  cp: %s, index:%d, type:output\n%%meta ioatt  out%d  cp: %s, index:%d, type:output\n", i, a, i, i, b, i)
	}
	fmt.Fprintf(&sb, "%%meta bmdef  global registersize:%d\n", rsize)
	return sb.String()
}

// c16DataSource: a CP with a ROM data section; code lines + data words are chosen around powers of two
func c16DataSource(rsize, ncode, ndata int) string {
	var sb strings.Builder
	sb.WriteString("%section code1 .romtext\n        entry _start\n_start:\n        mov r2, 17\n        clr r0\n_loop:\n        mov r1, rom:[r0]\n") // the immediate makes the word at least 8 bits wide, which data sections require
	for i := 0; i < ncode-4; i++ {
		if i%2 == 0 {
			sb.WriteString("        r2o r1, o0\n")
		} else {
			sb.WriteString("        inc r0\n")
		}
	}
	sb.WriteString("        j _loop\n%endsection\n%section data1 .romdata\n        tab db ")
	for i := 0; i < ndata; i++ {
		if i > 0 {
			sb.WriteString(", ")
		}
		fmt.Fprintf(&sb, "0x%02x", (i*7+3)%256)
	}
	sb.WriteString("\n%endsection\n%meta cpdef cpu romcode: code1, romdata: data1, execmode: ha\n")
	sb.WriteString("%meta ioatt out0 cp: cpu, index:0, type:output\n%meta ioatt out0 cp: bm, index:0, type:output\n")
	fmt.Fprintf(&sb, "%%meta bmdef global registersize:%d\n", rsize)
	return sb.String()
}

// c16HybridSource: a CP with ROM code and RAM code (execmode hy) whose opcode sets overlap or not
func c16HybridSource(rsize int, overlap bool) string {
	ram := "        inc r1\n        dec r0\n        j _start2\n"
	if !overlap {
		ram = "        dec r1\n        dec r0\n        dec r1\n"
	}
	return "%section code1 .romtext\n        entry _start\n_start:\n        clr r0\n        inc r0\n        r2o r0, o0\n        j _start\n%endsection\n" +
		"%section code2 .ramtext\n        entry _start2\n_start2:\n" + ram + "%endsection\n" +
		"%meta cpdef cpu romcode: code1, ramcode: code2, execmode: hy\n" +
		"%meta ioatt out0 cp: cpu, index:0, type:output\n%meta ioatt out0 cp: bm, index:0, type:output\n" +
		fmt.Sprintf("%%meta bmdef global registersize:%d\n", rsize)
}

// c16PlainSource: a program without immediates, for any declared register size
func c16PlainSource(rsize int) string {
	return "%section code1 .romtext\n        entry _start\n_start:\n        i2r r0, i0\n        inc r0\n        r2o r0, o0\n        j _start\n%endsection\n" +
		"%meta cpdef cpu romcode: code1, execmode: ha\n" +
		"%meta ioatt in0 cp: cpu, index:0, type:input\n%meta ioatt in0 cp: bm, index:0, type:input\n" +
		"%meta ioatt out0 cp: cpu, index:0, type:output\n%meta ioatt out0 cp: bm, index:0, type:output\n" +
		fmt.Sprintf("%%meta bmdef global registersize:%d\n", rsize)
}

func c16Emitted(tier string, hp, hb *Harness) (cfgs []Config, rejected int, errs []string) {
	if err := BuildNative(); err != nil {
		return nil, 0, []string{err.Error()}
	}
	type src struct{ rsize, rmax, nin, nout, nlines int }
	var fam []src
	rmaxs, lens := []int{1, 3, 4}, []int{4, 8, 9}
	if tier == "thorough" {
		rmaxs, lens = []int{0, 1, 3, 4, 7, 8}, []int{3, 7, 8, 9, 15, 16, 17}
	}
	for _, rs := range []int{8, 16, 32} {
		for _, rm := range rmaxs {
			for _, nl := range lens {
				io := (rm + nl) % 4
				fam = append(fam, src{rs, rm, io, (io + 1) % 3, nl + io})
			}
		}
	}
	work := filepath.Join(VerifDir, ".work", fmt.Sprintf("c16-%d", os.Getpid()))
	os.MkdirAll(work, 0o755)
	defer os.RemoveAll(work)
	// further source kinds: ROM data sections with code+data around powers of two, and hybrid ROM/RAM code
	type extra struct{ name, text string }
	var extras []extra
	for _, tot := range []int{8, 9, 16, 17} {
		for _, ncode := range []int{5, 6} {
			extras = append(extras, extra{fmt.Sprintf("ROM data section: %d code lines + %d data words", ncode, tot-ncode), c16DataSource([]int{8, 16}[tot%2], ncode, tot-ncode)})
		}
	}
	extras = append(extras, extra{"hybrid: ROM and RAM code share opcodes", c16HybridSource(8, true)}, extra{"hybrid: ROM and RAM code with disjoint opcodes", c16HybridSource(16, false)})
	// register sizes at the edge of what a machine can hold (uint8): emitted with that size, or rejected
	for _, rs := range []int{1, 64, 255, 256, 257, 0} {
		extras = append(extras, extra{fmt.Sprintf("declared registersize:%d", rs), c16PlainSource(rs)})
	}
	for _, e := range extras {
		fam = append(fam, src{rsize: -1, nlines: len(fam)})
		_ = e
	}
	nbase := len(fam) - len(extras)
	for i, s := range fam {
		bmFirst := i%2 == 1
		var text string
		if i >= nbase {
			text = extras[i-nbase].text
			s = src{nin: strings.Count(text, "cp: bm, index:0, type:input"), nout: 1}
		} else {
			text = c16Source(Seed()*1000+i, s.rsize, s.rmax, s.nin, s.nout, s.nlines, bmFirst)
		}
		f := filepath.Join(work, fmt.Sprintf("s%d.basm", i))
		os.WriteFile(f, []byte(text), 0o644)
		out, err := Native("basm", f)
		name := fmt.Sprintf("basm source #%d (Rsize=%d, registers up to r%d, %d inputs, %d outputs, %d lines)", i, s.rsize, s.rmax, s.nin, s.nout, s.nlines)
		if i >= nbase {
			name = fmt.Sprintf("basm source #%d (%s)", i, extras[i-nbase].name)
		}
		if err != nil {
			errs = append(errs, name+": "+err.Error())
			continue
		}
		if strings.Contains(out, "BASM-ERROR") {
			rejected++ // a source the tool cannot fit is rejected with an error: allowed by the property
			continue
		}
		// register and machine sizes agree with the source
		if m := regexp.MustCompile(`registersize:\s*(\d+)`).FindStringSubmatch(text); m != nil {
			ok := 1
			for _, line := range strings.Split(out, "\n") {
				if (strings.HasPrefix(line, "BM ") || strings.HasPrefix(line, "CP ")) && !strings.Contains(line, " rsize="+m[1]+" ") {
					ok = 0
				}
			}
			cfgs = append(cfgs, Config{Name: name + " register size of the emitted machine", Func: "zzC16Fact", Harness: hp,
				Args: []Arg{S("register-size-agrees-with-the-source"), I(ok)}})
		}
		// the bond graph of the emitted machine against the attachments the source declares
		var bmLine, inLine, outLine, linkLine string
		var nm []string
		for _, line := range strings.Split(out, "\n") {
			switch {
			case strings.HasPrefix(line, "BM "):
				bmLine = line
			case strings.HasPrefix(line, "IN "):
				inLine = strings.TrimPrefix(line, "IN ")
			case strings.HasPrefix(line, "OUT "):
				outLine = strings.TrimPrefix(line, "OUT ")
			case strings.HasPrefix(line, "LINKS "):
				linkLine = strings.Trim(strings.TrimPrefix(line, "LINKS "), "[]")
			case strings.HasPrefix(line, "CP "):
				var n, m string
				for _, f := range strings.Fields(line) {
					if strings.HasPrefix(f, "N=") {
						n = f[2:]
					}
					if strings.HasPrefix(f, "M=") {
						m = f[2:]
					}
				}
				nm = append(nm, n+":"+m)
			}
		}
		var bin, bout int
		for _, f := range strings.Fields(bmLine) {
			if strings.HasPrefix(f, "inputs=") {
				bin, _ = strconv.Atoi(f[7:])
			}
			if strings.HasPrefix(f, "outputs=") {
				bout, _ = strconv.Atoi(f[8:])
			}
		}
		var decl []string
		for k := 0; k < s.nin; k++ {
			decl = append(decl, fmt.Sprintf("i%d>p0i%d", k, k))
		}
		for k := 0; k < s.nout; k++ {
			decl = append(decl, fmt.Sprintf("p0o%d>o%d", k, k))
		}
		cfgs = append(cfgs, Config{Name: name + fmt.Sprintf(" bond graph (bm side first=%v)", bmFirst), Func: "zzC16EmittedBM", Harness: hb,
			Args: []Arg{I(bin), I(bout), S(strings.Join(nm, ",")), S(inLine), S(outLine), S(linkLine), S(strings.Join(decl, ","))}})
		for _, line := range strings.Split(out, "\n") {
			if !strings.HasPrefix(line, "CP ") {
				continue
			}
			kv := map[string]string{}
			for _, f := range strings.Fields(line)[2:] {
				if j := strings.IndexByte(f, '='); j > 0 {
					kv[f[:j]] = f[j+1:]
				}
			}
			at := func(k string) int { v, _ := strconv.Atoi(kv[k]); return v }
			cfgs = append(cfgs, Config{Name: name + " " + strings.Fields(line)[0] + strings.Fields(line)[1] + " ops=" + kv["ops"], Func: "zzC16Emitted", Harness: hp,
				Args: []Arg{I(at("rsize")), I(at("R")), I(at("N")), I(at("M")), I(at("L")), I(at("O")), I(at("wordsize")), S(kv["ops"]), S(kv["rom"]), I(at("data")), S(kv["mode"])}})
		}
	}
	if rejected*2 > len(fam) {
		errs = append(errs, fmt.Sprintf("the front-end rejected %d of %d generated sources (about one in eight is expected): the source family no longer matches the assembler's input language", rejected, len(fam)))
	}
	return cfgs, rejected, errs
}
