package checks

import (
	"fmt"
	"math/rand"
	"os"
	"path/filepath"
	"strconv"
	"strings"

	"verif/smt"
	"verif/symgo"
	"verif/vlog"
)

// C02 part (b): whole machine, concrete program, all input values: the Verilog the real generators write for a
// machine emitted by the real assembler (top level, arch wrapper, processor, ROM with its generated contents) is
// unrolled from reset and compared, cycle by cycle, with the symbolic simulation of the same machine.

type c02bCase struct {
	name   string
	design *vlog.Design
	rsize  int
	nin    int
	nout   int
	nregs  int
	T      int
}

func c02bConfigs(tier string, h *Harness) ([]Config, map[string]*c02bCase, []string, int) {
	n := 12
	if tier == "thorough" {
		n = 80
	}
	work := filepath.Join(VerifDir, ".work", fmt.Sprintf("c02b-%d", os.Getpid()))
	os.MkdirAll(work, 0o755)
	defer os.RemoveAll(work)
	var cfgs []Config
	cases := map[string]*c02bCase{}
	var errs []string
	rejected := 0
	for i := 0; i < n; i++ {
		pr := rand.New(rand.NewSource(int64(Seed()*104729 + i)))
		p := c05Params{seed: Seed()*200000 + i, rsize: []int{8, 16}[pr.Intn(2)], nregs: 2 + pr.Intn(3), nin: pr.Intn(3), nout: 1 + pr.Intn(2),
			nlines: 6 + pr.Intn(7), nmacros: pr.Intn(2)}
		text := c05Source(p)
		f := filepath.Join(work, fmt.Sprintf("s%d.basm", i))
		os.WriteFile(f, []byte(text), 0o644)
		for _, hw := range []string{"", "onlydestregs"} {
			args := []string{"basmhdl", f}
			if hw != "" {
				args = append(args, hw)
			}
			out, err := Native(args...)
			name := fmt.Sprintf("stream: basm source #%d (Rsize=%d, %d registers, %d inputs, %d outputs, %d lines) hardware optimisation=%q", i, p.rsize, p.nregs, p.nin, p.nout, p.nlines, hw)
			if err != nil {
				errs = append(errs, name+": "+err.Error())
				continue
			}
			if strings.Contains(out, "BASM-ERROR") {
				rejected++
				continue
			}
			var desc []string
			for _, l := range strings.Split(out, "\n") {
				if strings.HasPrefix(l, "//@@DESC ") {
					desc = append(desc, strings.TrimPrefix(l, "//@@DESC "))
				}
			}
			cps, inLine, outLine, linkLine := parseEmitted(strings.Join(desc, "\n"))
			mods, _, err := ParseFiles(out)
			if err != nil {
				errs = append(errs, "ENCODING-FAILURE "+name+": "+err.Error())
				continue
			}
			d, err := vlog.Elaborate(mods, "bondmachine", nil)
			if err != nil {
				errs = append(errs, "ENCODING-FAILURE "+name+": "+err.Error())
				continue
			}
			R := 0
			if len(cps) > 0 {
				R, _ = strconv.Atoi(strings.Split(cps[0], ":")[0])
			}
			T := 2*p.nlines + 4
			cases[name] = &c02bCase{name: name, design: d, rsize: p.rsize, nin: p.nin, nout: p.nout, nregs: 1 << uint(R), T: T}
			cfgs = append(cfgs, Config{Name: name, Func: "zzC02Stream", Harness: h, Setup: func(in *symgo.Interp) { in.MaxUnwind = 400 },
				Args: []Arg{I(p.rsize), S(strings.Join(cps, ";")), S(inLine), S(outLine), S(linkLine), I(T)}})
		}
	}
	return cfgs, cases, errs, rejected
}

// c02bPost builds the hardware side over the simulator's input variables and adds the comparisons.
func c02bPost(cases map[string]*c02bCase) func(o *Outcome, in *symgo.Interp) {
	return func(o *Outcome, in *symgo.Interp) {
		c := cases[o.Config.Name]
		if c == nil {
			return
		}
		st := in.St
		ev := vlog.NewEval(c.design, st, "hdl.")
		ev.FreshState("s")
		// power-up: registers and memories start at 0 (the FPGA convention; the generated reset does not assign every
		// register, e.g. the output registers _auxoN keep their power-up value until the first r2o)
		for name, v := range ev.Cur.Regs {
			ev.Cur.Regs[name] = st.BV(0, v.W)
		}
		for name, m := range ev.Cur.Mems {
			z := make([]*smt.Term, len(m))
			for i := range m {
				z[i] = st.BV(0, m[i].W)
			}
			ev.Cur.Mems[name] = z
		}
		if err := ev.ApplyInitial(); err != nil {
			o.Err = "ENCODING-FAILURE: " + err.Error()
			return
		}
		one, zero := st.BV(1, 1), st.BV(0, 1)
		drive := func(e *vlog.Eval, reset *smt.Term) {
			e.In["reset"] = reset
			e.In["clk"] = zero
			for k := 0; k < c.nin; k++ {
				e.In[fmt.Sprintf("i%d", k)] = st.Extract(c.rsize-1, 0, st.Var(fmt.Sprintf("input#%d", k), 64))
				e.In[fmt.Sprintf("i%d_valid", k)] = one
			}
			for k := 0; k < c.nout; k++ {
				e.In[fmt.Sprintf("o%d_received", k)] = zero
			}
		}
		drive(ev, one)
		nx, err := ev.Step()
		if err != nil {
			o.Err = "ENCODING-FAILURE: " + err.Error()
			return
		}
		cur := vlog.NewEval(c.design, st, "hdl.")
		cur.Cur = nx
		cmp := func(tag string, hdl *smt.Term, simName string) {
			sv, ok := in.Exports[simName]
			if !ok {
				o.Err += " missing export " + simName
				return
			}
			t, ok := sv.(*smt.Term)
			if !ok || hdl == nil {
				o.Err += " cannot compare " + simName
				return
			}
			if t.W > hdl.W {
				t = st.Extract(hdl.W-1, 0, t)
			}
			in.AddObligation(&symgo.Obligation{Kind: "assert", Tag: tag, Pos: "hdl-vs-sim", Guard: st.T, Cond: st.Eq(hdl, t)})
		}
		for t := 0; t < c.T; t++ {
			drive(cur, zero)
			nx, err := cur.Step()
			if err != nil {
				o.Err = "ENCODING-FAILURE: " + err.Error()
				return
			}
			nxt := vlog.NewEval(c.design, st, "hdl.")
			nxt.Cur = nx
			drive(nxt, zero)
			for k := 0; k < c.nout; k++ {
				cmp(fmt.Sprintf("external-output-%d-after-cycle-%d", k, t), nxt.Sig(fmt.Sprintf("o%d", k)), fmt.Sprintf("out%d_%d", t, k))
			}
			cmp(fmt.Sprintf("pc-after-cycle-%d", t), nxt.Sig("a0_inst.p0_instance._pc"), fmt.Sprintf("pc%d", t))
			cur = nxt
		}
		for i := 0; i < c.nregs; i++ {
			cmp(fmt.Sprintf("register-%d-at-the-horizon", i), cur.Sig(fmt.Sprintf("a0_inst.p0_instance._r%d", i)), fmt.Sprintf("reg%d", i))
		}
	}
}
