package checks

import (
	"fmt"
	"math/rand"
	"os"
	"sort"
	"strings"
	"time"

	"verif/symgo"
)

// Spec describes a property check built from symgo harness families.
type Spec struct {
	ID          string
	Level       string // evidence level
	Tier        string
	Harness     Harness
	Harnesses   []Harness // all harnesses to inject (defaults to {Harness}); a Config selects its own through Config.Harness
	LoadPkgs    []string
	Opts        RunOpts
	Configs     []Config
	Assumptions []string
	Bounds      map[string]interface{}
	Rule        string
	// ViolationKey builds the string known findings are matched against.
	ViolationKey func(o *Outcome, ob *OblResult) string
	// Extra lets a check add coverage keys.
	Extra      func(cov map[string]interface{}, outs []Outcome)
	MaxReplays int
	// ModelConfirmed: obligations whose counterexample cannot be replayed natively (e.g. it needs a
	// particular worker order) are confirmed by concrete evaluation under the solver's model instead.
	ModelConfirmed func(o *Outcome, ob *OblResult) bool
	// ReplayOrModel: a counterexample that the native replay does not reproduce still counts when the obligation
	// evaluates to false under the solver's model (checks whose native run cannot use the model's data)
	ReplayOrModel bool
	// NoReplayKinds: obligation kinds that cannot be replayed natively (reported as ENCODING-MISMATCH if violated without replay)
	Program *symgo.Program
}

type Report struct {
	Violations []string // lines printed
	Known      map[string]int
	Machinery  []string
	Evidence   *Evidence
}

func shuffled(cfgs []Config, seed int) []Config {
	r := rand.New(rand.NewSource(int64(seed)))
	out := append([]Config{}, cfgs...)
	r.Shuffle(len(out), func(i, j int) { out[i], out[j] = out[j], out[i] })
	return out
}

// Sample picks n configurations deterministically from the seed (all if n<=0 or n>=len).
func Sample(cfgs []Config, n, seed int) []Config {
	if n <= 0 || n >= len(cfgs) {
		return cfgs
	}
	return shuffled(cfgs, seed)[:n]
}

// FilterConfigs keeps the configurations whose name contains $BMV_FILTER (debugging aid).
func FilterConfigs(cfgs []Config) []Config {
	f := os.Getenv("BMV_FILTER")
	if f == "" {
		return cfgs
	}
	var r []Config
	for _, c := range cfgs {
		if strings.Contains(c.Name, f) {
			r = append(r, c)
		}
	}
	return r
}

// Execute runs the spec and returns the process exit code.
func Execute(sp *Spec) int {
	t0 := time.Now()
	p := sp.Program
	if len(sp.Harnesses) == 0 {
		sp.Harnesses = []Harness{sp.Harness}
	}
	if p == nil {
		p = LoadProgram(sp.LoadPkgs, sp.Harnesses...)
	}
	loadS := time.Since(t0).Seconds()
	sp.Opts.Pkg = sp.Harness.Pkg
	outs := RunFamily(p, sp.Configs, sp.Opts)
	return Finish(sp, outs, t0, loadS)
}

// Finish turns outcomes into verdict lines, replays, evidence and an exit code.
func Finish(sp *Spec, outs []Outcome, t0 time.Time, loadS float64) int {
	findings := LoadFindings(sp.ID)
	knownSeen := map[string]int{}
	knownConfirmed := map[string]bool{}
	var machinery []string
	var violations []string
	nObl, nDis, nInc, nQueries, nReach, nUnreach := 0, 0, 0, 0, 0, 0
	nStretched, nSecond := 0, 0
	solverS := 0.0
	funcs := map[string]bool{}
	natives := map[string]bool{}
	stubs := map[string]bool{}
	nontrivial := map[string]bool{}
	var samples []interface{}
	replays := 0
	maxReplays := sp.MaxReplays
	if maxReplays == 0 {
		maxReplays = 6
	}
	abstracted := 0
	opaque := 0
	for oi := range outs {
		o := &outs[oi]
		if o.Err != "" {
			machinery = append(machinery, fmt.Sprintf("%s: %s", o.Config.Name, o.Err))
		}
		nQueries += o.Queries
		nStretched += o.Stretched
		nSecond += o.Second
		solverS += o.SolverS
		if o.Abstracted {
			abstracted++
		}
		opaque += o.Opaque
		for _, f := range o.Funcs {
			funcs[f] = true
		}
		for _, f := range o.Natives {
			natives[f] = true
		}
		for _, f := range o.Stubs {
			stubs[f] = true
		}
		for _, u := range o.Unwind {
			machinery = append(machinery, fmt.Sprintf("%s: unwinding bound hit in %s", o.Config.Name, u))
		}
		reached := false
		for bi := range o.Obls {
			ob := &o.Obls[bi]
			switch ob.Kind {
			case "reach":
				if ob.Result == "reachable" {
					nReach++
					reached = true
				} else {
					nUnreach++ // legitimately unreachable branches exist; a configuration needs one reachable marker (below)
				}
				continue
			}
			nObl++
			key := o.Config.Name + ";" + ob.Kind + ":" + ob.Tag
			if sp.ViolationKey != nil {
				key = sp.ViolationKey(o, ob)
			}
			switch ob.Result {
			case "holds":
				nDis++
				nontrivial[o.Config.Func+"|"+strings.Join(o.Config.ArgStrings(), ",")+"|"+ob.Tag+"|"+ob.Pos] = true
			case "inconclusive":
				nInc++
				fmt.Printf("INCONCLUSIVE property=%s config=%s obligation=%s:%s\n", sp.ID, o.Config.Name, ob.Kind, ob.Tag)
			case "violated":
				f := MatchFinding(findings, key)
				if f != nil {
					knownSeen[f.ID]++
					if knownConfirmed[f.ID] {
						nDis++ // decided: it is the listed finding
						continue
					}
				}
				if replays >= maxReplays && f == nil {
					violations = append(violations, fmt.Sprintf("UNREPLAYED property=%s key=%q (replay budget used)", sp.ID, key))
					continue
				}
				if ob.Pos == "hdl" || ob.Pos == "hdl-vs-sim" || (sp.ModelConfirmed != nil && sp.ModelConfirmed(o, ob)) {
					// obligations over generated HDL: no native Verilog simulator exists in this image; the
					// counterexample is confirmed by evaluating the obligation concretely under the model
					// (independent of the solver) and stored as a trace
					if !ob.Confirmed {
						machinery = append(machinery, fmt.Sprintf("ENCODING-MISMATCH %s: the solver's model does not falsify the obligation when evaluated concretely", key))
						continue
					}
					if f != nil {
						knownConfirmed[f.ID] = true
						nDis++
						continue
					}
					replays++
					path := WriteTrace(sp.ID, replays, o.Config.Name, ob, nil)
					violations = append(violations, fmt.Sprintf("VIOLATION property=%s replay=%s", sp.ID, path))
					fmt.Printf("  violated: %s\n", key)
					continue
				}
				hh := sp.Harness
				if o.Config.Harness != nil {
					hh = *o.Config.Harness
				}
				rf := &ReplayFile{Property: sp.ID, Harness: hh.File, Extra: hh.Extra, Pkg: hh.Pkg, Func: o.Config.Func, Args: o.Config.ArgStrings(),
					Config: o.Config.Name, Assert: ob.Tag, Kind: ob.Kind, Vector: ob.Model}
				replays++
				path := WriteReplay(rf, replays)
				res, err := RunReplay(path)
				if err != nil {
					machinery = append(machinery, fmt.Sprintf("REPLAY-FAILURE %s: %v", key, err))
					continue
				}
				if !res.Confirms(ob.Kind, ob.Tag) && sp.ReplayOrModel && ob.Confirmed {
					// the native run uses other data than the model (C14: the real gate tables instead of the model's
					// gate entries): the counterexample stands on the exact evaluation of the obligation under the model
					if f != nil {
						knownConfirmed[f.ID] = true
						nDis++
						continue
					}
					tp := WriteTrace(sp.ID, replays, o.Config.Name, ob, nil)
					violations = append(violations, fmt.Sprintf("VIOLATION property=%s replay=%s", sp.ID, tp))
					fmt.Printf("  violated: %s (confirmed by exact evaluation under the model)\n", key)
					continue
				}
				if !res.Confirms(ob.Kind, ob.Tag) {
					machinery = append(machinery, fmt.Sprintf("ENCODING-MISMATCH %s: solver counterexample does not reproduce natively (failed=%v panic=%q assume-violated=%v) replay=%s", key, res.Failed, res.Panic, res.AssumeViolated, path))
					continue
				}
				if f != nil {
					knownConfirmed[f.ID] = true
					nDis++
					os.Remove(path)
					continue
				}
				violations = append(violations, fmt.Sprintf("VIOLATION property=%s replay=%s", sp.ID, path))
				fmt.Printf("  violated: %s  model=%v\n", key, ob.Model)
			}
		}
		if !reached && o.Err == "" && len(o.Obls) > 0 {
			// a harness without any reachable marker is vacuous
			has := false
			for _, ob := range o.Obls {
				if ob.Kind == "reach" {
					has = true
				}
			}
			if has {
				machinery = append(machinery, fmt.Sprintf("VACUOUS %s: no reachable marker", o.Config.Name))
			}
		}
		if len(samples) < 4 && len(o.Obls) > 0 {
			s := map[string]interface{}{"config": o.Config.Name, "func": o.Config.Func, "args": o.Config.ArgStrings(), "wall_s": round3(o.WallS), "instructions": o.Instrs, "forks": o.Forks}
			var obs []string
			for _, ob := range o.Obls {
				if len(obs) < 8 {
					obs = append(obs, fmt.Sprintf("%s:%s@%s=%s (%.3fs)", ob.Kind, ob.Tag, ob.Pos, ob.Result, ob.Secs))
				}
			}
			s["obligations"] = obs
			samples = append(samples, s)
		}
	}
	for _, f := range findings {
		if knownConfirmed[f.ID] {
			fmt.Printf("KNOWN-FINDING: property=%s %s [%s; %d obligations]\n", sp.ID, f.Description, f.ID, knownSeen[f.ID])
		}
	}
	cov := map[string]interface{}{
		"functions_encoded":            keys(funcs),
		"natives_and_models":           keys(natives),
		"stubs":                        keys(stubs),
		"bounds":                       sp.Bounds,
		"configurations":               len(outs),
		"obligations":                  nObl,
		"discharged":                   nDis,
		"inconclusive":                 nInc,
		"queries":                      nQueries,
		"timeouts_are_cpu_time":        "per-query timeouts and per-configuration budgets are budgets of CPU time (solver process, interpreter thread); a query that hits its wall-clock timeout with less CPU than its budget is asked again with a stretched timeout",
		"queries_asked_again_starved":  nStretched,
		"obligations_handed_to_z3_5_1": nSecond,
		"solver_s":                     round3(solverS),
		"load_s":                       round3(loadS),
		"vacuity_witnesses":            nReach,
		"unreachable_markers":          nUnreach,
		"evaluations":                  nQueries,
		"distinct_nontrivial":          len(nontrivial),
		"rule":                         sp.Rule,
		"samples":                      samples,
		"checker_cmd":                  "z3 -in (4.8.12), one process per worker, check-sat-assuming per obligation",
		"trusted_base":                 []string{"z3 4.8.12", "z3 5.1.0 (z3-new; asked only when 4.8.12 answers unknown within its budget)", "golang.org/x/tools/go/ssa v0.29.0", "/verif/smt", "/verif/symgo (own symbolic executor)", "Go type checker"},
		"uf_abstracted_configurations": abstracted,
		"opaque_format_strings":        opaque,
		"known_findings_seen":          knownSeen,
		"machinery_problems":           machinery,
		"exhaustive":                   false,
	}
	if sp.Extra != nil {
		sp.Extra(cov, outs)
	}
	ev := &Evidence{PropertyID: sp.ID, Tier: sp.Tier, Seed: Seed(), Level: sp.Level, Coverage: cov, Assumptions: sp.Assumptions,
		WallS: round3(time.Since(t0).Seconds()), Violations: len(violations)}
	if ev.Assumptions == nil {
		ev.Assumptions = []string{}
	}
	if err := WriteEvidence(ev); err != nil {
		fmt.Println("cannot write evidence:", err)
		return 2
	}
	for _, v := range violations {
		fmt.Println(v)
	}
	for _, m := range machinery {
		fmt.Println("MACHINERY:", m)
	}
	fmt.Printf("%s %s: %d configurations, %d obligations, %d discharged, %d inconclusive, %d violations, %d machinery problems, %.1fs\n",
		sp.ID, sp.Tier, len(outs), nObl, nDis, nInc, len(violations), len(machinery), time.Since(t0).Seconds())
	if hasViolation(violations) {
		return 1
	}
	if len(machinery) > 0 || nInc > 0 || len(violations) > 0 {
		return 2
	}
	return 0
}

func hasViolation(vs []string) bool {
	for _, v := range vs {
		if strings.HasPrefix(v, "VIOLATION") {
			return true
		}
	}
	return false
}

func keys(m map[string]bool) []string {
	r := make([]string, 0, len(m))
	for k := range m {
		r = append(r, k)
	}
	sort.Strings(r)
	return r
}

func round3(f float64) float64 { return float64(int64(f*1000+0.5)) / 1000 }
