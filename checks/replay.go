package checks

import (
	"encoding/json"
	"fmt"
	"os"
	"os/exec"
	"path/filepath"
	"regexp"
	"strings"
	"time"

	"verif/symgo"
)

// Harness describes one harness source file injected into a /repo package.
type Harness struct {
	File  string   // main file under VerifDir/harness (defines zzDispatch)
	Extra []string // further files of the same package (shared helpers)
	Pkg   string   // e.g. "pkg/procbuilder"
}

func (h Harness) files() []string { return append([]string{h.File}, h.Extra...) }

func readHarness(name string) []byte {
	b, err := os.ReadFile(filepath.Join(VerifDir, "harness", name))
	if err != nil {
		fmt.Println("ENCODING-FAILURE: cannot read harness:", err)
		os.Exit(2)
	}
	return b
}

func (h Harness) source() []byte { return readHarness(h.File) }

var pkgClause = regexp.MustCompile(`(?m)^package\s+(\w+)`)

func (h Harness) pkgName() string {
	m := pkgClause.FindSubmatch(h.source())
	if m == nil {
		return filepath.Base(h.Pkg)
	}
	return string(m[1])
}

// LoadProgram loads /repo's current tree with the harnesses injected.
func LoadProgram(pkgs []string, hs ...Harness) *symgo.Program {
	ov := map[string][]byte{}
	seen := map[string]bool{}
	for _, h := range hs {
		dir := filepath.Join(RepoDir, h.Pkg)
		for _, f := range h.files() {
			ov[filepath.Join(dir, "zz_verif_"+strings.TrimSuffix(f, ".go")+".go")] = readHarness(f)
		}
		if !seen[h.Pkg] {
			seen[h.Pkg] = true
			ov[filepath.Join(dir, "zz_verif_prelude.go")] = []byte("package " + h.pkgName() + "\n" + symgo.Prelude)
		}
	}
	p, err := symgo.Load(RepoDir, pkgs, ov)
	if err != nil {
		fmt.Println(err)
		os.Exit(2)
	}
	return p
}

const concretePrelude = `
import (
	"encoding/json"
	"fmt"
	"math"
	"os"
	"reflect"
	"testing"
	"unsafe"
)

type zzpReplayFile struct {
	Func   string            ` + "`json:\"func\"`" + `
	Args   []string          ` + "`json:\"args\"`" + `
	Vector map[string]uint64 ` + "`json:\"vector\"`" + `
}

type zzpAssumeViolation struct{}

var zzpVec map[string]uint64
var zzpCount = map[string]int{}
var zzpReached []string

func zzpNext(tag string) (string, uint64) {
	k := zzpCount[tag]
	zzpCount[tag]++
	n := fmt.Sprintf("%s#%d", tag, k)
	return n, zzpVec[n]
}
func zzNondetBool(tag string) bool  { _, v := zzpNext(tag); return v != 0 }
func zzNondetU8(tag string) uint8   { _, v := zzpNext(tag); return uint8(v) }
func zzNondetU16(tag string) uint16 { _, v := zzpNext(tag); return uint16(v) }
func zzNondetU32(tag string) uint32 { _, v := zzpNext(tag); return uint32(v) }
func zzNondetU64(tag string) uint64 { _, v := zzpNext(tag); return v }
func zzNondetInt(tag string) int    { _, v := zzpNext(tag); return int(v) }
func zzNondetF32(tag string) float32 { _, v := zzpNext(tag); return float32(math.Float64frombits(v)) }
func zzNondetBits(tag string, n int) string {
	name, _ := zzpNext(tag)
	b := make([]byte, n)
	for i := range b {
		b[i] = '0'
		if zzpVec[fmt.Sprintf("%s.%d", name, i)] != 0 {
			b[i] = '1'
		}
	}
	return string(b)
}
func zzNondetString(tag string, n int) string {
	name, _ := zzpNext(tag)
	b := make([]byte, n)
	for i := range b {
		b[i] = byte(zzpVec[fmt.Sprintf("%s.%d", name, i)])
	}
	return string(b)
}
func zzAssume(c bool) {
	if !c {
		panic(zzpAssumeViolation{})
	}
}
func zzAssert(tag string, c bool) {
	if !c {
		// printed at once: a later crash of a worker goroutine cannot be recovered by the test
		fmt.Println("ZZ-FAILED " + tag)
	}
}
func zzReach(tag string)                 { zzpReached = append(zzpReached, tag) }
func zzExport(tag string, v interface{}) { fmt.Printf("ZZ-EXPORT %s = %v\n", tag, v) }
func zzConcrete(v int) int               { return v }
func zzNative() bool                     { return true }
func zzUnsupported(msg string)           {}
func zzIsSymbolic(v int) bool            { return false }
func zzSchedule(reverse bool)            {}

// structural equality by reflection; struct fields named in exclude are skipped, nil and empty slices/maps are equal
func zzpDeepEq(a, b reflect.Value, excl map[string]bool) bool {
	if a.IsValid() != b.IsValid() {
		return false
	}
	if !a.IsValid() {
		return true
	}
	if a.Type() != b.Type() {
		return false
	}
	switch a.Kind() {
	case reflect.Ptr, reflect.Interface:
		if a.IsNil() || b.IsNil() {
			return a.IsNil() && b.IsNil()
		}
		return zzpDeepEq(a.Elem(), b.Elem(), excl)
	case reflect.Struct:
		for i := 0; i < a.NumField(); i++ {
			if excl[a.Type().Field(i).Name] {
				continue
			}
			if !zzpDeepEq(a.Field(i), b.Field(i), excl) {
				return false
			}
		}
		return true
	case reflect.Slice, reflect.Array:
		if a.Len() != b.Len() {
			return false
		}
		for i := 0; i < a.Len(); i++ {
			if !zzpDeepEq(a.Index(i), b.Index(i), excl) {
				return false
			}
		}
		return true
	case reflect.Map:
		if a.Len() != b.Len() {
			return false
		}
		for _, k := range a.MapKeys() {
			if !zzpDeepEq(a.MapIndex(k), b.MapIndex(k), excl) {
				return false
			}
		}
		return true
	case reflect.Bool:
		return a.Bool() == b.Bool()
	case reflect.Int, reflect.Int8, reflect.Int16, reflect.Int32, reflect.Int64:
		return a.Int() == b.Int()
	case reflect.Uint, reflect.Uint8, reflect.Uint16, reflect.Uint32, reflect.Uint64, reflect.Uintptr:
		return a.Uint() == b.Uint()
	case reflect.String:
		return a.String() == b.String()
	case reflect.Float32, reflect.Float64:
		return a.Float() == b.Float()
	case reflect.Func, reflect.Chan:
		return a.Pointer() == b.Pointer()
	}
	return false
}
func zzDeepEqual(tag string, a, b interface{}, exclude string) {
	excl := map[string]bool{}
	start := 0
	for i := 0; i <= len(exclude); i++ {
		if i == len(exclude) || exclude[i] == ',' {
			if i > start {
				excl[exclude[start:i]] = true
			}
			start = i + 1
		}
	}
	if !zzpDeepEq(reflect.ValueOf(a), reflect.ValueOf(b), excl) {
		fmt.Println("ZZ-FAILED " + tag)
	}
}

// hidden mutable state reachable through pointers from root (reflection; also unexported fields)
func zzpCells(root interface{}) []reflect.Value {
	var out []reflect.Value
	seen := map[uintptr]bool{}
	var walk func(v reflect.Value)
	var cells func(v reflect.Value)
	cells = func(v reflect.Value) {
		switch v.Kind() {
		case reflect.Bool, reflect.Int, reflect.Int8, reflect.Int16, reflect.Int32, reflect.Int64, reflect.Uint, reflect.Uint8, reflect.Uint16, reflect.Uint32, reflect.Uint64:
			out = append(out, v)
		case reflect.Struct:
			for i := 0; i < v.NumField(); i++ {
				cells(v.Field(i))
			}
		case reflect.Array:
			for i := 0; i < v.Len(); i++ {
				cells(v.Index(i))
			}
		default:
			walk(v)
		}
	}
	walk = func(v reflect.Value) {
		switch v.Kind() {
		case reflect.Ptr:
			if !v.IsNil() && !seen[v.Pointer()] {
				seen[v.Pointer()] = true
				cells(reflect.NewAt(v.Type().Elem(), unsafe.Pointer(v.Pointer())).Elem())
			}
		case reflect.Slice, reflect.Array:
			for i := 0; i < v.Len(); i++ {
				walk(v.Index(i))
			}
		case reflect.Struct:
			for i := 0; i < v.NumField(); i++ {
				walk(v.Field(i))
			}
		case reflect.Interface:
			if !v.IsNil() {
				walk(v.Elem())
			}
		}
	}
	walk(reflect.ValueOf(root))
	return out
}
func zzpSet(c reflect.Value, x uint64) {
	switch c.Kind() {
	case reflect.Bool:
		c.SetBool(x != 0)
	case reflect.Int, reflect.Int8, reflect.Int16, reflect.Int32, reflect.Int64:
		c.SetInt(int64(x))
	default:
		c.SetUint(x)
	}
}
func zzpGet(c reflect.Value) uint64 {
	switch c.Kind() {
	case reflect.Bool:
		if c.Bool() {
			return 1
		}
		return 0
	case reflect.Int, reflect.Int8, reflect.Int16, reflect.Int32, reflect.Int64:
		return uint64(c.Int())
	}
	return c.Uint()
}
func zzHavocHidden(root interface{}, tag string) int {
	cs := zzpCells(root)
	for i, c := range cs {
		zzpSet(c, zzpVec[fmt.Sprintf("%s#%d", tag, i)])
	}
	return len(cs)
}
func zzSnapshotHidden(root interface{}) []uint64 {
	var r []uint64
	for _, c := range zzpCells(root) {
		r = append(r, zzpGet(c))
	}
	return r
}
func zzRestoreHidden(root interface{}, vals []uint64) {
	for i, c := range zzpCells(root) {
		zzpSet(c, vals[i])
	}
}

func TestZZReplay(t *testing.T) {
	b, err := os.ReadFile(os.Getenv("ZZ_REPLAY"))
	if err != nil {
		t.Fatal(err)
	}
	var rf zzpReplayFile
	if err := json.Unmarshal(b, &rf); err != nil {
		t.Fatal(err)
	}
	zzpVec = rf.Vector
	func() {
		defer func() {
			if r := recover(); r != nil {
				if _, ok := r.(zzpAssumeViolation); ok {
					fmt.Println("ZZ-ASSUME-VIOLATED")
					return
				}
				fmt.Printf("ZZ-PANIC %v\n", r)
			}
		}()
		zzDispatch(rf.Func, rf.Args)
	}()
	for _, f := range zzpReached {
		fmt.Println("ZZ-REACHED " + f)
	}
	fmt.Println("ZZ-DONE")
}
`

type ReplayFile struct {
	Property string            `json:"property"`
	Harness  string            `json:"harness"`
	Extra    []string          `json:"extra,omitempty"`
	Pkg      string            `json:"pkg"`
	Func     string            `json:"func"`
	Args     []string          `json:"args"`
	Config   string            `json:"config"`
	Assert   string            `json:"assert"`
	Kind     string            `json:"kind"`
	Vector   map[string]uint64 `json:"vector"`
	Note     string            `json:"note,omitempty"`
}

type ReplayResult struct {
	Failed         []string
	Reached        []string
	Panic          string
	AssumeViolated bool
	Done           bool
	Output         string
}

// WriteReplay stores a counterexample under VerifDir/replay and returns its path.
func WriteReplay(rf *ReplayFile, n int) string {
	dir := filepath.Join(VerifDir, "replay")
	os.MkdirAll(dir, 0o755)
	path := filepath.Join(dir, fmt.Sprintf("%s-%d.json", rf.Property, n))
	b, _ := json.MarshalIndent(rf, "", " ")
	os.WriteFile(path, append(b, '\n'), 0o644)
	return path
}

// RunReplay executes the harness natively (go test -overlay against /repo's
// current tree) on the recorded vector.
func RunReplay(path string) (*ReplayResult, error) {
	b, err := os.ReadFile(path)
	if err != nil {
		return nil, err
	}
	var rf ReplayFile
	if err := json.Unmarshal(b, &rf); err != nil {
		return nil, err
	}
	h := Harness{File: rf.Harness, Extra: rf.Extra, Pkg: rf.Pkg}
	work := filepath.Join(VerifDir, ".work", fmt.Sprintf("replay-%d-%d", os.Getpid(), time.Now().UnixNano()))
	os.MkdirAll(work, 0o755)
	defer os.RemoveAll(work)
	pre := filepath.Join(work, "prelude_test.go")
	os.WriteFile(pre, []byte("package "+h.pkgName()+"\n"+concretePrelude), 0o644)
	dir := filepath.Join(RepoDir, rf.Pkg)
	ov := map[string]map[string]string{"Replace": {
		filepath.Join(dir, "zz_verif_prelude_test.go"): pre,
	}}
	for _, f := range h.files() {
		ov["Replace"][filepath.Join(dir, "zz_verif_"+strings.TrimSuffix(f, ".go")+"_test.go")] = filepath.Join(VerifDir, "harness", f)
	}
	ovb, _ := json.Marshal(ov)
	ovf := filepath.Join(work, "overlay.json")
	os.WriteFile(ovf, ovb, 0o644)
	cmd := exec.Command("go", "test", "-vet=off", "-count=1", "-run", "^TestZZReplay$", "-v", "-overlay", ovf, "-timeout", "300s", "./"+rf.Pkg)
	cmd.Dir = RepoDir
	cmd.Env = append(os.Environ(), "GOFLAGS=-mod=mod", "GOPROXY=off", "GOSUMDB=off", "GOTOOLCHAIN=local", "ZZ_REPLAY="+path)
	out, _ := cmd.CombinedOutput()
	res := &ReplayResult{Output: string(out)}
	for _, line := range strings.Split(string(out), "\n") {
		line = strings.TrimSpace(line)
		switch {
		case strings.HasPrefix(line, "ZZ-FAILED "):
			res.Failed = append(res.Failed, strings.TrimPrefix(line, "ZZ-FAILED "))
		case strings.HasPrefix(line, "ZZ-REACHED "):
			res.Reached = append(res.Reached, strings.TrimPrefix(line, "ZZ-REACHED "))
		case strings.HasPrefix(line, "ZZ-PANIC "):
			res.Panic = strings.TrimPrefix(line, "ZZ-PANIC ")
		case line == "ZZ-ASSUME-VIOLATED":
			res.AssumeViolated = true
		case line == "ZZ-DONE":
			res.Done = true
		}
	}
	if !res.Done && len(res.Failed) > 0 {
		// the process died (a panic in a worker goroutine) after an assertion had already failed
		res.Panic = "process crashed after the failed assertion"
		return res, nil
	}
	if !res.Done {
		return res, fmt.Errorf("replay did not complete:\n%s", tail(string(out), 30))
	}
	return res, nil
}

func tail(s string, n int) string {
	lines := strings.Split(strings.TrimSpace(s), "\n")
	if len(lines) > n {
		lines = lines[len(lines)-n:]
	}
	return strings.Join(lines, "\n")
}

// Confirms reports whether the native run reproduces the violated obligation.
func (r *ReplayResult) Confirms(kind, tag string) bool {
	// an assert that failed was evaluated before any later assumption was violated
	if kind == "panic" {
		if r.AssumeViolated {
			return false
		}
		return r.Panic != ""
	}
	for _, f := range r.Failed {
		if f == tag {
			return true
		}
	}
	return false
}
