package checks

import (
	"fmt"
	"strings"
	"time"

	"golang.org/x/tools/go/ssa"

	"verif/smt"
	"verif/symgo"
)

// c15Hooks: decimal text of a wide symbolic integer becomes an injective token
// (contract: strconv.Atoi(strconv.Itoa(x)) == x, no other use of the text).
func c15Hooks(in *symgo.Interp) {
	var terms []*smt.Term
	in.Hooks["strconv.Itoa"] = func(in *symgo.Interp, fn *ssa.Function, args []symgo.Value) (symgo.Value, bool) {
		t := args[0].(*smt.Term)
		if t.IsConst() {
			return nil, false
		}
		if !in.Feasible(in.St.Cmp(smt.OpBvUle, in.St.BV(1<<16, 64), t)) {
			return nil, false // narrow: exact digits
		}
		for k, old := range terms {
			if old == t { // hash-consed: the same value prints to the same text
				return &symgo.StrVal{C: fmt.Sprintf("@n%d@", k)}, true
			}
		}
		terms = append(terms, t)
		return &symgo.StrVal{C: fmt.Sprintf("@n%d@", len(terms)-1)}, true
	}
	in.Hooks["strconv.Atoi"] = func(in *symgo.Interp, fn *ssa.Function, args []symgo.Value) (symgo.Value, bool) {
		s, ok := args[0].(*symgo.StrVal)
		if !ok {
			return nil, false
		}
		c, ok := s.Concrete()
		if !ok || !strings.HasPrefix(c, "@n") || !strings.HasSuffix(c, "@") {
			return nil, false
		}
		var k int
		if _, err := fmt.Sscanf(c, "@n%d@", &k); err != nil || k >= len(terms) {
			return nil, false
		}
		return in.Tuple(terms[k], in.NilError()), true
	}
}

// c15DriveHooks: the numeric text of a set rule is a token for its value variable
func c15DriveHooks(in *symgo.Interp) {
	in.MaxUnion = 128 // tables keyed by symbolic ticks: one alternative per way the ticks of the rules coincide
	in.Hooks[repoMod+"/pkg/bondmachine.ImportNumber"] = func(in *symgo.Interp, fn *ssa.Function, args []symgo.Value) (symgo.Value, bool) {
		stub := fn.Pkg.Func("zzC15Number")
		if stub == nil {
			return nil, false
		}
		return in.CallFunction(stub, args, nil), true
	}
}

func C15(tier string) int {
	_ = time.Now
	h := Harness{File: "c15_simbox.go", Pkg: "pkg/simbox"}
	lens := []int{0, 1, 3}
	bookN := []int{1, 2, 3}
	if tier == "thorough" {
		lens = []int{0, 1, 2, 3, 4, 5, 6}
		bookN = []int{1, 2, 3, 4, 5}
	}
	var cfgs []Config
	for form := 0; form <= 13; form++ {
		for _, ol := range lens {
			for _, el := range lens {
				for tm := 0; tm <= 1; tm++ {
					ncfg := 1
					switch form {
					case 12:
						ncfg = 4
					case 13:
						ncfg = 11
					}
					if form >= 12 && (ol != lens[0] || tm != 0) {
						continue // object is one of the documented names, no tick
					}
					if form == 13 && el != lens[0] {
						continue
					}
					if form >= 6 && form < 12 && tm != 0 {
						continue // no tick in event rules
					}
					for c := 0; c < ncfg; c++ {
						cfgs = append(cfgs, Config{Name: fmt.Sprintf("roundtrip form=%d objlen=%d extralen=%d tickmode=%d cfg=%d", form, ol, el, tm, c), Func: "zzC15RoundTrip",
							Args: []Arg{I(form), I(ol), I(el), I(tm), I(c)}, Setup: c15Hooks})
					}
				}
			}
		}
	}
	for kind := 0; kind < 10; kind++ {
		for _, ol := range lens {
			for tm := 0; tm <= 1; tm++ {
				if kind >= 4 && tm != 0 {
					continue
				}
				cfgs = append(cfgs, Config{Name: fmt.Sprintf("short-form kind=%d objlen=%d tickmode=%d", kind, ol, tm), Func: "zzC15Short", Args: []Arg{I(kind), I(ol), I(tm)}, Setup: c15Hooks})
			}
		}
	}
	for _, n := range bookN {
		for op := 0; op < 3; op++ {
			cfgs = append(cfgs, Config{Name: fmt.Sprintf("bookkeeping n=%d op=%s", n, []string{"Del", "Suspend", "Reactivate"}[op]), Func: "zzC15Book", Args: []Arg{I(n), I(op)}})
		}
	}
	// part 3: compilation of the set rules into the injection tables (SimDrive.Init)
	hd := Harness{File: "c15_drive.go", Extra: []string{"lib_bondmachine.go"}, Pkg: "pkg/bondmachine"}
	pool := []string{"i0", "i1", "p0r0", "p0r1", "o0"}
	var tuples [][]string
	for _, a := range pool {
		tuples = append(tuples, []string{a})
		for _, b := range pool {
			tuples = append(tuples, []string{a, b})
		}
	}
	if tier == "thorough" {
		for _, a := range pool {
			for _, b := range pool {
				for _, c := range pool[:4] {
					tuples = append(tuples, []string{a, b, c})
				}
			}
		}
	} else {
		tuples = append(tuples, []string{"i0", "i0", "i0"}, []string{"i0", "p0r1", "i0"}, []string{"p0r0", "i1", "i1"})
	}
	for ti, tp := range tuples {
		rs := []int{8, 16, 32, 64}[ti%4]
		cfgs = append(cfgs, Config{Name: fmt.Sprintf("SimDrive.Init rules on objects %v Rsize=%d", tp, rs), Func: "zzC15Drive", Harness: &hd,
			Args: []Arg{S(strings.Join(tp, ",")), I(rs)}, Setup: c15DriveHooks})
		// kind = 2*timing + side (timing: 0 absolute, 1 periodic, 2 on exit, 3 on valid; side: 0 get, 1 show); 8 = another rule
		kindSets := [][]string{{"0", "0", "2"}, {"0", "2", "0"}, {"2", "0", "1"}, {"1", "1", "3"}, {"1", "3", "0"}, {"0", "1", "8"}, {"3", "2", "2"}, {"8", "0", "0"},
			{"2", "2", "3"}, {"3", "3", "1"}, {"1", "5", "5"}, {"5", "1", "4"}, {"4", "4", "0"}, {"0", "4", "6"}, {"6", "6", "7"}, {"7", "3", "5"}, {"5", "7", "1"}, {"3", "5", "5"}}
		for v := 0; v < 3; v++ {
			ks := kindSets[(3*ti+v)%len(kindSets)][:len(tp)]
			cfgs = append(cfgs, Config{Name: fmt.Sprintf("SimReport.Init rules on objects %v kinds %v Rsize=%d", tp, ks, rs), Func: "zzC15Report", Harness: &hd,
				Args: []Arg{S(strings.Join(tp, ",")), S(strings.Join(ks, ",")), I(rs)}, Setup: c15DriveHooks})
		}
	}
	sp := &Spec{
		ID: "C15", Level: "proof", Tier: tier, Harness: h, Harnesses: []Harness{h, hd},
		LoadPkgs: []string{"pkg/simbox", "pkg/bondmachine"},
		Opts:     RunOpts{Inits: []string{"pkg/simbox", "pkg/bmnumbers", "pkg/procbuilder", "pkg/bondmachine"}, PanicObl: true},
		Configs:  FilterConfigs(cfgs),
		Assumptions: []string{
			"rule validity: (Timec, Action) is one of the documented pairs; Object and Extra are ASCII strings without ':' of the enumerated lengths; event rules have Tick 0; 2-word config rules have empty Extra",
			"tickmode 0: decimal text of a 64-bit tick is an opaque injective token (contract strconv.Atoi(strconv.Itoa(x)) == x); tickmode 1: ticks below 65536 with exact digit arithmetic through the real strconv semantics model",
			"indices of Del/Suspend/Reactivate are >= 0 (a negative index panics today; the property does not speak about malformed indices)",
			"part 3, SimDrive.Init only: for lists of 1-3 set/other rules on concrete objects (i0, i1, p0r0, p0r1, o0; every pair, selected or all triples) with tick, value, kind (absolute set / periodic set / another kind) and suspended flag as solver variables: for ANY tick and every object the absolute and periodic tables hold exactly the value of the last non-suspended matching rule and nothing otherwise, the injection pointer is the object's location, absolutely-set inputs are marked for valid. bondmachine.ImportNumber is stubbed (the k-th rule's text denotes the k-th value variable; literal import is C08's subject). Likewise SimReport.Init for absolute/periodic/on-exit/on-valid get and show rules (rule kinds concrete per configuration, three kind vectors per object tuple; ticks and suspended flags symbolic): an event table holds an object exactly when a non-suspended event rule names it (on valid: and it has a valid signal) and points at its registration; a table names an object at a tick exactly when a non-suspended rule of that kind does; location, name and type (the first registering rule's Extra) are recorded. On-receive rules, the config rules get_all/show_all and the tick loop in cmd/bondmachine that applies the tables are not covered",
		},
		Bounds: map[string]interface{}{"object_extra_lengths": lens, "forms": 14, "bookkeeping_list_lengths": bookN},
		Rule:   "one obligation per assert/panic site per (rule form, object length, extra length, tick mode); field bytes, ticks, suspended flags and indices are solver variables",
	}
	return Execute(sp)
}
