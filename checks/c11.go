package checks

import (
	"fmt"
	"strings"
)

func C11(tier string) int {
	h := Harness{File: "c11.go", Extra: []string{"lib_bondmachine.go"}, Pkg: "pkg/bondmachine"}
	static := "adc,add,addf,addf16,addi,addp,and,chc,chw,cil,cilc,cir,cirn,clc,clr,cmpr,cmprlt,cmpv,cpy,cset,dec,div,divf,divf16,divp,dpc,expf,hit,hlt,i2r,i2rw,inc,incc,j,ja,jc,jcmpa,jcmpl,jcmpo,jcmpria,jcmprio,je,jgt0f,jo,jri,jria,jrio,jz,k2r,lfsr82r,m2r,m2rri,mod,mulc,mult,multf,multf16,multp,nand,nop,nor,not,or,q2r,r2m,r2mri,r2o,r2owa,r2owaa,r2q,r2s,r2t,r2u,r2v,r2vri,ro2r,ro2rri,rsc,rset,s2r,saj,sbc,sic,sicv2,sicv3,sub,t2r,tsp,u2r,wrd,wwr,xnor,xor"
	dynamic := "rsets8,rsets16,callo4stk,calla4stk,ret4stk,multfps16f8,addfps16f8,divfps16f8"
	type c struct {
		ops0, ops1           string
		slocs, vars, np, nio int
		shared               string
	}
	fam := []c{
		{"add,inc,j,rset", "", 2, 1, 1, 1, ""},
		{static, "i2rw,r2owa,nop", 3, 2, 2, 2, "queue,stack,channel"},
		{dynamic, "add", 1, 0, 1, 1, "sharedmem,barrier,lfsr8,kbd"},
		{"nop", "", 0, 0, 0, 0, "uart,vtextmem1"},
		{"add,inc", "j", 1, 3, 1, 1, ""}, // more ROM data words than program lines
		{"clr", "", 0, 2, 1, 0, ""},      // data with an empty program
	}
	if tier == "thorough" {
		fam = append(fam,
			c{static + "," + dynamic, static, 4, 3, 3, 4, "sharedmem,channel,barrier,lfsr8,vtextmem1,queue,stack,uart,kbd"},
			c{"add", "inc", 8, 0, 4, 6, "vtextmem2,queue,queue,stack"},
			c{"rsets4,rsets32,rsets64", "", 2, 2, 1, 0, "lfsr8,lfsr8"},
		)
	}
	var cfgs []Config
	for _, f := range fam {
		n0 := len(strings.Split(f.ops0, ","))
		for earlier := 0; earlier <= 1; earlier++ {
			cfgs = append(cfgs, Config{
				Name: fmt.Sprintf("domains=(%d ops; %q) slocs=%d vars=%d processors=%d io=%d shared=%q earlier_load=%d", n0, shortOps(strings.Split(f.ops1, ",")), f.slocs, f.vars, f.np, f.nio, f.shared, earlier),
				Func: "zzC11", Args: []Arg{S(f.ops0), S(f.ops1), I(f.slocs), I(f.vars), I(f.np), I(f.nio), S(f.shared), I(earlier)}, Setup: c15Hooks})
		}
	}
	sp := &Spec{
		ID: "C11", Level: "proof", Tier: tier, Harness: h,
		LoadPkgs: []string{"pkg/bondmachine"},
		Opts:     RunOpts{Inits: []string{"pkg/bmnumbers", "pkg/procbuilder", "pkg/bondmachine"}, PanicObl: true},
		Configs:  FilterConfigs(cfgs),
		Assumptions: []string{
			"encoding/json is not encoded: marshal followed by unmarshal is taken as the identity on Machine_json / Bondmachine_json (plain exported data); what is decided is Dejsoner(Jsoner(x)) == x and Jsoner(Dejsoner(Jsoner(x))) == Jsoner(x)",
			"process history: every shape is checked in a fresh process state (package init only) and after an earlier load of another machine in the same process (earlier_load=1), so state the loader keeps between calls is exercised; longer histories are outside",
			"all scalar fields, strings (ASCII, fixed lengths), bond triples, links, processor/domain indices and shared-object parameters are solver variables; list lengths and opcode names are concrete per configuration",
			"shared objects are created from their textual form with symbolic parameters, as Add_shared_objects and Dejsoner do; decimal text of a wide parameter is an injective token (strconv.Atoi(strconv.Itoa(x)) == x), narrow ones use exact digits",
			"excluded from the equality: Conproc.CpID, Arch.Tag, Conproc.SharedHDLOps (generation-time scratch overwritten by Write_verilog before it is read); nil and empty slices are not distinguished",
			"'simulates identically / regenerates identical Verilog' follow from structural equality (both are functions of the struct) and are not re-checked; front-end produced machines, FloPoCo/linear-quantiser dynamic opcodes and threaded CPs beyond the Threaded field are outside",
		},
		Bounds: map[string]interface{}{"configurations": len(cfgs), "static_opcodes": len(strings.Split(static, ",")), "dynamic_opcodes": dynamic},
		Rule:   "one obligation per deep-equality / no-silent-drop assertion per machine shape; the equality term is generated from the Go struct types",
	}
	return Execute(sp)
}
