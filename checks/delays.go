package checks

import (
	"golang.org/x/tools/go/ssa"

	"verif/symgo"
)

const repoMod = "github.com/BondMachineHQ/BondMachine"

// delayHooks stubs simbox.DelayDistribution.GetValue (a random draw over a map
// of float probabilities) by its contract: the result is one of the delays of
// the distribution. The harnesses use single-delay distributions, for which the
// real function is deterministic, so counterexamples replay natively.
func delayHooks(in *symgo.Interp) {
	in.Hooks["(*"+repoMod+"/pkg/simbox.DelayDistribution).GetValue"] = func(in *symgo.Interp, fn *ssa.Function, args []symgo.Value) (symgo.Value, bool) {
		return in.PickMapKey(args[0], "delay-draw", 32), true
	}
}
