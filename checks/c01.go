package checks

import (
	"fmt"
	"strconv"
	"strings"
	"sync"
	"time"

	"verif/smt"
	"verif/symgo"
	"verif/vlog"
)

// co-implemented (opcode, Rsize) pairs: see DESIGN Appendix A and checks/c01 notes.
// ja is left out: in mode ha its state-machine text assigns vn_state, which only the hy/vn processor
// declares (the generated file does not elaborate; C18-class, outside this property).
var c01AllSizes = []string{"add", "clr", "cpy", "dec", "inc", "jz", "mult", "nop", "rset", "i2r", "r2o", "div", "j", "jo", "mulc"}

// addi is checked in an opcode set of its own: together with i2r the generated processor declares
// "reg i0_recv" twice (both opcodes emit it; addi is missing from procbuilder's "inputrecv" unique list),
// which no Verilog front end accepts - a C18-class matter, outside this property.
var c01Small = []string{"and", "or", "xor", "nand", "nor", "not", "xnor", "adc", "incc", "sbc", "rsc", "cilc", "mod", "cir", "cirn", "cil"}

type c01Arch struct {
	rsize, r, n, m, l, o int
	ops                  []string
	hwopt                string // "" or "<opcode>:<reg>+<reg>;...": onlydestregs optimisation derived from a program's register use
}

func (a c01Arch) key() string {
	k := fmt.Sprintf("Rsize=%d R=%d N=%d M=%d L=%d O=%d ops(%d)=%s", a.rsize, a.r, a.n, a.m, a.l, a.o, len(a.ops), shortOps(a.ops))
	if a.hwopt != "" {
		k += " onlydestregs{" + a.hwopt + "}"
	}
	return k
}

func shortOps(ops []string) string {
	s := strings.Join(ops, ",")
	if len(s) > 40 {
		return s[:37] + "..."
	}
	return s
}

func (a c01Arch) args() []string {
	r := []string{strconv.Itoa(a.rsize), strconv.Itoa(a.r), strconv.Itoa(a.n), strconv.Itoa(a.m), strconv.Itoa(a.l), strconv.Itoa(a.o), strings.Join(a.ops, ",")}
	if a.hwopt != "" {
		r = append(r, "hwopt="+a.hwopt)
	}
	return r
}

// opcodes of the co-implemented set whose generators consult the onlydestregs requirement
var c01DestRegOps = map[string]bool{"dec": true, "inc": true, "jz": true, "rset": true}

func c01Ops(rsize int) []string {
	ops := append([]string{}, c01AllSizes...)
	if rsize <= 16 {
		ops = append(ops, c01Small...)
	}
	return ops
}

func C01(tier string) int {
	t0 := time.Now()
	if err := BuildNative(); err != nil {
		fmt.Println("MACHINERY:", err)
		return 2
	}
	h := Harness{File: "c01.go", Extra: hProcLib, Pkg: "pkg/procbuilder"}
	var archs []c01Arch
	for _, rs := range []int{8, 16} {
		for _, r := range []int{1, 2} {
			archs = append(archs, c01Arch{rs, r, 1, 1, 0, 3, c01Ops(rs), ""})
		}
	}
	archs = append(archs, c01Arch{8, 2, 2, 2, 0, 2, []string{"add", "i2r", "inc", "j", "jz", "r2o", "rset"}, ""})
	archs = append(archs, c01Arch{8, 1, 0, 0, 0, 3, []string{"inc", "nop"}, ""})
	// more outputs than the input selector can count (port tables of different widths), more inputs than outputs
	archs = append(archs, c01Arch{8, 1, 1, 3, 0, 3, []string{"i2r", "inc", "j", "r2o", "rset"}, ""}, c01Arch{16, 2, 3, 1, 0, 2, []string{"cpy", "i2r", "jz", "r2o"}, ""})
	// wide registers, without the opcodes whose wide queries are slow (kept for the thorough tier)
	archs = append(archs, c01Arch{64, 1, 1, 1, 0, 3, []string{"add", "clr", "cpy", "dec", "i2r", "inc", "j", "jz", "nop", "r2o"}, ""},
		c01Arch{32, 2, 1, 1, 0, 2, []string{"add", "cpy", "dec", "i2r", "inc", "jz", "r2o"}, ""})
	// hardware optimisation derived from a program: destination registers per opcode
	hwOps := []string{"add", "cpy", "dec", "i2r", "inc", "j", "jz", "nop", "r2o", "rset"}
	archs = append(archs, c01Arch{8, 2, 1, 1, 0, 3, hwOps, "dec:r1;inc:r0+r2;jz:r3;rset:r0+r1+r2+r3"},
		c01Arch{16, 2, 1, 1, 0, 3, hwOps, "inc:r0;dec:r1+r3;rset:r2"},
		c01Arch{8, 1, 1, 1, 0, 3, hwOps, "inc:r1;dec:r0;jz:r0+r1;rset:r0"})
	archs = append(archs, c01Arch{8, 2, 1, 0, 0, 3, []string{"addi", "inc", "nop"}, ""}, c01Arch{16, 1, 2, 0, 0, 3, []string{"addi", "nop"}, ""})
	if tier == "thorough" {
		for _, rs := range []int{32, 64} {
			for _, r := range []int{1, 2} {
				archs = append(archs, c01Arch{rs, r, 1, 1, 0, 3, c01Ops(rs), ""})
			}
		}
		archs = append(archs, c01Arch{8, 3, 2, 2, 0, 4, c01Ops(8), ""}, c01Arch{16, 3, 1, 2, 0, 2, c01Ops(16), ""},
			c01Arch{8, 2, 1, 1, 0, 3, []string{"add", "i2r", "r2o"}, ""}, c01Arch{16, 2, 0, 1, 0, 3, []string{"inc", "r2o"}, ""},
			c01Arch{32, 2, 2, 1, 0, 4, []string{"add", "cpy", "i2r", "inc", "j", "jz", "mult", "r2o", "rset"}, ""},
			c01Arch{32, 2, 1, 1, 0, 3, hwOps, "inc:r0+r3;dec:r1;jz:r2;rset:r0+r1+r2"},
			c01Arch{64, 2, 1, 1, 0, 3, hwOps, "inc:r3;dec:r3;jz:r0;rset:r1+r2"})
	}
	// generated HDL per architecture, from the current tree
	designs := map[string]*vlog.Design{}
	infos := map[string]map[string]string{}
	var machinery []string
	var mu sync.Mutex
	var wg sync.WaitGroup
	for _, a := range archs {
		wg.Add(1)
		go func(a c01Arch) {
			defer wg.Done()
			src, err := Native(append([]string{"proc"}, a.args()...)...)
			var d *vlog.Design
			var info map[string]string
			if err == nil {
				var mods []*vlog.Module
				mods, info, err = ParseFiles(src)
				if err == nil {
					d, err = vlog.Elaborate(mods, "a0", nil)
				}
			}
			mu.Lock()
			defer mu.Unlock()
			if err != nil {
				machinery = append(machinery, fmt.Sprintf("ENCODING-FAILURE %s: %v", a.key(), err))
				return
			}
			designs[a.key()], infos[a.key()] = d, info
		}(a)
	}
	wg.Wait()
	var cfgs []Config
	archOf := map[string]c01Arch{}
	for _, a := range archs {
		if designs[a.key()] == nil {
			continue
		}
		for _, op := range a.ops {
			if a.hwopt != "" && c01DestRegOps[op] && !strings.Contains(";"+a.hwopt, ";"+op+":") {
				continue // the program the optimisation was derived from does not use this opcode at all
			}
			// members whose queries did not finish within the timeout in the thorough tier are not part of the claim:
			// 8-register files with multiplier/divider opcodes (operand multiplexers x 64 products), and the
			// 32/64-bit immediate of rset (a 32/64-character field decoded bit by bit)
			if (a.r >= 3 && (op == "mult" || op == "mulc" || op == "div" || op == "mod")) || (a.rsize >= 32 && op == "rset") {
				continue
			}
			name := a.key() + " op=" + op
			archOf[name] = a
			cfgs = append(cfgs, Config{Name: name, Func: "zzC01Step",
				Args: []Arg{I(a.rsize), I(a.r), I(a.n), I(a.m), I(a.l), I(a.o), S(strings.Join(a.ops, ",")), S(op), S(a.hwopt)}})
		}
	}
	cfgs = FilterConfigs(cfgs)
	post := func(o *Outcome, in *symgo.Interp) {
		a := archOf[o.Config.Name]
		d := designs[a.key()]
		st := in.St
		ev := vlog.NewEval(d, st, "hdl.")
		ev.Lift = func(op smt.Op, x, y *smt.Term) *smt.Term { return symgo.LiftBin(st, op, x, y, 6) }
		ev.FreshState("s")
		ev.FreshInputs("i")
		ev.In["reset_signal"] = st.BV(0, 1)
		W, _ := strconv.Atoi(infos[a.key()]["maxword"])
		bit := func(b *smt.Term) *smt.Term { return st.Ite(b, st.BV(1, 1), st.BV(0, 1)) }
		// ROM words from the same bits the simulator reads
		rom := make([]*smt.Term, 1<<uint(a.o))
		for i := range rom {
			var w *smt.Term
			for j := 0; j < W; j++ {
				b := bit(st.Var(fmt.Sprintf("rom#%d.%d", i, j), 0))
				if w == nil {
					w = b
				} else {
					w = st.Concat(w, b)
				}
			}
			rom[i] = w
		}
		if _, ok := d.Sigs["p0rom_instance._rom"]; !ok {
			o.Err = "ENCODING-FAILURE: ROM memory not found in the generated design"
			return
		}
		ev.Cur.Mems["p0rom_instance._rom"] = rom
		pc := st.Var("pc#0", 64)
		ev.Cur.Regs["p0_instance._pc"] = st.Extract(a.o-1, 0, pc)
		nreg := 1 << uint(a.r)
		for i := 0; i < nreg; i++ {
			ev.Cur.Regs[fmt.Sprintf("p0_instance._r%d", i)] = st.Var(fmt.Sprintf("reg#%d", i), a.rsize)
		}
		for i := 0; i < a.n; i++ {
			ev.In[fmt.Sprintf("i%d", i)] = st.Var(fmt.Sprintf("in#%d", i), a.rsize)
			ev.In[fmt.Sprintf("i%d_valid", i)] = bit(st.Var(fmt.Sprintf("invalid#%d", i), 0))
		}
		for i := 0; i < a.m; i++ {
			ev.Cur.Regs[fmt.Sprintf("p0_instance._auxo%d", i)] = st.Var(fmt.Sprintf("out#%d", i), a.rsize)
			ev.In[fmt.Sprintf("o%d_received", i)] = bit(st.Var(fmt.Sprintf("outrecv#%d", i), 0))
		}
		nx, err := ev.Step()
		if err != nil {
			o.Err = err.Error()
			return
		}
		cmp := func(tag string, hdl *smt.Term, simName string) {
			sv, ok := in.Exports[simName]
			if !ok {
				o.Err += " missing export " + simName
				return
			}
			t, ok := sv.(*smt.Term)
			if !ok {
				o.Err += " export " + simName + " is not a scalar"
				return
			}
			if hdl == nil {
				o.Err += " HDL register for " + tag + " not found"
				return
			}
			if t.W > hdl.W {
				t = st.Extract(hdl.W-1, 0, t)
			}
			in.AddObligation(&symgo.Obligation{Kind: "assert", Tag: tag, Pos: "hdl-vs-sim", Guard: st.T, Cond: st.Eq(hdl, t)})
		}
		cmp("pc", nx.Regs["p0_instance._pc"], "pc")
		for i := 0; i < nreg; i++ {
			cmp(fmt.Sprintf("r%d", i), nx.Regs[fmt.Sprintf("p0_instance._r%d", i)], fmt.Sprintf("r%d", i))
		}
		for i := 0; i < a.m; i++ {
			cmp(fmt.Sprintf("out%d", i), nx.Regs[fmt.Sprintf("p0_instance._auxo%d", i)], fmt.Sprintf("out%d", i))
		}
	}
	sp := &Spec{
		ID: "C01", Level: "translation_validation", Tier: tier, Harness: h,
		LoadPkgs: []string{"pkg/procbuilder"},
		Opts:     RunOpts{Pkg: h.Pkg, Inits: []string{"pkg/procbuilder"}, Post: post, TimeoutMs: map[string]int{"quick": 60000, "thorough": 240000}[tier]},
		Assumptions: []string{
			"one retired instruction from an ARBITRARY state (inductive step): every ROM word, pc, register, input, output register and valid/received flag is a solver variable; the instruction at pc is an instance of the opcode under check (operands arbitrary within the simulator's own bounds: an out-of-range port index, which makes the simulator panic, and division by zero are assumed away)",
			"pc+1 exists in the ROM (programs do not run off the end: the simulator halts there, the hardware wraps)",
			"family members left out because their queries did not finish: mult/mulc/div/mod on 8-register files (R=3), rset at register sizes 32 and 64, and R=3 at register sizes 32 and 64",
			"mode ha, single-cycle opcodes of the co-implemented set (DESIGN Appendix A); RAM, handshaked I/O (checked under C04), floating-point, shared-object, threaded and pipelined opcodes and hardware optimisations derived from a program are outside this check",
			"HDL flags without a simulator counterpart (carryflag, i/o handshake registers) are arbitrary before the step and not compared",
			"two-state Verilog semantics of /verif/vlog; multipliers/dividers are distributed over operand multiplexers on both sides so that both reduce to the same leaf operations",
		},
		Rule: "one obligation per compared state element (pc, each register, each output port) per (architecture, opcode); programs = (architecture, opcode) pairs",
		Extra: func(cov map[string]interface{}, outs []Outcome) {
			cov["programs"] = len(outs)
			cov["disagreements_checked"] = len(outs)
		},
	}
	sp.Bounds = map[string]interface{}{"architectures": func() []string {
		var r []string
		for _, a := range archs {
			r = append(r, a.key())
		}
		return r
	}(), "opcodes_all_sizes": c01AllSizes, "opcodes_8_16_only": c01Small}
	p := LoadProgram(sp.LoadPkgs, h)
	loadS := time.Since(t0).Seconds()
	outs := RunFamily(p, cfgs, sp.Opts)
	code := Finish(sp, outs, t0, loadS)
	for _, m := range machinery {
		fmt.Println("MACHINERY:", m)
	}
	if len(machinery) > 0 && code == 0 {
		code = 2
	}
	return code
}
