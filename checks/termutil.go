package checks

import "verif/smt"

func termVars(t *smt.Term) []*smt.Term {
	seen := map[*smt.Term]bool{}
	var vars []*smt.Term
	var rec func(*smt.Term)
	rec = func(x *smt.Term) {
		if seen[x] {
			return
		}
		seen[x] = true
		if x.Op == smt.OpVar {
			vars = append(vars, x)
		}
		for _, a := range x.Args {
			rec(a)
		}
	}
	rec(t)
	return vars
}
