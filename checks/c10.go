package checks

import (
	"fmt"
)

var c10Edits = []string{"Del_input", "Del_output", "Add_input", "Add_output", "Add_processor", "Del_bond", "Add_bond", "Attach_benchmark_core"}

func c10Histories(maxLen int, ndom int) []string {
	ops := []string{"I", "O"}
	for d := 0; d < ndom; d++ {
		ops = append(ops, fmt.Sprintf("P%d", d))
	}
	var res []string
	var rec func(cur string, n int)
	rec = func(cur string, n int) {
		res = append(res, cur)
		if n == maxLen {
			return
		}
		for _, o := range ops {
			rec(cur+o, n+1)
		}
	}
	rec("", 0)
	return res
}

func shapeCounts(hist, doms string) (nin, nout int) {
	for i := 0; i < len(hist); i++ {
		switch hist[i] {
		case 'I':
			nout++
		case 'O':
			nin++
		case 'P':
			i++
			d := int(hist[i] - '0')
			nin += int(doms[2*d] - '0')
			nout += int(doms[2*d+1] - '0')
		}
	}
	return
}

func C10(tier string) int {
	seed := Seed()
	domSets := []string{"112102", "122011"}
	maxLen, sample := 5, 260
	if tier == "thorough" {
		maxLen, sample = 6, 6000
		domSets = []string{"112102", "122011", "002221"}
	}
	var cfgs []Config
	for _, doms := range domSets {
		hs := c10Histories(maxLen, len(doms)/2)
		// histories with deletions in them (the shape they yield is also produced by additions only; kept as a cross-check of that claim)
		hs = append(hs, "IIOi0", "IOOo0P0", "P0IIi1O", "IP1Oi0I", "OOP0o1o0")
		var all []Config
		for _, h := range hs {
			nin, nout := shapeCounts(h, doms)
			for e := range c10Edits {
				for _, inr := range []int{1, 0} {
					if (e == 2 || e == 3) && inr == 0 {
						continue
					}
					ni, no := 0, 0
					for k := 0; k < len(h); k++ {
						switch h[k] {
						case 'I':
							ni++
						case 'O':
							no++
						case 'i':
							ni--
						case 'o':
							no--
						}
					}
					if inr == 1 && ((e == 0 && ni == 0) || (e == 1 && no == 0) || (e == 5 && nin == 0)) {
						continue // no in-range argument exists on this shape
					}
					if e == 7 {
						if inr == 0 {
							continue
						}
						// one configuration per pair of internal outputs (names are text, hence concrete)
						for a := 0; a < nout; a++ {
							for b := 0; b < nout; b++ {
								all = append(all, Config{Name: fmt.Sprintf("doms=%s hist=%q %s out=%d out=%d", doms, h, c10Edits[e], a, b), Func: "zzC10",
									Args: []Arg{S(h), S(doms), I(e), I(1), I(a), I(b)}})
							}
						}
						continue
					}
					if e == 6 {
						// one configuration per endpoint pair (names are text, hence concrete)
						for a := 0; a < nin; a++ {
							for b := 0; b < nout; b++ {
								all = append(all, Config{Name: fmt.Sprintf("doms=%s hist=%q %s order=%d in=%d out=%d", doms, h, c10Edits[e], inr, a, b), Func: "zzC10",
									Args: []Arg{S(h), S(doms), I(e), I(inr), I(a), I(b)}})
							}
						}
						continue
					}
					all = append(all, Config{Name: fmt.Sprintf("doms=%s hist=%q %s inrange=%d", doms, h, c10Edits[e], inr), Func: "zzC10",
						Args: []Arg{S(h), S(doms), I(e), I(inr), I(0), I(0)}})
				}
			}
		}
		// stratified by (edit, in/out of range): Add_bond has one configuration per endpoint pair and
		// would otherwise crowd the deletions out of the sample
		groups := map[string][]Config{}
		var order []string
		for _, c := range all {
			k := fmt.Sprint(c.Args[2].I, "/", c.Args[3].I)
			if _, ok := groups[k]; !ok {
				order = append(order, k)
			}
			groups[k] = append(groups[k], c)
		}
		for _, k := range order {
			per := 0
			if sample > 0 {
				per = (sample + len(order) - 1) / len(order)
			}
			cfgs = append(cfgs, Sample(groups[k], per, seed)...)
		}
	}
	sp := &Spec{
		ID: "C10", Level: "proof", Tier: tier,
		Harness:  Harness{File: "c10.go", Pkg: "pkg/bondmachine"},
		LoadPkgs: []string{"pkg/bondmachine"},
		Opts:     RunOpts{Inits: []string{"pkg/bmnumbers", "pkg/procbuilder", "pkg/bondmachine"}, PanicObl: true},
		Configs:  cfgs,
		Assumptions: []string{
			"edit arguments (input/output/bond/domain ids) are >= 0 (documented domain of an id)",
			"pre-state: any link table with every entry in [-1, len(Internal_outputs)) on an endpoint shape produced by real Add_* calls (deletions do not create new shapes; cross-checked on five histories with deletions)",
			"panics in the edit functions are obligations (none may be reachable)",
			"shapes beyond the history-length bound are outside the claim",
		},
		Bounds: map[string]interface{}{"history_length_max": maxLen, "domain_sets_NM": domSets, "edits": c10Edits, "sampled_per_domain_set": sample, "sampling": "stratified by (edit, in/out of range)"},
		Rule:   "one obligation = one zzAssert/panic site of the harness under one (domain set, history, edit, in/out-of-range) configuration; non-trivial = reachability witness sat and the obligation's negation was sent to the solver; distinct by (function, args, tag, position)",
	}
	return Execute(sp)
}
