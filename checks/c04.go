package checks

import (
	"fmt"
	"os"
	"strings"
	"sync"
	"time"

	"verif/symgo"
)

func C04(tier string) int {
	h := Harness{File: "c04.go", Extra: []string{"lib_bondmachine.go"}, Pkg: "pkg/bondmachine"}
	type p struct{ k, words, T, delay int }
	fam := []p{{1, 2, 8, 0}, {1, 3, 8, 0}, {2, 2, 7, 0}, {1, 2, 10, 2}}
	if tier == "thorough" {
		fam = []p{{1, 2, 12, 0}, {1, 3, 12, 0}, {1, 4, 10, 0}, {2, 2, 10, 0}, {2, 3, 8, 0}, {3, 2, 8, 0}, {3, 3, 8, 0}, {1, 2, 12, 3}, {1, 3, 12, 2}, {2, 2, 10, 2}}
	}
	var cfgs []Config
	for _, f := range fam {
		for mode := 0; mode <= 1; mode++ {
			for order := 0; order <= 1; order++ {
				if order == 1 && f.k == 1 && mode == 0 {
					continue
				}
				mname := "strict"
				if mode == 1 {
					mname = "known-situations-excluded"
				}
				k, ord := f.k, order
				cfgs = append(cfgs, Config{
					Name: fmt.Sprintf("consumers=%d program_words=%d ticks=%d mode=%s order=%d delays<=%d", f.k, f.words, f.T, mname, order, f.delay),
					Func: "zzC04", Args: []Arg{I(f.k), I(f.words), I(f.T), I(mode), I(f.delay)},
					Setup: func(in *symgo.Interp) {
						in.MaxUnion = 64 // the deferred-instruction maps gain one alternative per tick
						delayHooks(in)
						// goroutine ids: 1 = EmuDriverDispatcher, 2.. = processors in creation order
						var o []int
						for i := 0; i <= k; i++ {
							o = append(o, 2+i)
						}
						if ord == 1 {
							for i, j := 0, len(o)-1; i < j; i, j = i+1, j-1 {
								o[i], o[j] = o[j], o[i]
							}
						}
						in.SchedOrder = o
					},
				})
			}
		}
	}
	// fan-in: two producers into the two inputs of one consumer
	type fi struct{ words, T int }
	fanin := []fi{{2, 7}}
	if tier == "thorough" {
		fanin = []fi{{2, 9}, {3, 8}}
	}
	for _, f := range fanin {
		for mode := 0; mode <= 1; mode++ {
			mname := "strict"
			if mode == 1 {
				mname = "known-situations-excluded"
			}
			cfgs = append(cfgs, Config{Name: fmt.Sprintf("fan-in producers=2 program_words=%d ticks=%d mode=%s", f.words, f.T, mname), Func: "zzC04FanIn",
				Args: []Arg{I(f.words), I(f.T), I(mode)}, Setup: func(in *symgo.Interp) { in.MaxUnion = 64; in.SchedOrder = []int{2, 3, 4} }})
		}
	}
	// port selection: processors whose input and output counts need different index widths
	for _, q := range [][5]int{{1, 3, 2, 1, 0}, {1, 3, 1, 2, 1}, {0, 2, 1, 3, 2}, {2, 1, 0, 1, 0}, {3, 2, 1, 4, 3}, {1, 4, 3, 2, 0}} {
		cfgs = append(cfgs, Config{Name: fmt.Sprintf("port selection: producer N=%d M=%d sends on o%d, consumer N=%d reads i%d", q[0], q[1], q[2], q[3], q[4]), Func: "zzC04Port",
			Args: []Arg{I(q[0]), I(q[1]), I(q[2]), I(q[3]), I(q[4])}, Setup: func(in *symgo.Interp) { in.SchedOrder = []int{2, 3} }})
	}
	sp := &Spec{
		ID: "C04", Level: "model_checking", Tier: tier, Harness: h,
		LoadPkgs: []string{"pkg/bondmachine"},
		Opts:     RunOpts{Inits: []string{"pkg/bmnumbers", "pkg/procbuilder", "pkg/bondmachine"}, ConfigBudgetS: 1500, TimeoutMs: 120000},
		Configs:  FilterConfigs(cfgs),
		Assumptions: []string{
			"simulator side: bondmachine.VM.Step, Processor_execute, procbuilder.VM.Step, R2owa/I2rw.Simulate, waitRecvI2rw, Add/ExecuteDeferredInstructions executed symbolically; the generated hardware is covered by the hdl configurations (their bounds are listed with them)",
			"one producer (opcodes inc,j,nop,r2owa) bonded to k consumers (cpy,i2rw,inc,j,nop), 8-bit registers, R=1; every ROM word of the first program_words addresses and every initial register is a solver variable (any instruction mix, any padding, hence any relative speed); the rest of the ROM jumps to 0",
			"port-selection configurations: concrete two-instruction programs on processors whose input and output counts need different index widths; the value sent on o<j> (a solver variable) is received from i<e> within 8 ticks",
			"fan-in configurations: two producers bonded to the two inputs of one consumer (N=2), the same monitor per link",
			"bounded horizon (ticks) from the reset state of the handshake flags; configurations with delays<=D give every opcode a single-delay distribution whose delay is a solver variable in 0..D (SimDelayMap); simbox.DelayDistribution.GetValue is stubbed by its contract (returns one of the delays of the distribution), multi-valued distributions are outside",
			"goroutines: deterministic run-until-block scheduler, sends do not block, two resume orders of the processor workers; Go-scheduler interleavings and data races are outside (C09)",
			"mode=known-situations-excluded assumes away exactly the two recorded defects: (i) an i2rw executing while its input's received flag is still high from the previous capture, (ii) an r2owa starting a new offer while received is still high from the previous transfer; everything else must hold there",
			"a panic of the simulator is assumed away (operands out of range)",
		},
		Bounds:       map[string]interface{}{"family_consumers_words_ticks": fam},
		Rule:         "states/transitions: one symbolic state per tick covering all programs and register values at once; obligations: no-loss, no-duplicate, same-value-in-order per consumer per tick",
		ViolationKey: func(o *Outcome, ob *OblResult) string { return o.Config.Name + ";" + ob.Kind + ":" + ob.Tag },
		MaxReplays:   6,
	}
	sp.Extra = func(cov map[string]interface{}, outs []Outcome) {
		ticks := 0
		for _, o := range outs {
			if len(o.Config.Args) >= 3 {
				ticks += int(o.Config.Args[2].I)
			} else {
				ticks += 16 // hardware side: cycles of the unrolling
			}
		}
		cov["states"] = ticks
		cov["transitions"] = ticks
		cov["traces_validated_against_impl"] = cov["known_findings_seen"]
		n := 0
		if m, ok := cov["known_findings_seen"].(map[string]int); ok {
			for range m {
				n++
			}
		}
		cov["traces_validated_against_impl"] = n
	}
	// hardware side: BMC of the generated Verilog, in parallel with the simulator side
	t0 := time.Now()
	if err := BuildNative(); err != nil {
		fmt.Println("MACHINERY:", err)
		return 2
	}
	type hp struct{ k, words, T, mode, outs int }
	hfam := []hp{{1, 2, 16, 0, 1}, {1, 2, 16, 1, 1}, {1, 3, 16, 1, 1}, {2, 2, 14, 1, 1}, {2, 4, 12, 1, 2}}
	if tier == "thorough" {
		hfam = []hp{{1, 2, 24, 0, 1}, {1, 2, 24, 1, 1}, {1, 3, 24, 1, 1}, {1, 4, 20, 1, 1}, {2, 2, 20, 0, 1}, {2, 2, 20, 1, 1}, {2, 3, 18, 1, 1}, {3, 2, 16, 1, 1}, {2, 3, 18, 1, 2}, {2, 4, 14, 1, 2}}
	}
	hout := make([]Outcome, len(hfam))
	var wg sync.WaitGroup
	for i, f := range hfam {
		name := fmt.Sprintf("hdl consumers=%d program_words=%d", f.k, f.words)
		if flt := os.Getenv("BMV_FILTER"); flt != "" && !strings.Contains(name, flt) && !strings.HasPrefix(flt, "hdl") {
			continue
		}
		wg.Add(1)
		go func(i int, f hp) {
			defer wg.Done()
			hout[i] = c04HDLOuts(f.k, f.words, f.T, f.mode, f.outs)
		}(i, f)
	}
	prog := LoadProgram(sp.LoadPkgs, h)
	loadS := time.Since(t0).Seconds()
	sp.Opts.Pkg = h.Pkg
	outs := RunFamily(prog, sp.Configs, sp.Opts)
	wg.Wait()
	for _, ho := range hout {
		if ho.Config.Name != "" {
			outs = append(outs, ho)
		}
	}
	sp.Bounds["hdl_family_consumers_words_cycles_mode"] = hfam
	return Finish(sp, outs, t0, loadS)
}
