package checks

import (
	"fmt"
	"math/rand"
	"os"
	"path/filepath"
	"strconv"
	"strings"
	"time"

	"verif/symgo"
)

// c05Source renders one .basm source of the family: one CP, a romtext section with labels on their own
// lines, an entry directive, forward and backward jumps, macros without arguments, mov with literals in
// four notations, register moves, asynchronous I/O.
type c05Params struct {
	seed, rsize, nregs, nin, nout, nlines, nmacros int
	entryLater                                     bool   // the entry label is not on the first instruction
	doubleMacro                                    bool   // two macro invocations in a row
	entryDirAt                                     int    // number of body lines written before the entry directive (0: it is the first line)
	withData                                       bool   // the CP also has a ROM data section (not read by the code)
	iomode                                         string // "": not mentioned; two letters: where (g global, s section + the opposite global) and what (s sync, a async)
}

func c05Source(p c05Params) string {
	r := rand.New(rand.NewSource(int64(p.seed)))
	reg := func() string { return fmt.Sprintf("r%d", r.Intn(p.nregs)) }
	lit := func() string {
		v := r.Intn(32)
		switch r.Intn(4) {
		case 0:
			return fmt.Sprintf("0x%x", v)
		case 1:
			return fmt.Sprintf("0b%b", v)
		case 2:
			return fmt.Sprintf("0d%d", v)
		}
		return strconv.Itoa(v)
	}
	simple := func() string {
		switch r.Intn(8) {
		case 7:
			return "rset " + reg() + ", " + strconv.Itoa(r.Intn(32)) // the real opcode next to its mov alias
		case 0:
			return "mov " + reg() + ", " + lit()
		case 1:
			return "inc " + reg()
		case 2:
			return "dec " + reg()
		case 3:
			return "add " + reg() + ", " + reg()
		case 4:
			return "mov " + reg() + ", " + reg()
		case 5:
			return "clr " + reg()
		}
		return "nop"
	}
	var sb strings.Builder
	macroLen := map[string]int{}
	for m := 0; m < p.nmacros; m++ {
		fmt.Fprintf(&sb, "%%macro mac%d 0\n", m)
		n := 1 + r.Intn(3)
		for k := 0; k < n; k++ {
			sb.WriteString("        " + simple() + "\n")
		}
		macroLen[fmt.Sprintf("mac%d", m)] = n
		sb.WriteString("%endmacro\n")
	}
	// body lines; labels denote the line that follows them
	nl := p.nlines
	nlab := 2 + r.Intn(3)
	labAt := map[int][]string{}
	var labs []string
	for k := 0; k < nlab; k++ {
		name := fmt.Sprintf("_l%d", k)
		labs = append(labs, name)
		at := r.Intn(nl)
		labAt[at] = append(labAt[at], name)
	}
	entryAt := 0
	if p.entryLater {
		entryAt = 1 + r.Intn(nl-1)
	}
	labAt[entryAt] = append(labAt[entryAt], "_start")
	var body []string
	// the highest register and every port are mentioned so that the inferred machine has them
	body = append(body, fmt.Sprintf("mov r%d, %s", p.nregs-1, lit()))
	for i := 0; i < p.nin; i++ {
		body = append(body, fmt.Sprintf("i2r %s, i%d", reg(), i))
	}
	if p.withData {
		// the code takes the address of a variable by name and reads the cell it names
		v := []string{"answer", "table", "last"}[r.Intn(3)]
		a1, a2 := p.nregs-1, r.Intn(p.nregs)
		// a jump may land on the address load, not between it and the read (the read would then use whatever the
		// register holds, possibly the address of a code word, whose value is not part of the source's meaning)
		at := len(body)
		for _, k := range []int{at + 1, at + 2} {
			labAt[at] = append(labAt[at], labAt[k]...)
			delete(labAt, k)
		}
		body = append(body, fmt.Sprintf("rset r%d, rom:%s", a1, v), fmt.Sprintf("ro2rri r%d, r%d", a2, a1), fmt.Sprintf("r2o r%d, o0", a2))
	}
	if p.iomode != "" && p.nin > 0 {
		body = append(body, fmt.Sprintf("mov %s, i%d", reg(), r.Intn(p.nin))) // at least one read whose opcode the I/O mode decides
	}
	macroPut := false
	for len(body) < nl-p.nout-1 {
		switch k := r.Intn(10); {
		case k == 0:
			body = append(body, "jz "+reg()+", "+labs[r.Intn(len(labs))])
		case k == 1 && p.nmacros > 0:
			body = append(body, fmt.Sprintf("mac%d", r.Intn(p.nmacros)))
			if p.doubleMacro && !macroPut {
				body = append(body, fmt.Sprintf("mac%d", r.Intn(p.nmacros)))
				macroPut = true
			}
		case k == 2 && p.nout > 0:
			body = append(body, fmt.Sprintf("r2o %s, o%d", reg(), r.Intn(p.nout)))
		case k == 3 && p.nin > 0 && p.iomode != "":
			body = append(body, fmt.Sprintf("mov %s, i%d", reg(), r.Intn(p.nin))) // i2r or i2rw, by the I/O mode in force
		case k == 3 && p.nin > 0:
			body = append(body, fmt.Sprintf("i2r %s, i%d", reg(), r.Intn(p.nin)))
		default:
			body = append(body, simple())
		}
	}
	for i := 0; i < p.nout; i++ {
		body = append(body, fmt.Sprintf("r2o r%d, o%d", i%p.nregs, i))
	}
	body = append(body, "j "+labs[r.Intn(len(labs))])
	word := map[byte]string{'s': "sync", 'a': "async"}
	if len(p.iomode) == 2 && p.iomode[0] == 's' {
		sb.WriteString("%section prog .romtext iomode:" + word[p.iomode[1]] + "\n")
	} else {
		sb.WriteString("%section prog .romtext\n")
	}
	for i, l := range body {
		if i == p.entryDirAt {
			sb.WriteString("        entry _start\n") // the directive may stand anywhere in the section
		}
		for _, name := range labAt[i] {
			sb.WriteString(name + ":\n")
		}
		sb.WriteString("        " + l + "\n")
	}
	// labels placed past the last body line would denote nothing: the family keeps them inside
	if p.withData {
		// a data section with a one-cell and a three-cell variable: the ROM holds code then data
		// the repeated variable is sized so that code + number of variables and code + number of cells need
		// different address widths (the ROM is sized from the cells)
		L := 0
		for _, l := range body {
			if n, ok := macroLen[l]; ok {
				L += n
			} else {
				L++
			}
		}
		pow := 1
		for pow < L+4 {
			pow *= 2
		}
		rep := 1
		for L+5+2*rep <= pow && rep < 12 {
			rep++
		}
		fmt.Fprintf(&sb, "%%endsection\n%%section data1 .romdata\n        answer db 0x2a\n        table db 0x05, 0x06, 0x07\n        pad %d:db 0x0b, 0x0c\n        last db 0x11\n%%endsection\n%%meta cpdef  cpu   romcode: prog, romdata: data1, execmode: ha\n", rep)
	} else {
		sb.WriteString("%endsection\n%meta cpdef  cpu   romcode: prog, execmode: ha\n")
	}
	for i := 0; i < p.nin; i++ {
		fmt.Fprintf(&sb, "%%meta ioatt  in%d   cp: cpu, index:%d, type:input\n%%meta ioatt  in%d   cp: bm, index:%d, type:input\n", i, i, i, i)
	}
	for i := 0; i < p.nout; i++ {
		fmt.Fprintf(&sb, "%%meta ioatt  out%d  cp: cpu, index:%d, type:output\n%%meta ioatt  out%d  cp: bm, index:%d, type:output\n", i, i, i, i)
	}
	fmt.Fprintf(&sb, "%%meta bmdef  global registersize:%d\n", p.rsize)
	if len(p.iomode) == 2 {
		g := p.iomode[1]
		if p.iomode[0] == 's' { // the section overrides the opposite global default
			g = map[byte]byte{'s': 'a', 'a': 's'}[g]
		}
		fmt.Fprintf(&sb, "%%meta bmdef  global iomode: %s\n", word[g])
	}
	return sb.String()
}

// c05Wired: two CPs joined by two handshaked links whose output and input indices differ, every order of
// declaring the endpoints; straight-line programs that park in a self-loop.
func c05Wired(rsize, s0, d0 int, inputFirst bool, a, b int) string {
	s1, d1 := 1-s0, 1-d0
	var sb strings.Builder
	fmt.Fprintf(&sb, "%%section psrc .romtext\n        entry _start\n_start:\n        mov r0, %d\n        mov r1, %d\n        i2rw r2, i0\n        add r0, r2\n", a, b)
	fmt.Fprintf(&sb, "        r2owa r0, o%d\n        r2owa r1, o%d\n_e:\n        j _e\n%%endsection\n", s0, s1)
	fmt.Fprintf(&sb, "%%section pdst .romtext\n        entry _start\n_start:\n        i2rw r0, i%d\n        i2rw r1, i%d\n        add r0, r0\n        add r0, r1\n        r2owa r0, o0\n_e:\n        j _e\n%%endsection\n", d0, d1)
	sb.WriteString("%meta cpdef src romcode: psrc, execmode: ha\n%meta cpdef dst romcode: pdst, execmode: ha\n")
	pair := func(name, e1, e2 string) {
		if inputFirst {
			e1, e2 = e2, e1
		}
		fmt.Fprintf(&sb, "%%meta ioatt %s %s\n%%meta ioatt %s %s\n", name, e1, name, e2)
	}
	pair("ext0", "cp: bm, index:0, type:input", "cp: src, index:0, type:input")
	pair("la", fmt.Sprintf("cp: src, index:%d, type:output", s0), fmt.Sprintf("cp: dst, index:%d, type:input", d0))
	pair("lb", fmt.Sprintf("cp: src, index:%d, type:output", s1), fmt.Sprintf("cp: dst, index:%d, type:input", d1))
	pair("res", "cp: dst, index:0, type:output", "cp: bm, index:0, type:output")
	fmt.Fprintf(&sb, "%%meta bmdef global registersize:%d\n", rsize)
	return sb.String()
}

// c05ParamsFor: the parameters of the i-th source of the family
func c05ParamsFor(i int) c05Params {
	pr := rand.New(rand.NewSource(int64(Seed()*7919 + i)))
	p := c05Params{seed: Seed()*100000 + i, rsize: []int{8, 16}[pr.Intn(2)], nregs: 2 + pr.Intn(3), nin: pr.Intn(3), nout: 1 + pr.Intn(2),
		nlines: 6 + pr.Intn(9), nmacros: pr.Intn(3), entryLater: i%6 == 5}
	p.doubleMacro = p.nmacros > 0 && i%6 == 2
	if i%5 == 3 && !p.entryLater {
		p.entryDirAt = 1 + pr.Intn(3)
	}
	p.withData = i%4 == 1
	if i%3 == 2 && p.nin > 0 {
		p.iomode = []string{"gs", "ss", "sa", "ga"}[(i/3)%4]
	}
	return p
}

func C05(tier string) int {
	t0 := time.Now()
	h := Harness{File: "c05.go", Extra: []string{"lib_emitted.go"}, Pkg: "pkg/bondmachine"}
	n := 36
	if tier == "thorough" {
		n = 240
	}
	var errs []string
	if err := BuildNative(); err != nil {
		errs = append(errs, err.Error())
	}
	work := filepath.Join(VerifDir, ".work", fmt.Sprintf("c05-%d", os.Getpid()))
	os.MkdirAll(work, 0o755)
	defer os.RemoveAll(work)
	var cfgs []Config
	rejected := 0
	var rejections []string
	for i := 0; i < n && len(errs) == 0; i++ {
		p := c05ParamsFor(i)
		text := c05Source(p)
		f := filepath.Join(work, fmt.Sprintf("s%d.basm", i))
		os.WriteFile(f, []byte(text), 0o644)
		out, err := Native("basm", f)
		name := fmt.Sprintf("basm source #%d (Rsize=%d, %d registers, %d inputs, %d outputs, %d lines, %d macros, entry on first instruction=%v, consecutive macro calls=%v, entry directive after %d lines, data section=%v, iomode=%q)",
			i, p.rsize, p.nregs, p.nin, p.nout, p.nlines, p.nmacros, !p.entryLater, p.doubleMacro, p.entryDirAt, p.withData, p.iomode)
		if err != nil {
			errs = append(errs, name+": "+err.Error())
			continue
		}
		if k := strings.Index(out, "BASM-ERROR"); k >= 0 {
			rejected++
			msg := out[k:]
			if j := strings.IndexByte(msg, '\n'); j >= 0 {
				msg = msg[:j]
			}
			rejections = append(rejections, fmt.Sprintf("#%d: %s", i, msg))
			continue
		}
		cps, inLine, outLine, linkLine := parseEmitted(out)
		T := 2*p.nlines + 6
		cfgs = append(cfgs, Config{Name: name, Func: "zzC05", Setup: func(in *symgo.Interp) { in.MaxUnwind = 400 },
			Args: []Arg{I(p.rsize), S(strings.Join(cps, ";")), S(inLine), S(outLine), S(linkLine), S(text), I(T)}})
	}
	// second family: two CPs wired by links with differing indices
	wired := 0
	for s0 := 0; s0 <= 1 && len(errs) == 0; s0++ {
		for d0 := 0; d0 <= 1; d0++ {
			for _, inputFirst := range []bool{false, true} {
				rsize := []int{8, 16}[(s0+d0)%2]
				text := c05Wired(rsize, s0, d0, inputFirst, 3+wired, 17+2*wired)
				f := filepath.Join(work, fmt.Sprintf("w%d.basm", wired))
				os.WriteFile(f, []byte(text), 0o644)
				out, err := Native("basm", f)
				name := fmt.Sprintf("two CPs: src o%d->dst i%d, src o%d->dst i%d, consuming endpoint declared first=%v, Rsize=%d", s0, d0, 1-s0, 1-d0, inputFirst, rsize)
				wired++
				if err != nil {
					errs = append(errs, name+": "+err.Error())
					continue
				}
				if k := strings.Index(out, "BASM-ERROR"); k >= 0 {
					rejected++
					rejections = append(rejections, name+": "+strings.SplitN(out[k:], "\n", 2)[0])
					continue
				}
				cps, inLine, outLine, linkLine := parseEmitted(out)
				cfgs = append(cfgs, Config{Name: name, Func: "zzC05Multi", Setup: func(in *symgo.Interp) { in.MaxUnwind = 400 },
					Args: []Arg{I(rsize), S(strings.Join(cps, ";")), S(inLine), S(outLine), S(linkLine), S(text), I(60)}})
			}
		}
	}
	if rejected*2 > n {
		errs = append(errs, fmt.Sprintf("the front-end rejected %d of %d generated sources: the source family no longer matches the assembler's input language", rejected, n))
	}
	sp := &Spec{
		ID: "C05", Level: "translation_validation", Tier: tier, Harness: h,
		LoadPkgs: []string{"pkg/bondmachine"},
		Opts:     RunOpts{Inits: []string{"pkg/bmnumbers", "pkg/procbuilder", "pkg/bondmachine"}, ConfigBudgetS: 600, TimeoutMs: 60000},
		Configs:  FilterConfigs(cfgs),
		Assumptions: []string{
			"translation validation per source: the real basm front-end (parser, all passes, matcher/chooser, requirement inference, Assembler2BondMachine) is RUN NATIVELY on each source of a generated family - it is not encoded (maps of interfaces, regexp-driven passes, a requirement engine of goroutines) - and the solver decides, per emitted machine, that simulating it (bondmachine.VM.Step, procbuilder.VM.Step and the opcodes' Simulate, executed symbolically) yields tick by tick the external outputs, and at the horizon the registers, of a direct interpretation of the source text, FOR ALL values of the external inputs. The program space is sampled; the input space is quantified",
			"source family: one CP; romtext section; labels on their own lines (2-4 plus the entry label, several labels may share a line); entry directive; forward/backward j and jz; 0-2 macros without arguments, invoked 0 or more times; mov with decimal/0x/0b/0d literals below 32 (larger ones are rejected since the chooser takes rsets5), the real rset next to its mov alias, mov register-register, inc/dec/add/clr/nop, i2r/r2o; register sizes 8 and 16; 2-4 registers, 0-2 inputs, 1-2 outputs; one source in six has its entry label on a later instruction, one in six has two macro calls in a row, one in five has its entry directive after 1-3 instructions, one in four also has a ROM data section (one-cell, three-cell and repeated variables; the code takes the address of one by name and reads the cell), one in three of those with inputs reads them with mov under a global or section I/O mode (the emitted opcode - i2rw exactly when the mode in force is sync - is an obligation)",
			"reference: the documented meaning of the source form (a label denotes the instruction after it; execution starts at the entry label; a macro call stands for its body; mov loads the value the literal denotes or copies a register; one instruction per tick); the per-instruction effect is the ISA's (inc/dec/add wrap at the register size)",
			"environment: external inputs constant and valid from tick 0, outputs acknowledged at once; horizon 2*lines+6 ticks from reset (registers zero)",
			"second family: two CPs joined by two handshaked links whose output and input indices differ (all four index pairings, consuming endpoint declared first or second), straight-line programs that park in a self-loop, one symbolic external input; compared at the horizon (60 ticks) with a reference in which every CP's source is interpreted on its own and a link carries the value its producer wrote to its consumer: registers of both CPs and the external output",
			"sources the front-end rejects with an error are counted, not failed (a well-formed source that is refused does not mean something else); data sections, ramtext, templates, fragments (C06), several CPs, shared objects and call/ret are outside",
		},
		Bounds: map[string]interface{}{"sources": n, "rejected_by_the_front_end": rejected, "rejections": rejections, "ticks": "2*lines+6", "register_sizes": []int{8, 16}},
		Rule:   "one configuration per accepted source; obligations: per tick and external output the equality with the source interpretation, at the horizon every register; inputs are solver variables",
	}
	sp.Extra = func(cov map[string]interface{}, outs []Outcome) {
		cov["programs"] = len(outs)
		cov["disagreements_checked"] = len(outs)
	}
	code := Execute(sp)
	for _, e := range errs {
		fmt.Println("MACHINERY:", e)
	}
	if len(errs) > 0 && code == 0 {
		code = 2
	}
	_ = t0
	return code
}

// parseEmitted reads the description cmd/bmnative prints for an emitted machine.
func parseEmitted(out string) (cps []string, inLine, outLine, linkLine string) {
	for _, line := range strings.Split(out, "\n") {
		switch {
		case strings.HasPrefix(line, "IN "):
			inLine = strings.TrimPrefix(line, "IN ")
		case strings.HasPrefix(line, "OUT "):
			outLine = strings.TrimPrefix(line, "OUT ")
		case strings.HasPrefix(line, "LINKS "):
			linkLine = strings.Trim(strings.TrimPrefix(line, "LINKS "), "[]")
		case strings.HasPrefix(line, "CP "):
			kv := map[string]string{}
			for _, f := range strings.Fields(line)[2:] {
				if j := strings.IndexByte(f, '='); j > 0 {
					kv[f[:j]] = f[j+1:]
				}
			}
			cps = append(cps, fmt.Sprintf("%s:%s:%s:%s:%s:%s|%s|%s|%s|%s", kv["R"], kv["N"], kv["M"], kv["L"], kv["O"], kv["wordsize"], kv["ops"], kv["rom"], kv["name"], kv["vars"]))
		}
	}
	return
}
