package checks

import (
	"fmt"
	"os"
	"os/exec"
	"regexp"
	"sort"
	"strings"
	"sync"
	"time"

	"verif/rex"
	"verif/smt"
	"verif/symgo"
)

// runStrScript runs a one-shot string-theory script and returns sat/unsat/unknown and the witness.
func runStrScript(solver, script string, timeoutS int) (string, string) {
	var cmd *exec.Cmd
	switch solver {
	case "cvc5":
		cmd = exec.Command("cvc5", "--lang=smt2", "--produce-models", "--strings-exp")
		script = "(set-logic QF_SLIA)\n" + script
	default:
		cmd = exec.Command(solver, "-in")
	}
	cmd.Stdin = strings.NewReader(script)
	// the limit is CPU time of the solver process (a shared machine does not change the verdict)
	out := smt.RunWithCPULimit(cmd, time.Duration(timeoutS)*time.Second)
	txt := strings.TrimSpace(string(out))
	lines := strings.SplitN(txt, "\n", 2)
	if lines[0] == "unsat" {
		// the trailing get-value legitimately fails after unsat; any other error is inconclusive
		rest := ""
		if len(lines) > 1 {
			rest = lines[1]
		}
		if strings.Count(rest, "(error") > 1 || (strings.Contains(rest, "(error") && !strings.Contains(rest, "model") && !strings.Contains(rest, "get-value") && !strings.Contains(rest, "unsat")) {
			return "unknown", txt
		}
		return "unsat", ""
	}
	if strings.Contains(txt, "(error") {
		return "unknown", txt
	}
	switch lines[0] {
	case "sat":
		w := ""
		if len(lines) > 1 {
			// ((s "..."))
			v := lines[1]
			i := strings.Index(v, "\"")
			j := strings.LastIndex(v, "\"")
			if i >= 0 && j > i {
				w = rex.Unquote(v[i : j+1])
			}
		}
		return "sat", w
	}
	return "unknown", txt
}

func C08(tier string) int {
	t0 := time.Now()
	h := Harness{File: "c08.go", Pkg: "pkg/bmnumbers"}
	p := LoadProgram([]string{"pkg/bmnumbers"}, h)
	loadS := time.Since(t0).Seconds()
	opts := RunOpts{Pkg: h.Pkg, Inits: []string{"pkg/bmnumbers"}, PanicObl: true, KeepInterp: true}

	// ---- (a) registry dump, regenerated from the current tree ----
	outs := RunFamily(p, []Config{{Name: "matcher registry dump", Func: "zzC08Patterns"}}, opts)
	if outs[0].Err != "" {
		fmt.Println("MACHINERY: registry dump failed:", outs[0].Err)
		return 2
	}
	var pats []string
	for k, v := range outs[0].Exports {
		if strings.HasPrefix(k, "pat:") {
			if s, ok := v.(*symgo.StrVal); ok {
				if c, ok := s.Concrete(); ok {
					pats = append(pats, c)
				}
			}
		}
	}
	sort.Strings(pats)
	if len(pats) < 10 {
		fmt.Println("MACHINERY: registry dump returned", len(pats), "patterns")
		return 2
	}
	regl := map[string]string{}
	var machinery []string
	for _, k := range pats {
		r, err := rex.Translate(k)
		if err != nil {
			machinery = append(machinery, "rex: "+err.Error())
			continue
		}
		regl[k] = r
	}
	maxLen := 64
	decl := fmt.Sprintf("(declare-const s String)\n(assert (<= (str.len s) %d))\n", maxLen)
	// validation of the translation against the real regexp engine (stdlib, in-process)
	rexChecked := 0
	var mu sync.Mutex
	var wg sync.WaitGroup
	sem := make(chan struct{}, 16)
	for _, k := range pats {
		if regl[k] == "" {
			continue
		}
		wg.Add(1)
		go func(k string) {
			defer wg.Done()
			sem <- struct{}{}
			defer func() { <-sem }()
			re := regexp.MustCompile(k)
			res, w := runStrScript("z3", decl+"(assert (str.in_re s "+regl[k]+"))\n(check-sat)\n(get-value (s))\n", 30)
			mu.Lock()
			defer mu.Unlock()
			if res != "sat" {
				machinery = append(machinery, fmt.Sprintf("rex validation: no member found for %q (%s)", k, res))
				return
			}
			if !re.MatchString(w) {
				machinery = append(machinery, fmt.Sprintf("REX-MISMATCH: solver member %q of %q is rejected by the real regexp", w, k))
				return
			}
			rexChecked++
			// mutated strings: verdicts must agree
			muts := []string{w + "z", "z" + w, w + w, strings.ToUpper(w), " " + w}
			if len(w) > 1 {
				muts = append(muts, w[1:], w[:len(w)-1], w[:len(w)/2]+"#"+w[len(w)/2:])
			}
			for _, m := range muts {
				want := re.MatchString(m)
				mu.Unlock()
				r2, _ := runStrScript("z3", "(declare-const s String)\n(assert (= s "+rex.Lit(m)+"))\n(assert (str.in_re s "+regl[k]+"))\n(check-sat)\n", 30)
				mu.Lock()
				if (r2 == "sat") != want || r2 == "unknown" {
					machinery = append(machinery, fmt.Sprintf("REX-MISMATCH: %q on %q: real=%v solver=%s", k, m, want, r2))
				} else {
					rexChecked++
				}
			}
		}(k)
	}
	wg.Wait()

	// pairwise disjointness of the languages
	type pairRes struct {
		a, b, res, witness string
		secs               float64
	}
	var pairs []pairRes
	for i := 0; i < len(pats); i++ {
		for j := i + 1; j < len(pats); j++ {
			if regl[pats[i]] != "" && regl[pats[j]] != "" {
				pairs = append(pairs, pairRes{a: pats[i], b: pats[j]})
			}
		}
	}
	solvers := []string{"z3"}
	if tier == "thorough" {
		solvers = []string{"z3", "z3-new", "cvc5"}
	}
	for pi := range pairs {
		wg.Add(1)
		go func(pr *pairRes) {
			defer wg.Done()
			sem <- struct{}{}
			defer func() { <-sem }()
			script := decl + "(assert (str.in_re s " + regl[pr.a] + "))\n(assert (str.in_re s " + regl[pr.b] + "))\n(check-sat)\n(get-value (s))\n"
			t1 := time.Now()
			for si, sv := range solvers {
				res, w := runStrScript(sv, script, 60)
				if si == 0 {
					pr.res, pr.witness = res, w
				} else if res != pr.res && res != "unknown" && pr.res != "unknown" {
					mu.Lock()
					machinery = append(machinery, fmt.Sprintf("SOLVER-DISAGREEMENT on %q vs %q: %s says %s, %s says %s", pr.a, pr.b, solvers[0], pr.res, sv, res))
					mu.Unlock()
				}
			}
			pr.secs = time.Since(t1).Seconds()
		}(&pairs[pi])
	}
	wg.Wait()

	// fold (a) into obligations of a pseudo-outcome so that Finish handles findings/evidence uniformly
	sp := &Spec{
		ID: "C08", Level: "proof", Tier: tier, Harness: h,
		Assumptions: []string{
			"(a) languages are compared over ASCII strings of length <= 64; the registry is the real AllMatchers after init plus one member of each dynamic family (each family registers one parameter-generic pattern)",
			"(b) round trip is decided for types bin, hex (widths multiple of 8, the only ones the hex notation denotes) and unsigned, per (width, number of significant bits); decimal formatting/parsing is exact digit arithmetic up to 16 significant bits, wider decimal values are outside; float16/32, fixed point, FloPoCo and linear quantiser round trips are outside (floating point); Signed has no export",
			"regexp calls on symbolic strings use the class-uniform model (real engine on a representative when the pattern cannot distinguish the concretisations, checked by the solver) or an exact NFA simulation",
		},
		Rule:         "(a) one obligation per unordered pair of registered patterns (language intersection empty), all pairs; (b) one obligation per assert site per (type, width, significant bits); distinct by pair / by (function,args,tag,position)",
		ViolationKey: func(o *Outcome, ob *OblResult) string { return o.Config.Name + ";" + ob.Kind + ":" + ob.Tag },
		MaxReplays:   10,
	}
	var pairOuts []Outcome
	nUnknown := 0
	var samples []interface{}
	totalS := 0.0
	for _, pr := range pairs {
		totalS += pr.secs
		name := fmt.Sprintf("ambiguity %q vs %q", pr.a, pr.b)
		o := Outcome{Config: Config{Name: name, Func: "zzC08Ambiguous", Args: []Arg{S(pr.witness)}}}
		ob := OblResult{Kind: "assert", Tag: "one-notation", Pos: "language-intersection", Secs: pr.secs}
		switch pr.res {
		case "unsat":
			ob.Result = "holds"
		case "sat":
			ob.Result = "violated"
			ob.Model = map[string]uint64{}
		default:
			ob.Result = "inconclusive"
			nUnknown++
		}
		o.Obls = []OblResult{ob, {Kind: "reach", Tag: "pair", Result: "reachable"}}
		o.Queries = len(solvers)
		o.SolverS = pr.secs
		pairOuts = append(pairOuts, o)
		if len(samples) < 3 || pr.res == "sat" && len(samples) < 6 {
			samples = append(samples, map[string]interface{}{"pair": []string{pr.a, pr.b}, "verdict": pr.res, "witness": pr.witness, "secs": round3(pr.secs)})
		}
	}

	// ---- (b) round trips ----
	widths := []int{1, 4, 8, 12, 16, 32, 64}
	sigs := func(w int) []int { return uniqInts([]int{1, 2, w / 2, w - 1, w}) }
	if tier == "thorough" {
		widths = []int{1, 2, 3, 4, 5, 6, 7, 8, 9, 10, 11, 12, 13, 14, 15, 16, 24, 32, 48, 64}
		sigs = func(w int) []int {
			var r []int
			for i := 1; i <= w; i++ {
				r = append(r, i)
			}
			return r
		}
	}
	var cfgs []Config
	for _, tn := range []string{"bin", "hex", "unsigned"} {
		for _, w := range widths {
			if tn == "hex" && w%8 != 0 {
				continue
			}
			for _, sg := range sigs(w) {
				if sg > w {
					continue
				}
				if tn == "unsigned" && sg > 16 {
					continue // decimal digits of wide symbolic values: outside (stated)
				}
				cfgs = append(cfgs, Config{Name: fmt.Sprintf("roundtrip type=%s width=%d sigbits=%d", tn, w, sg), Func: "zzC08RoundTrip", Args: []Arg{S(tn), I(w), I(sg)},
					Setup: func(in *symgo.Interp) { in.MaxUnion = 80 }})
			}
		}
	}
	cfgs = FilterConfigs(cfgs)
	opts.KeepInterp = false
	rtOuts := RunFamily(p, cfgs, opts)
	all := append(pairOuts, rtOuts...)
	sp.Bounds = map[string]interface{}{"patterns": len(pats), "pairs": len(pairs), "string_length_max": maxLen, "solvers_for_pairs": solvers,
		"roundtrip_widths": widths, "roundtrip_types": []string{"bin", "hex", "unsigned"}}
	sp.Extra = func(cov map[string]interface{}, _ []Outcome) {
		cov["patterns"] = pats
		cov["pair_samples"] = samples
		cov["rex_validation_verdicts_agreeing"] = rexChecked
		cov["pair_solver_s"] = round3(totalS)
		if mp, ok := cov["machinery_problems"].([]string); ok {
			cov["machinery_problems"] = append(mp, machinery...)
		}
	}
	code := Finish(sp, all, t0, loadS)
	for _, m := range machinery {
		fmt.Println("MACHINERY:", m)
	}
	if len(machinery) > 0 && code == 0 {
		code = 2
	}
	_ = os.Stderr
	return code
}
