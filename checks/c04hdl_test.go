package checks

import (
	"fmt"
	"testing"

	"verif/smt"
	"verif/vlog"
)

// concrete run of the generated producer/consumer pair through vlog (all terms constant-fold)
func TestC04HDLConcrete(t *testing.T) {
	src, err := Native("bmfull", "8;0:1:1:2:inc+j+nop+r2owa,1:0:1:2:cpy+i2rw+inc+j+nop;P0,P1;p1i0>p0o0")
	if err != nil {
		t.Skip(err)
	}
	mods, info, err := ParseFiles(src)
	if err != nil {
		t.Fatal(err)
	}
	d, err := vlog.Elaborate(mods, "bondmachine", nil)
	if err != nil {
		t.Fatal(err)
	}
	t.Log(info)
	st := smt.NewStore()
	ev := vlog.NewEval(d, st, "")
	for _, s := range d.StateSignals() {
		if s.Depth > 0 {
			m := make([]*smt.Term, s.Depth)
			for i := range m {
				m[i] = st.BV(0, s.W)
			}
			ev.Cur.Mems[s.Name] = m
		} else {
			ev.Cur.Regs[s.Name] = st.BV(0, s.W)
		}
	}
	ev.ApplyInitial()
	// producer: inc r0; r2owa r0 o0; j 0   (ops inc=0 j=1 nop=2 r2owa=3; word 4 bits: op(2) reg(1) out(1))
	ev.Cur.Mems["a0_inst.p0rom_instance._rom"] = []*smt.Term{st.BV(0b0000, 4), st.BV(0b1100, 4), st.BV(0b0100, 4), st.BV(0b0100, 4)}
	// consumer: i2rw r0 i0; j 0 (ops cpy=0 i2rw=1 inc=2 j=3 nop=4; word 5 bits: op(3) reg(1) in(1))
	ev.Cur.Mems["a1_inst.p1rom_instance._rom"] = []*smt.Term{st.BV(0b00100, 5), st.BV(0b01100, 5), st.BV(0b01100, 5), st.BV(0b01100, 5)}
	ev.In["reset"] = st.BV(1, 1)
	ev.In["clk"] = st.BV(0, 1)
	nx, err := ev.Step()
	if err != nil {
		t.Fatal(err)
	}
	cur := vlog.NewEval(d, st, "")
	cur.Cur = nx
	for c := 0; c < 14; c++ {
		cur.In["reset"] = st.BV(0, 1)
		cur.In["clk"] = st.BV(0, 1)
		v := func(n string) uint64 {
			x := cur.Sig(n)
			if !x.IsConst() {
				return 999
			}
			return x.Val
		}
		fmt.Printf("c%02d P: pc=%d r0=%d aux=%d val=%d waitsm=%d recv_in=%d | C: pc=%d r0=%d valid_in=%d recv=%d ins=%05b\n", c,
			v("a0_inst.p0_instance._pc"), v("a0_inst.p0_instance._r0"), v("a0_inst.p0_instance._auxo0"), v("a0_inst.p0_instance.o0_val"), v("a0_inst.p0_instance.waitsm"), v("a0_inst.p0_instance.o0_received"),
			v("a1_inst.p1_instance._pc"), v("a1_inst.p1_instance._r0"), v("a1_inst.p1_instance.i0_valid"), v("a1_inst.p1_instance.i0_recv"), v("a1_inst.p1_instance.current_instruction"))
		nx, err := cur.Step()
		if err != nil {
			t.Fatal(err)
		}
		n := vlog.NewEval(d, st, "")
		n.Cur = nx
		cur = n
	}
}
