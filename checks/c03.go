package checks

import (
	"fmt"
	"strings"
	"time"

	"golang.org/x/tools/go/ssa"

	"verif/smt"
	"verif/symgo"
)

const pbPath = symgo.RepoPrefix + "/pkg/procbuilder"

// operand shapes of the static opcodes (from each Assembler): R register, I
// input, O output, T jump target, A RAM address, X ROM address, V immediate of
// register size, B 8-bit immediate.
var c03Shapes = map[string]string{
	"adc": "RR", "add": "RR", "addf": "RR", "addf16": "RR", "addp": "RR", "and": "RR", "chc": "RR", "cmpr": "RR", "cmprlt": "RR", "cpy": "RR",
	"div": "RR", "divf": "RR", "divf16": "RR", "divp": "RR", "m2rri": "RR", "mod": "RR", "mulc": "RR", "mult": "RR", "multf": "RR", "multf16": "RR",
	"multp": "RR", "nand": "RR", "nor": "RR", "not": "RR", "or": "RR", "r2mri": "RR", "ro2rri": "RR", "rsc": "RR", "sbc": "RR", "sub": "RR",
	"xnor": "RR", "xor": "RR",
	"addi": "R", "chw": "R", "cil": "R", "cilc": "R", "cir": "R", "cirn": "R", "clr": "R", "dec": "R", "expf": "R", "inc": "R", "incc": "R",
	"jcmpria": "R", "jcmprio": "R", "jri": "R", "jria": "R", "jrio": "R",
	"clc": "", "cset": "", "dpc": "", "hit": "", "hlt": "", "je": "", "nop": "", "r2s": "", "s2r": "",
	"cmpv": "I", "i2r": "RI", "i2rw": "RI", "sic": "RI", "sicv3": "RI", "sicv2": "RII",
	"r2o": "RO", "r2owa": "RO", "r2owaa": "RO",
	"j": "T", "ja": "T", "jc": "T", "jcmpa": "T", "jcmpl": "T", "jcmpo": "T", "jo": "T", "saj": "T",
	"jz": "RT", "jgt0f": "RT",
	"m2r": "RA", "r2m": "RA", "ro2r": "RX", "rset": "RV", "tsp": "RTB",
}

type c03Arch struct {
	rsize, r, n, m, l, o int
	ops                  string
	wordsize             int
}

var c03SetNames = map[string]string{}

func (a c03Arch) String() string {
	on := a.ops
	if n, ok := c03SetNames[a.ops]; ok {
		on = n
	}
	return fmt.Sprintf("Rsize=%d R=%d N=%d M=%d L=%d O=%d WordSize=%d ops=%s", a.rsize, a.r, a.n, a.m, a.l, a.o, a.wordsize, on)
}

func c03FieldWidth(a c03Arch, k byte) int {
	switch k {
	case 'T', 'X':
		return a.o
	case 'A':
		return a.l
	case 'V':
		return a.rsize
	case 'B':
		return 8
	}
	return 0
}

// c03Hooks installs the stub of the number library's door (Process_number) and
// of decimal formatting, both working on tokens instead of decimal text.
func c03Hooks(in *symgo.Interp) {
	in.MaxUnion = 80
	var terms []*smt.Term
	token := func(t *smt.Term) symgo.Value {
		terms = append(terms, t)
		return &symgo.StrVal{C: fmt.Sprintf("@n%d", len(terms)-1)}
	}
	lookup := func(v symgo.Value) (*smt.Term, bool) {
		s, ok := v.(*symgo.StrVal)
		if !ok {
			return nil, false
		}
		c, ok := s.Concrete()
		if !ok || !strings.HasPrefix(c, "@n") {
			return nil, false
		}
		var k int
		if _, err := fmt.Sscanf(c, "@n%d", &k); err != nil || k >= len(terms) {
			return nil, false
		}
		return terms[k], true
	}
	in.Hooks[pbPath+".zzNumText"] = func(in *symgo.Interp, fn *ssa.Function, args []symgo.Value) (symgo.Value, bool) {
		t := args[0].(*smt.Term)
		if t.IsConst() {
			return nil, false
		}
		return token(t), true
	}
	in.Hooks[pbPath+".zzNumValue"] = func(in *symgo.Interp, fn *ssa.Function, args []symgo.Value) (symgo.Value, bool) {
		if t, ok := lookup(args[0]); ok {
			return in.Tuple(t, in.St.T), true
		}
		return nil, false
	}
	in.Hooks["strconv.Itoa"] = func(in *symgo.Interp, fn *ssa.Function, args []symgo.Value) (symgo.Value, bool) {
		t := args[0].(*smt.Term)
		if t.IsConst() {
			return nil, false
		}
		// register / port names (Get_*_name in utils.go) and the harness's own operand
		// names are formatted exactly; numeric fields printed by a Disassembler become tokens
		f := in.CurFile()
		if strings.HasSuffix(f, "/utils.go") || strings.Contains(f, "zz_verif_") {
			return nil, false
		}
		return token(t), true
	}
	in.Hooks[pbPath+".Process_number"] = func(in *symgo.Interp, fn *ssa.Function, args []symgo.Value) (symgo.Value, bool) {
		t, ok := lookup(args[0])
		if !ok {
			if s, isStr := args[0].(*symgo.StrVal); isStr {
				if _, conc := s.Concrete(); conc {
					return nil, false // concrete literal: the real function (real bmnumbers) is interpreted
				}
			}
			panic(in.Unsupported("Process_number on a symbolic string that is not a numeric token"))
		}
		// minimal binary string of t: one alternative per feasible bit length
		st := in.St
		var res symgo.Value
		for L := 64; L >= 1; L-- {
			var g *smt.Term
			if L == 1 {
				g = st.Cmp(smt.OpBvUlt, t, st.BV(2, 64))
			} else {
				lo := st.Cmp(smt.OpBvUle, st.BV(uint64(1)<<uint(L-1), 64), t)
				if L == 64 {
					g = lo
				} else {
					g = st.And(lo, st.Cmp(smt.OpBvUlt, t, st.BV(uint64(1)<<uint(L), 64)))
				}
			}
			if !in.Feasible(g) {
				continue
			}
			bs := make([]*smt.Term, L)
			for k := 0; k < L; k++ {
				bit := st.Extract(L-1-k, L-1-k, t)
				bs[k] = st.Ite(st.Eq(bit, st.BV(1, 1)), st.BV('1', 8), st.BV('0', 8))
			}
			s := in.MkStr(bs)
			if res == nil {
				res = s
			} else {
				res = in.Merge(g, s, res)
			}
		}
		if res == nil {
			panic(in.Unsupported("Process_number token with no feasible length"))
		}
		return in.Tuple(res, in.NilError()), true
	}
}

func c03Configs(archs []c03Arch, opFilter map[string]bool, lenSample func(w int) []int) []Config {
	var cfgs []Config
	for _, a := range archs {
		for _, op := range strings.Split(a.ops, ",") {
			shape, ok := c03Shapes[op]
			if !ok || (opFilter != nil && !opFilter[op]) {
				continue
			}
			if (strings.Contains(shape, "I") && a.n == 0) || (strings.Contains(shape, "O") && a.m == 0) || (strings.Contains(shape, "A") && a.l == 0) {
				continue
			}
			var nums []byte
			for i := 0; i < len(shape); i++ {
				if strings.IndexByte("TAXVB", shape[i]) >= 0 {
					nums = append(nums, shape[i])
				}
			}
			lens1, lens2 := []int{0}, []int{0}
			if len(nums) >= 1 {
				lens1 = lenSample(c03FieldWidth(a, nums[0]))
			}
			if len(nums) >= 2 {
				lens2 = lenSample(c03FieldWidth(a, nums[1]))
			}
			for _, n1 := range lens1 {
				for _, n2 := range lens2 {
					cfgs = append(cfgs, Config{
						Name: fmt.Sprintf("%s op=%s shape=%q numbits=%d,%d", a, op, shape, n1, n2), Func: "zzC03",
						Args:  []Arg{I(a.rsize), I(a.r), I(a.n), I(a.m), I(a.l), I(a.o), S(a.ops), S(op), S(shape), I(a.wordsize), I(n1), I(n2)},
						Setup: c03Hooks,
					})
				}
			}
		}
	}
	return cfgs
}

func C03(tier string) int {
	t0 := time.Now()
	h := Harness{File: "c03.go", Extra: hProcLib, Pkg: "pkg/procbuilder"}
	setA := "add,inc,j,rset"
	setB := "add,clr,cpy,dec,i2r,inc,j,jz,nop,r2o,rset"
	setC := "adc,addi,and,cil,cir,clr,cpy,dec,div,i2r,i2rw,inc,j,ja,jo,jz,m2r,mult,nop,not,or,r2m,r2o,r2owa,ro2r,rset,sbc,xor"
	setAll := "adc,add,addi,and,chc,chw,cil,cilc,cir,cirn,clc,clr,cmpr,cmprlt,cmpv,cpy,cset,dec,div,dpc,hit,hlt,i2r,i2rw,inc,incc,j,ja,jc,jcmpa,jcmpl,jcmpo,jcmpria,jcmprio,je,jo,jri,jria,jrio,jz,m2r,m2rri,mod,mulc,mult,nand,nop,nor,not,or,r2m,r2mri,r2o,r2owa,r2owaa,r2s,r2v,r2vri,ro2r,ro2rri,rsc,rset,s2r,saj,sbc,sic,sicv2,sicv3,sub,tsp,xnor,xor"
	c03SetNames[setA], c03SetNames[setB], c03SetNames[setC], c03SetNames[setAll] = "setA(4)", "setB(11)", "setC(28)", "setAll(72)"
	archs := []c03Arch{
		{8, 2, 1, 1, 0, 3, setA, 0},
		{8, 1, 1, 1, 0, 3, setB, 0},
		{8, 2, 3, 3, 2, 4, setC, 0},
		{16, 2, 1, 3, 2, 3, setC, 0},
		{16, 3, 3, 1, 0, 4, setB, 0},
		{8, 2, 2, 2, 3, 3, setAll, 0},
	}
	lens := func(w int) []int { // bit lengths of a numeric operand for field width w
		return uniqInts([]int{1, max(w-1, 1), w, w + 1, w + 2})
	}
	if tier == "thorough" {
		archs = append(archs,
			c03Arch{32, 2, 2, 2, 2, 4, setC, 0},
			c03Arch{64, 3, 2, 2, 4, 5, setC, 0},
			c03Arch{32, 3, 5, 4, 3, 6, setAll, 0},
			c03Arch{16, 1, 0, 0, 0, 2, setA, 0},
			c03Arch{8, 3, 8, 8, 8, 8, setAll, 0},
			c03Arch{8, 2, 1, 1, 2, 3, setC, 32},
			c03Arch{16, 2, 2, 2, 2, 3, setB, 40},
			c03Arch{8, 2, 1, 1, 0, 3, setA, 8},
		)
		lens = func(w int) []int {
			var r []int
			for i := 1; i <= min(w+2, 18); i++ { // wider decimal operands did not finish (disassembly of the number) or exceed the unwinding bound: outside the claim
				r = append(r, i)
			}
			return r
		}
	}
	all := c03Configs(archs, nil, lens)
	// the field helpers themselves, for every bit string of the given lengths (including the wide fields of 32- and
	// 64-bit immediates, whose decimal text the per-opcode configurations cannot reach)
	for _, n := range []int{1, 2, 7, 8, 16, 31, 32, 33, 40, 48, 62} {
		all = append(all, Config{Name: fmt.Sprintf("field helpers get_id/zeros_prefix on %d-bit fields", n), Func: "zzC03Bits", Args: []Arg{I(n), I(3)},
			Setup: func(in *symgo.Interp) { in.MaxUnwind = 200 }})
	}
	// the whole-program entry point with comment and blank lines
	for _, mask := range []int{0, 1, 2, 8, 0x100, 0x800, 0x305, 0xf0f} {
		all = append(all, Config{Name: fmt.Sprintf("Arch.Assembler on a program with comments/blank lines (mask %#x)", mask), Func: "zzC03Program", Args: []Arg{I(mask)}})
	}
	cfgs := FilterConfigs(all)
	sp := &Spec{
		ID: "C03", Level: "proof", Tier: tier, Harness: h,
		LoadPkgs: []string{"pkg/procbuilder"},
		Opts:     RunOpts{Inits: []string{"pkg/bmnumbers", "pkg/procbuilder"}, PanicObl: true, Pkg: h.Pkg},
		Configs:  cfgs,
		Assumptions: []string{
			"stub: procbuilder.Process_number(decimal literal of v) returns the minimal binary string of v and strconv.Itoa round-trips through it (contract validated natively at every run on boundary and pseudo-random values: harness zzC03Stub); the number library itself is C08's subject",
			"register/input/output operands range over 0..limit+1, numeric operands over every value of each enumerated bit length (1..field+2)",
			"architectures satisfy the opcode's resource preconditions (N>=1 for input opcodes, M>=1 for output opcodes, L>=1 for RAM opcodes)",
			"mode ha only; shared-object and floating-point-literal operands are outside",
			"input text is ASCII",
			"whole programs: Arch.Assembler on a four-instruction text with comment and blank lines at eight placements yields one word of the architecture's width per instruction, equal to the line's own encoding",
			"field helpers: get_id and zeros_prefix are decided for all bit strings of lengths 1..62 (selected lengths): get_id is the value of the bits, zeros_prefix pads with zeros to exactly the width and keeps the value",
		},
		Bounds: map[string]interface{}{"architectures": archStrings(archs), "numeric_bit_lengths": "quick: {1,w-1,w,w+1,w+2}; thorough: 1..min(w+2,18)", "opcodes_with_shapes": len(c03Shapes), "opcode_sets": map[string]string{"setA": setA, "setB": setB, "setC": setC, "setAll": setAll}},
		Rule:   "one obligation per assert/panic site per (architecture, opcode, numeric bit lengths); operand values are solver variables; distinct by (function,args,tag,position)",
		ViolationKey: func(o *Outcome, ob *OblResult) string {
			return o.Config.Name + ";" + ob.Kind + ":" + ob.Tag
		},
		MaxReplays: 8,
	}
	p := LoadProgram(sp.LoadPkgs, h)
	loadS := time.Since(t0).Seconds()
	// validate the stub's contract against the real function, natively
	stubRF := &ReplayFile{Property: "C03", Harness: h.File, Extra: h.Extra, Pkg: h.Pkg, Func: "zzC03Stub", Config: "stub validation", Vector: map[string]uint64{}}
	stubPath := WriteReplay(stubRF, 0)
	res, err := RunReplay(stubPath)
	if err != nil || len(res.Failed) > 0 || res.Panic != "" || len(res.Reached) == 0 {
		fmt.Printf("MACHINERY: STUB-VALIDATION-FAILED Process_number contract: err=%v failed=%v panic=%q\n", err, res != nil && len(res.Failed) > 0, func() string {
			if res != nil {
				return res.Panic
			}
			return ""
		}())
		return 2
	}
	outs := RunFamily(p, sp.Configs, sp.Opts)
	sp.Extra = func(cov map[string]interface{}, _ []Outcome) {
		cov["stub_validation"] = "435 values through the real Process_number: contract holds"
	}
	return Finish(sp, outs, t0, loadS)
}

func archStrings(as []c03Arch) []string {
	var r []string
	for _, a := range as {
		r = append(r, a.String())
	}
	return r
}

func uniqInts(xs []int) []int {
	seen := map[int]bool{}
	var r []int
	for _, x := range xs {
		if x >= 1 && x <= 64 && !seen[x] {
			seen[x] = true
			r = append(r, x)
		}
	}
	return r
}
