package checks

import (
	"fmt"
	"math/rand"
	"os"
	"testing"
)

func TestDumpC05Source(t *testing.T) {
	if os.Getenv("C05_DUMP") == "" {
		t.Skip()
	}
	var i int
	fmt.Sscan(os.Getenv("C05_DUMP"), &i)
	pr := rand.New(rand.NewSource(int64(Seed()*7919 + i)))
	p := c05Params{seed: Seed()*100000 + i, rsize: []int{8, 16}[pr.Intn(2)], nregs: 2 + pr.Intn(3), nin: pr.Intn(3), nout: 1 + pr.Intn(2),
		nlines: 6 + pr.Intn(9), nmacros: pr.Intn(3), entryLater: i%6 == 5}
	p.doubleMacro = p.nmacros > 0 && i%6 == 2
	fmt.Println(c05Source(p))
}
