package checks

import (
	"fmt"
	"os"
	"testing"
)

func TestDumpC05Source(t *testing.T) {
	if os.Getenv("C05_DUMP") == "" {
		t.Skip()
	}
	var i int
	fmt.Sscan(os.Getenv("C05_DUMP"), &i)
	p := c05ParamsFor(i)
	fmt.Println(c05Source(p))
}
