package checks

import (
	"fmt"
	"math/rand"
	"strconv"
	"strings"
	"sync"
	"time"

	"verif/smt"
	"verif/vlog"
)

type c02Graph struct {
	doms  string // "1:1,2:1"
	hist  []string
	bonds []string // "in>out"
}

func (g c02Graph) spec() string {
	return "8;" + g.doms + ";" + strings.Join(g.hist, ",") + ";" + strings.Join(g.bonds, ",")
}

// endpoints of a shape
func c02Endpoints(doms string, hist []string) (ins, outs []string) {
	var nm [][2]int
	for _, d := range strings.Split(doms, ",") {
		p := strings.Split(d, ":")
		n, _ := strconv.Atoi(p[0])
		m, _ := strconv.Atoi(p[1])
		nm = append(nm, [2]int{n, m})
	}
	ni, no, np := 0, 0, 0
	for _, h := range hist {
		switch {
		case h == "I":
			outs = append(outs, fmt.Sprintf("i%d", ni))
			ni++
		case h == "O":
			ins = append(ins, fmt.Sprintf("o%d", no))
			no++
		default:
			d, _ := strconv.Atoi(h[1:])
			for e := 0; e < nm[d][0]; e++ {
				ins = append(ins, fmt.Sprintf("p%di%d", np, e))
			}
			for f := 0; f < nm[d][1]; f++ {
				outs = append(outs, fmt.Sprintf("p%do%d", np, f))
			}
			np++
		}
	}
	return
}

func c02Family(tier string, seed int) []c02Graph {
	r := rand.New(rand.NewSource(int64(seed)))
	doms := "1:1,2:1,1:2"
	ops := []string{"I", "O", "P0", "P1", "P2"}
	maxLen, perShape, maxShapes := 4, 3, 60
	if tier == "thorough" {
		maxLen, perShape, maxShapes = 5, 12, 400
	}
	var shapes [][]string
	var rec func(cur []string)
	rec = func(cur []string) {
		np := 0
		for _, h := range cur {
			if h[0] == 'P' {
				np++
			}
		}
		if np >= 1 && np <= 3 {
			shapes = append(shapes, append([]string{}, cur...))
		}
		if len(cur) == maxLen {
			return
		}
		for _, o := range ops {
			rec(append(cur, o))
		}
	}
	rec(nil)
	r.Shuffle(len(shapes), func(i, j int) { shapes[i], shapes[j] = shapes[j], shapes[i] })
	if len(shapes) > maxShapes {
		shapes = shapes[:maxShapes]
	}
	var gs []c02Graph
	for _, sh := range shapes {
		ins, outs := c02Endpoints(doms, sh)
		if len(ins) == 0 || len(outs) == 0 {
			continue
		}
		for n := 0; n < perShape; n++ {
			var bonds []string
			for _, in := range ins {
				// every internal input is bonded: with an unbonded processor input the generated top level
				// references an undeclared <input>_valid wire and does not elaborate (C18-class, outside C02)
				k := r.Intn(len(outs))
				if k < len(outs) {
					bonds = append(bonds, in+">"+outs[k])
				}
			}
			if len(bonds) > 0 {
				gs = append(gs, c02Graph{doms, sh, bonds})
			}
		}
	}
	return gs
}

// c02HDL decides the wiring obligations of the generated top level for one graph.
func c02HDL(g c02Graph) Outcome {
	t0 := time.Now()
	o := Outcome{Config: Config{Name: "hdl-wiring " + g.spec(), Func: "Bondmachine.Write_verilog_main"}}
	src, err := Native("bm", g.spec())
	if err != nil {
		o.Err = err.Error()
		return o
	}
	mods, _, err := ParseFiles(src)
	if err != nil {
		o.Err = "ENCODING-FAILURE: " + err.Error()
		return o
	}
	bb := map[string]bool{}
	for _, m := range mods {
		if m.Name != "bondmachine" {
			bb[m.Name] = true
		}
	}
	d, err := vlog.Elaborate(mods, "bondmachine", bb)
	if err != nil {
		o.Err = err.Error()
		return o
	}
	st := smt.NewStore()
	sol, err := smt.NewSolver("z3", st, 20000)
	if err != nil {
		o.Err = err.Error()
		return o
	}
	defer sol.Close()
	defer func() {
		if r := recover(); r != nil {
			o.Err = fmt.Sprintf("ENCODING-FAILURE: %v", r)
		}
		o.Queries, o.SolverS, o.WallS = sol.Queries, sol.Seconds, time.Since(t0).Seconds()
	}()
	ev := vlog.NewEval(d, st, "")
	ev.FreshInputs("x")
	// name -> pin expression (inputs of black boxes) ; black-box outputs are free variables ev.In["aK_inst.port"]
	pinIn := map[string]*smt.Term{}
	for _, p := range d.Pins {
		if p.Dir == "input" {
			pinIn[p.Inst+"."+p.Port] = ev.PinExpr(p)
		}
	}
	bbOut := func(inst, port string) *smt.Term {
		t, ok := ev.In[inst+"."+port]
		if !ok {
			panic("no black-box output " + inst + "." + port)
		}
		return t
	}
	split := func(name string, sep byte) (string, string) { // p<q>o<f> -> a<q>_inst, o<f>
		i := strings.IndexByte(name[1:], sep) + 1
		return "a" + name[1:i] + "_inst", name[i:]
	}
	// producer-side terms of an output endpoint
	outData := func(name string) (*smt.Term, *smt.Term) {
		if name[0] == 'i' {
			return ev.Sig(name), ev.Sig(name + "_valid")
		}
		inst, port := split(name, 'o')
		return bbOut(inst, port), bbOut(inst, port+"_valid")
	}
	inRecv := func(name string) *smt.Term {
		if name[0] == 'o' {
			return ev.Sig(name + "_received")
		}
		inst, port := split(name, 'i')
		return bbOut(inst, port+"_received")
	}
	var obls []TermObl
	add := func(tag string, a, b *smt.Term) {
		if a == nil || b == nil {
			panic("missing pin for " + tag)
		}
		obls = append(obls, TermObl{Tag: tag, Kind: "assert", Hyp: st.T, Concl: st.Eq(a, b)})
	}
	consumers := map[string][]string{}
	for _, b := range g.bonds {
		e := strings.Split(b, ">")
		in, out := e[0], e[1]
		consumers[out] = append(consumers[out], in)
		data, valid := outData(out)
		if in[0] == 'o' {
			add("top-output-data "+b, ev.Sig(in), data)
			add("top-output-valid "+b, ev.Sig(in+"_valid"), valid)
		} else {
			inst, port := split(in, 'i')
			add("consumer-data-pin "+b, pinIn[inst+"."+port], data)
			add("consumer-valid-pin "+b, pinIn[inst+"."+port+"_valid"], valid)
		}
	}
	_, outs := c02Endpoints(g.doms, g.hist)
	for _, out := range outs {
		cs := consumers[out]
		if len(cs) == 0 {
			continue // an unbonded output: its received line is not constrained by the property
		}
		conj := st.BV(1, 1)
		for _, c := range cs {
			conj = st.Bin(smt.OpBvAnd, conj, inRecv(c))
		}
		if out[0] == 'i' {
			add("received-is-conjunction "+out, ev.Sig(out+"_received"), conj)
		} else {
			inst, port := split(out, 'o')
			add("received-is-conjunction "+out, pinIn[inst+"."+port+"_received"], conj)
		}
	}
	obls = append(obls, TermObl{Tag: "reachable", Kind: "reach", Hyp: st.T})
	o.Obls = DecideTerms(st, sol, obls, nil)
	o.Funcs = []string{"bondmachine.(*Bondmachine).Write_verilog_main (generated top level)"}
	return o
}

func C02(tier string) int {
	t0 := time.Now()
	if err := BuildNative(); err != nil {
		fmt.Println("MACHINERY:", err)
		return 2
	}
	h := Harness{File: "c02.go", Extra: []string{"lib_bondmachine.go", "lib_emitted.go", "c02_stream.go"}, Pkg: "pkg/bondmachine"}
	gs := c02Family(tier, Seed())
	hdl := make([]Outcome, len(gs))
	var wg sync.WaitGroup
	sem := make(chan struct{}, 16)
	for i := range gs {
		wg.Add(1)
		go func(i int) {
			defer wg.Done()
			sem <- struct{}{}
			defer func() { <-sem }()
			hdl[i] = c02HDL(gs[i])
		}(i)
	}
	var cfgs []Config
	for _, g := range gs {
		cfgs = append(cfgs, Config{Name: "sim-wiring " + g.spec(), Func: "zzC02Wiring", Args: []Arg{S(g.spec())}})
	}
	scfgs, scases, serrs, srej := c02bConfigs(tier, &h)
	cfgs = append(cfgs, scfgs...)
	sp := &Spec{
		ID: "C02", Level: "translation_validation", Tier: tier, Harness: h,
		LoadPkgs: []string{"pkg/bondmachine"},
		Opts:     RunOpts{Pkg: h.Pkg, Inits: []string{"pkg/bmnumbers", "pkg/procbuilder", "pkg/bondmachine"}, Post: c02bPost(scases), TimeoutMs: 60000},
		Assumptions: []string{
			"part (a) of the design only: WIRING. For each bond graph of the family (built through the real Add_input/Add_output/Add_processor/Add_bond), (1) the generated top-level netlist, with processors as black boxes whose output pins are free variables, connects every bonded consumer data/valid pin and every external output to exactly its producer, and every bonded producer's received line equals the AND of the received lines of exactly the inputs bonded to it, for all pin values; (2) the simulator's data-movement phases (two VM.Step with processors running 'j 0') implement the same relation for all port values",
			"part (b), bounded and for concrete programs: for each source of a seeded family (the one-CP family of C05 with its entry label first: labels, jumps, macros, mov with literals, inc/dec/add/clr/cpy/nop, i2r/r2o; register sizes 8/16) the real assembler is run natively and the real generators write the Verilog of the emitted machine - top level, arch wrapper, processor and the ROM WITH ITS GENERATED CONTENTS; /verif/vlog unrolls it from one reset cycle for T = 2*lines+4 cycles and z3 decides that after every cycle every external output and the pc, and at the horizon every register, equal the simulator's after the same number of ticks, FOR ALL values of the external inputs (constant, valid). Every source is also generated with the onlydestregs hardware optimisation from the requirement tree the assembler exports (the tools' own flow: basm DumpRequirements -> bmreqs.Import -> ReqRoot). Registers the generated reset does not assign (the output registers) are taken to power up at 0, the FPGA convention and the simulator's initial value. Handshaked I/O, several processors, input streams and stalls are outside part (b) (handshakes: C04 on both back-ends)",
			"unbonded endpoints are not constrained; shared objects, etherbond/udpbond modules and board top files are outside; 8-bit machines; graphs are sampled from the stated family with VERIF_SEED",
		},
		Bounds: map[string]interface{}{"graphs": len(gs), "processors_max": 3, "domains_N:M": "1:1,2:1,1:2", "history_length_max": map[string]int{"quick": 4, "thorough": 5}},
		Rule:   "programs = bond graphs; one obligation per connected pin (data, valid) and per bonded producer (received), on the HDL side and on the simulator side",
	}
	sp.Bounds["stream_sources"] = len(scfgs) + srej
	sp.Bounds["stream_sources_rejected_by_the_front_end"] = srej
	p := LoadProgram(sp.LoadPkgs, h)
	loadS := time.Since(t0).Seconds()
	simOuts := RunFamily(p, FilterConfigs(cfgs), sp.Opts)
	wg.Wait()
	sp.Extra = func(cov map[string]interface{}, outs []Outcome) {
		cov["programs"] = len(gs)
		cov["disagreements_checked"] = len(outs)
	}
	code := Finish(sp, append(hdl, simOuts...), t0, loadS)
	for _, e := range serrs {
		fmt.Println("MACHINERY:", e)
	}
	if len(serrs) > 0 && code == 0 {
		code = 2
	}
	return code
}
