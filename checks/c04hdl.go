package checks

import (
	"fmt"
	"strconv"
	"strings"
	"time"

	"verif/smt"
	"verif/vlog"
)

// C04, hardware side: bounded model checking of the generated Verilog of a
// producer (r2owa) bonded to k consumers (i2rw) with symbolic ROMs, from reset,
// with the same ghost monitor as the simulator side expressed over _pc/_rK.
//
// mode 0: the property as stated; mode 1: the recorded situation (an i2rw
// executing while its input's received register is still set from the previous
// capture and valid is still high) is assumed away.
func c04HDL(k, words, T, mode int) Outcome { return c04HDLOuts(k, words, T, mode, 1) }

// c04PinCycles: with one consumer per output, the longest the producer keeps valid high after that consumer's
// capture on the unchanged tree (found as the smallest value for which the family is clean)
const c04PinCycles = 3

// c04HDLOuts: the producer has `outs` outputs; consumer c reads output c mod outs
func c04HDLOuts(k, words, T, mode, outs int) Outcome {
	t0 := time.Now()
	mname := "strict"
	if mode == 1 {
		mname = "known-situations-excluded"
	}
	o := Outcome{Config: Config{Name: fmt.Sprintf("hdl consumers=%d producer_outputs=%d program_words=%d cycles=%d mode=%s", k, outs, words, T, mname), Func: "generated Verilog (bmfull)"}}
	doms := []string{fmt.Sprintf("0:%d:1:2:inc+j+nop+r2owa", outs)}
	hist := []string{"P0"}
	var bonds []string
	for c := 1; c <= k; c++ {
		doms = append(doms, "1:0:1:2:cpy+i2rw+inc+j+nop")
		hist = append(hist, "P"+strconv.Itoa(c))
		bonds = append(bonds, fmt.Sprintf("p%di0>p0o%d", c, (c-1)%outs))
	}
	src, err := Native("bmfull", "8;"+strings.Join(doms, ",")+";"+strings.Join(hist, ",")+";"+strings.Join(bonds, ","))
	if err != nil {
		o.Err = err.Error()
		return o
	}
	mods, info, err := ParseFiles(src)
	if err != nil {
		o.Err = "ENCODING-FAILURE: " + err.Error()
		return o
	}
	d, err := vlog.Elaborate(mods, "bondmachine", nil)
	if err != nil {
		o.Err = err.Error()
		return o
	}
	st := smt.NewStore()
	sol, err := smt.NewSolver("z3", st, 300000)
	if err != nil {
		o.Err = err.Error()
		return o
	}
	defer sol.Close()
	defer func() {
		if r := recover(); r != nil {
			o.Err = fmt.Sprintf("ENCODING-FAILURE: %v", r)
		}
		o.Queries, o.SolverS, o.WallS = sol.Queries, sol.Seconds, time.Since(t0).Seconds()
	}()
	opIndex := func(p int, name string) int {
		for i, n := range strings.Split(info[fmt.Sprintf("p%d.ops", p)], "+") {
			if n == name {
				return i
			}
		}
		panic("opcode not found: " + name)
	}
	atoi := func(s string) int { v, _ := strconv.Atoi(s); return v }
	nproc := k + 1
	maxword := make([]int, nproc)
	opbits := make([]int, nproc)
	for p := 0; p < nproc; p++ {
		maxword[p] = atoi(info[fmt.Sprintf("p%d.maxword", p)])
		opbits[p] = atoi(info[fmt.Sprintf("p%d.opbits", p)])
	}
	ev := vlog.NewEval(d, st, "")
	ev.FreshState("s")
	if err := ev.ApplyInitial(); err != nil {
		o.Err = err.Error()
		return o
	}
	hyp := st.T
	// symbolic ROMs: the first `words` addresses arbitrary with a valid opcode, the rest "j 0"
	roms := make([][]*smt.Term, nproc)
	for p := 0; p < nproc; p++ {
		name := fmt.Sprintf("a%d_inst.p%drom_instance._rom", p, p)
		rom := make([]*smt.Term, 4)
		nops := len(strings.Split(info[fmt.Sprintf("p%d.ops", p)], "+"))
		jIdx := opIndex(p, "j")
		for i := range rom {
			if i < words {
				w := st.Var(fmt.Sprintf("rom%d[%d]", p, i), maxword[p])
				op := st.Extract(maxword[p]-1, maxword[p]-opbits[p], w)
				if nops < 1<<uint(opbits[p]) {
					hyp = st.And(hyp, st.Cmp(smt.OpBvUlt, op, st.BV(uint64(nops), opbits[p])))
				}
				rom[i] = w
			} else {
				rom[i] = st.BV(uint64(jIdx)<<uint(maxword[p]-opbits[p]), maxword[p])
			}
		}
		roms[p] = rom
		ev.Cur.Mems[name] = rom
	}
	// one reset cycle
	ev.In["reset"] = st.BV(1, 1)
	ev.In["clk"] = st.BV(0, 1)
	nx, err := ev.Step()
	if err != nil {
		o.Err = err.Error()
		return o
	}
	// arbitrary initial registers after reset? the reset clears them: leave as the hardware does
	cur := vlog.NewEval(d, st, "")
	cur.Cur = nx
	for p := 0; p < nproc; p++ {
		cur.Cur.Mems[fmt.Sprintf("a%d_inst.p%drom_instance._rom", p, p)] = roms[p]
		// arbitrary register contents at the start (the simulator side does the same)
		for r := 0; r < 2; r++ {
			cur.Cur.Regs[fmt.Sprintf("a%d_inst.p%d_instance._r%d", p, p, r)] = st.Var(fmt.Sprintf("reg%d.%d", p, r), 8)
		}
	}
	// ghost monitor
	const maxEv = 12
	zero8 := st.BV(0, 8)
	nsO := make([]*smt.Term, outs)
	sentO := make([][]*smt.Term, outs)
	for j := range nsO {
		nsO[j] = zero8
		sentO[j] = make([]*smt.Term, maxEv)
		for i := range sentO[j] {
			sentO[j][i] = zero8
		}
	}
	ng := make([]*smt.Term, k)
	got := make([][]*smt.Term, k)
	for c := range ng {
		ng[c] = zero8
		got[c] = make([]*smt.Term, maxEv)
		for i := range got[c] {
			got[c][i] = zero8
		}
	}
	// cycles since consumer c last captured (saturating)
	sinceCap := make([]*smt.Term, k)
	for c := range sinceCap {
		sinceCap[c] = st.BV(255, 8)
	}
	var obls []TermObl
	r2owa := opIndex(0, "r2owa")
	i2rw := opIndex(1, "i2rw")
	sig := func(e *vlog.Eval, p int, name string) *smt.Term {
		return e.Sig(fmt.Sprintf("a%d_inst.p%d_instance.%s", p, p, name))
	}
	for t := 0; t < T; t++ {
		cur.In["reset"] = st.BV(0, 1)
		cur.In["clk"] = st.BV(0, 1)
		// pre-state observations
		pc0 := sig(cur, 0, "_pc")
		ins0 := sig(cur, 0, "current_instruction")
		isR2owa := st.Eq(st.Extract(maxword[0]-1, maxword[0]-opbits[0], ins0), st.BV(uint64(r2owa), opbits[0]))
		auxO := make([]*smt.Term, outs)
		for j := range auxO {
			auxO[j] = sig(cur, 0, fmt.Sprintf("_auxo%d", j))
		}
		// the output an r2owa names: the field after the register (one bit when there are two outputs)
		outSel := func(j int) *smt.Term {
			if outs == 1 {
				return st.T
			}
			return st.Eq(st.Extract(maxword[0]-opbits[0]-2, maxword[0]-opbits[0]-2, ins0), st.BV(uint64(j), 1))
		}
		pcs := make([]*smt.Term, k)
		isI2rw := make([]*smt.Term, k)
		regSel := make([]*smt.Term, k)
		for c := 0; c < k; c++ {
			p := c + 1
			pcs[c] = sig(cur, p, "_pc")
			ins := sig(cur, p, "current_instruction")
			isI2rw[c] = st.Eq(st.Extract(maxword[p]-1, maxword[p]-opbits[p], ins), st.BV(uint64(i2rw), opbits[p]))
			regSel[c] = st.Extract(maxword[p]-opbits[p]-1, maxword[p]-opbits[p]-1, ins)
			if mode == 1 {
				situation := st.And(isI2rw[c], st.And(st.Eq(sig(cur, p, "i0_valid"), st.BV(1, 1)), st.Eq(sig(cur, p, "i0_recv"), st.BV(1, 1))))
				if outs > 1 {
					// every output has one consumer here: the producer withdraws valid within a few cycles of the
					// capture, so the recorded situation is pinned to that window - a valid that stays high for
					// another reason is reported
					situation = st.And(situation, st.Cmp(smt.OpBvUle, sinceCap[c], st.BV(c04PinCycles, 8)))
				}
				hyp = st.And(hyp, st.Not(situation))
			}
		}
		nx, err := cur.Step()
		if err != nil {
			o.Err = err.Error()
			return o
		}
		nxt := vlog.NewEval(d, st, "")
		nxt.Cur = nx
		// events
		for j := 0; j < outs; j++ {
			retire := st.And(st.And(isR2owa, outSel(j)), st.Ne(sig(nxt, 0, "_pc"), pc0))
			for i := range sentO[j] {
				sentO[j][i] = st.Ite(st.And(retire, st.Eq(nsO[j], st.BV(uint64(i), 8))), auxO[j], sentO[j][i])
			}
			nsO[j] = st.Ite(retire, st.Bin(smt.OpBvAdd, nsO[j], st.BV(1, 8)), nsO[j])
		}
		for c := 0; c < k; c++ {
			p := c + 1
			capture := st.And(isI2rw[c], st.Ne(sig(nxt, p, "_pc"), pcs[c]))
			val := st.Ite(st.Eq(regSel[c], st.BV(1, 1)), sig(nxt, p, "_r1"), sig(nxt, p, "_r0"))
			for i := range got[c] {
				got[c][i] = st.Ite(st.And(capture, st.Eq(ng[c], st.BV(uint64(i), 8))), val, got[c][i])
			}
			ng[c] = st.Ite(capture, st.Bin(smt.OpBvAdd, ng[c], st.BV(1, 8)), ng[c])
			if mode == 1 {
				// a value is only ever taken from a live offer: at the capture the producer is executing an r2owa on
				// the output this consumer reads (a valid line left high after the producer moved on is caught here)
				obls = append(obls, TermObl{Tag: fmt.Sprintf("captured-from-a-live-offer c%d @%d", c, t), Kind: "assert", Hyp: st.And(hyp, capture), Concl: st.And(isR2owa, outSel(c%outs))})
			}
			sat := st.Ite(st.Eq(sinceCap[c], st.BV(255, 8)), sinceCap[c], st.Bin(smt.OpBvAdd, sinceCap[c], st.BV(1, 8)))
			sinceCap[c] = st.Ite(capture, st.BV(0, 8), sat)
		}
		// assertions at this cycle (only the last cycles need separate queries: earlier ones are implied
		// to be checked too, but each costs a query; check every 4th cycle and the last)
		if t%4 == 3 || t == T-1 {
			for c := 0; c < k; c++ {
				ns, sent := nsO[c%outs], sentO[c%outs]
				obls = append(obls, TermObl{Tag: fmt.Sprintf("no-loss c%d @%d", c, t), Kind: "assert", Hyp: hyp, Concl: st.Cmp(smt.OpBvUle, ns, ng[c])})
				obls = append(obls, TermObl{Tag: fmt.Sprintf("no-duplicate c%d @%d", c, t), Kind: "assert", Hyp: hyp, Concl: st.Cmp(smt.OpBvUle, ng[c], st.Bin(smt.OpBvAdd, ns, st.BV(1, 8)))})
				same := st.T
				for i := 0; i < maxEv; i++ {
					both := st.And(st.Cmp(smt.OpBvUlt, st.BV(uint64(i), 8), ns), st.Cmp(smt.OpBvUlt, st.BV(uint64(i), 8), ng[c]))
					same = st.And(same, st.Implies(both, st.Eq(got[c][i], sent[i])))
				}
				obls = append(obls, TermObl{Tag: fmt.Sprintf("same-value-in-order c%d @%d", c, t), Kind: "assert", Hyp: hyp, Concl: same})
			}
		}
		cur = nxt
	}
	// vacuity: some program really transfers two values within the horizon
	obls = append(obls, TermObl{Tag: "a consumer captures", Kind: "reach", Hyp: st.And(hyp, st.Cmp(smt.OpBvUle, st.BV(1, 8), ng[0]))})
	obls = append(obls, TermObl{Tag: "the producer retires an r2owa", Kind: "reach", Hyp: st.And(hyp, st.Cmp(smt.OpBvUle, st.BV(1, 8), nsO[0]))})
	obls = append(obls, TermObl{Tag: "two transfers happen", Kind: "reach", Hyp: st.And(hyp, st.Cmp(smt.OpBvUle, st.BV(2, 8), nsO[0]))})
	if outs > 1 {
		obls = append(obls, TermObl{Tag: "both outputs transfer", Kind: "reach", Hyp: st.And(hyp, st.And(st.Cmp(smt.OpBvUle, st.BV(1, 8), nsO[0]), st.Cmp(smt.OpBvUle, st.BV(1, 8), nsO[1])))})
	}
	o.Obls = DecideTerms(st, sol, obls, nil)
	// monotone properties: a violation at cycle t is also reported at later cycles; keep the first per kind
	seen := map[string]bool{}
	var kept []OblResult
	for _, ob := range o.Obls {
		kind := strings.SplitN(ob.Tag, " @", 2)[0]
		if ob.Result == "violated" {
			if seen[kind] {
				continue
			}
			seen[kind] = true
		}
		kept = append(kept, ob)
	}
	o.Obls = kept
	if len(sol.Errors) > 0 {
		o.Err = "solver errors: " + sol.Errors[0]
	}
	o.Funcs = []string{"generated Verilog of producer + consumers (" + d.Describe() + ")"}
	return o
}
