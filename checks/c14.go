package checks

import (
	"fmt"
	"strings"

	"golang.org/x/tools/go/ssa"

	"verif/symgo"
)

// c14Hooks redirects the gate table (MatrixFromOp) to the harness stub that returns fresh symbolic entries.
func c14Hooks(in *symgo.Interp) {
	in.Hooks["(*"+repoMod+"/pkg/bmqsim.BmQSimulator).MatrixFromOp"] = func(in *symgo.Interp, fn *ssa.Function, args []symgo.Value) (symgo.Value, bool) {
		stub := fn.Pkg.Func("zzC14Gate")
		if stub == nil {
			panic(in.Unsupported("zzC14Gate missing from the harness"))
		}
		return in.CallFunction(stub, args[1:], nil), true
	}
}

func c14Perms(n, k int) [][]int {
	var res [][]int
	var rec func(cur []int)
	rec = func(cur []int) {
		if len(cur) == k {
			res = append(res, append([]int{}, cur...))
			return
		}
	next:
		for q := 0; q < n; q++ {
			for _, c := range cur {
				if c == q {
					continue next
				}
			}
			rec(append(cur, q))
		}
	}
	rec(nil)
	return res
}

func C14(tier string) int {
	h := Harness{File: "c14.go", Pkg: "pkg/bmqsim"}
	one := []string{"h", "y", "t", "sx"}
	two := []string{"cx", "dcnot", "iswap", "cz"}
	var cfgs []Config
	add := func(n int, gates []string) {
		cfgs = append(cfgs, Config{Name: fmt.Sprintf("layer qubits=%d gates=%q", n, strings.Join(gates, ";")), Func: "zzC14Layer",
			Args: []Arg{I(n), S(strings.Join(gates, ";"))}, Setup: c14Hooks})
	}
	maxN := 3
	if tier == "thorough" {
		maxN = 4
	}
	k := 0
	for n := 1; n <= maxN; n++ {
		// single-qubit gates on every subset (each qubit idle or gated)
		for mask := 1; mask < 1<<uint(n); mask++ {
			var g []string
			for q := 0; q < n; q++ {
				if mask>>uint(q)&1 == 1 {
					g = append(g, fmt.Sprintf("%s q%d", one[(q+mask)%len(one)], q))
				}
			}
			add(n, g)
		}
		if n < 2 {
			continue
		}
		// one two-qubit gate on every ordered pair, the other qubits idle / gated, the gate first or last in the list
		for _, p := range c14Perms(n, 2) {
			for mask := 0; mask < 1<<uint(n-2); mask++ {
				var rest []string
				bitno := 0
				for q := 0; q < n; q++ {
					if q == p[0] || q == p[1] {
						continue
					}
					if mask>>uint(bitno)&1 == 1 {
						rest = append(rest, fmt.Sprintf("%s q%d", one[(q+k)%len(one)], q))
					}
					bitno++
				}
				g2 := fmt.Sprintf("%s q%d q%d", two[k%len(two)], p[0], p[1])
				k++
				add(n, append([]string{g2}, rest...))
				if len(rest) > 0 {
					add(n, append(append([]string{}, rest...), g2))
				}
			}
		}
		// two two-qubit gates
		if n >= 4 {
			for _, p := range c14Perms(n, 4) {
				add(n, []string{fmt.Sprintf("%s q%d q%d", two[k%len(two)], p[0], p[1]), fmt.Sprintf("%s q%d q%d", two[(k+1)%len(two)], p[2], p[3])})
				k++
			}
		}
	}
	if maxN < 4 {
		// the quick tier still sees some placements of two two-qubit gates on 4 qubits (all 24 in the thorough tier)
		for _, g := range [][]string{{"cx q0 q2", "dcnot q1 q3"}, {"cz q3 q1", "cx q2 q0"}, {"iswap q1 q2", "cz q0 q3"}, {"cx q0 q1", "cx q2 q3"}, {"dcnot q3 q0", "iswap q2 q1"}, {"cx q0 q3", "cz q1 q2"}} {
			add(4, g)
		}
	}
	// whole circuits: layering and the software simulation
	circuits := []struct {
		n int
		c string
	}{
		{1, "h q0;y q0"},
		{1, "y q0;h q0"},
		{2, "y q1;cx q1 q0;h q1"},
		{2, "x q0;iswap q0 q1;h q1"},
		{2, "h q0;cx q0 q1"},
		{2, "cx q1 q0;h q1;y q0"},
		{2, "h q0;y q1;cx q0 q1;t q0"},
		{3, "h q0;cx q0 q2;y q1"},
		{3, "cx q2 q0;cx q1 q2"},
		{3, "h q1;cx q2 q1;t q0;dcnot q0 q2"},
	}
	if tier == "thorough" {
		circuits = append(circuits, []struct {
			n int
			c string
		}{{3, "cx q0 q1;cx q1 q2;cx q2 q0"}, {3, "h q0;h q2;cx q0 q2;y q1"}, {4, "cx q3 q0;h q1;cx q1 q2;y q3"}}...)
	}
	for _, c := range circuits {
		cfgs = append(cfgs, Config{Name: fmt.Sprintf("circuit qubits=%d program=%q", c.n, c.c), Func: "zzC14Circuit", Args: []Arg{I(c.n), S(c.c)}, Setup: c14Hooks})
	}
	sp := &Spec{
		ID: "C14", Level: "proof", Tier: tier, Harness: h, ReplayOrModel: true,
		LoadPkgs: []string{"pkg/bmqsim"},
		Opts:     RunOpts{Inits: []string{}, ConfigBudgetS: 900, TimeoutMs: 60000, PanicObl: true},
		Configs:  FilterConfigs(cfgs),
		Assumptions: []string{
			"EXACT ARITHMETIC, NOT IEEE-754: float32 values are exact reals in the encoding (sort Real, polynomial identities decided by z3's nonlinear arithmetic); rounding and the 'within float32 tolerance' part of the property are outside. A counterexample is replayed natively with the real gate tables and a 1e-4 tolerance; when those particular gates do not show it, it stands on the exact rational evaluation of the obligation under the solver's model",
			"gate placement for ARBITRARY gate matrices: BmQSimulator.MatrixFromOp is redirected to a stub returning a matrix of fresh solver variables (real and imaginary part per entry), the same one when the same gate instance is asked for again; therefore the gate constant tables (static2x2.go, static4x4.go), the parametric gates (sin/cos) and unitarity of each gate are NOT checked - unitarity of an emitted matrix follows from placement (tensor products and simultaneous row/column permutations preserve it) only if the gate tables are unitary",
			"executed symbolically: BmMatrixFromOperation, swaps2baseSwaps, TensorProductComplex, SwapRowsColsComplex, IdentityComplex, Complex32Mul/Add, QasmToBmMatrices, RunSoftwareSimulation, MatrixVectorProductComplex",
			"reference: entry (r,c) of a layer is the product over its gates of g[bits of r at the gate's qubits][bits of c at them], first argument most significant, qubit 0 the most significant bit, rows and columns equal on idle qubits; a circuit is the product of its gates' operators in program order",
			"placements are enumerated (structure, not data): every subset of single-qubit gates, every ordered pair for one two-qubit gate with every idle/gated choice of the others and both list orders, every ordered disjoint pair of two-qubit gates (4 qubits, thorough); up to 3 qubits quick, 4 thorough; three-qubit gates and 5 qubits are outside",
		},
		Bounds: map[string]interface{}{"qubits_max": maxN, "layer_placements": len(cfgs) - len(circuits), "circuits": len(circuits)},
		Rule:   "one obligation per matrix entry (real and imaginary part together) per placement: a polynomial identity in the gate entries",
	}
	return Execute(sp)
}
