// Package checks holds the per-property orchestration: families of
// configurations, harness execution by symgo, solver verdicts, native replay,
// known findings and evidence files.
package checks

import (
	"encoding/json"
	"fmt"
	"os"
	"path/filepath"
	"runtime"
	"sort"
	"strconv"
	"strings"
	"sync"
	"syscall"
	"time"
	"unsafe"

	"verif/smt"
	"verif/symgo"
)

const RepoDir = "/repo"

var VerifDir = func() string {
	if d := os.Getenv("VERIF_DIR"); d != "" {
		return d
	}
	if wd, err := os.Getwd(); err == nil {
		if _, err := os.Stat(filepath.Join(wd, "harness")); err == nil {
			return wd
		}
	}
	return "/verif"
}()

// Arg of a harness call: an int or a string.
type Arg struct {
	I     int64
	S     string
	IsStr bool
}

func I(v int) Arg    { return Arg{I: int64(v)} }
func S(v string) Arg { return Arg{S: v, IsStr: true} }

func (a Arg) String() string {
	if a.IsStr {
		return a.S
	}
	return strconv.FormatInt(a.I, 10)
}

// Config is one member of a family: a harness function and its concrete arguments.
type Config struct {
	Name    string
	Func    string
	Args    []Arg
	Harness *Harness `json:"-"` // nil: the spec's main harness
	// Setup, if set, customises the interpreter before the run (hooks, limits).
	Setup func(in *symgo.Interp) `json:"-"`
}

func (c Config) ArgStrings() []string {
	r := make([]string, len(c.Args))
	for i, a := range c.Args {
		r[i] = a.String()
	}
	return r
}

type OblResult struct {
	Kind, Tag, Pos, Result string
	Model                  map[string]uint64 `json:",omitempty"`
	Secs                   float64
	Confirmed              bool // HDL obligations: the model falsifies the obligation under concrete evaluation
}

type Outcome struct {
	Config     Config
	Err        string
	Obls       []OblResult
	Instrs     int
	Forks      int
	Queries    int
	Stretched  int // queries asked again with a stretched timeout (solver starved of CPU)
	Second     int // obligations handed to the second solver release after the first gave up
	SolverS    float64
	WallS      float64
	Funcs      []string
	Natives    []string
	Stubs      []string
	Unwind     []string
	Opaque     int
	Abstracted bool
	Exports    map[string]symgo.Value `json:"-"`
	Interp     *symgo.Interp          `json:"-"`
}

type RunOpts struct {
	Pkg           string   // package of the harness functions, e.g. "pkg/procbuilder"
	Inits         []string // packages whose init is interpreted
	Workers       int
	TimeoutMs     int
	PanicObl      bool // panics are obligations (must not happen)
	Abstract      bool // UF abstraction of mul/div
	KeepInterp    bool
	Solver        string
	ConfigBudgetS int                                // CPU-time budget of the symbolic run of one configuration (default 120 s)
	Post          func(o *Outcome, in *symgo.Interp) // extra obligations built by the driver (e.g. against vlog terms)
}

// RunFamily executes every configuration symbolically and discharges its obligations.
func RunFamily(p *symgo.Program, cfgs []Config, opt RunOpts) []Outcome {
	if opt.Workers <= 0 {
		opt.Workers = 16
	}
	if opt.TimeoutMs <= 0 {
		opt.TimeoutMs = 20000
	}
	out := make([]Outcome, len(cfgs))
	var wg sync.WaitGroup
	jobs := make(chan int)
	for w := 0; w < opt.Workers; w++ {
		wg.Add(1)
		go func() {
			defer wg.Done()
			for i := range jobs {
				if os.Getenv("BMV_PROGRESS") != "" {
					fmt.Fprintf(os.Stderr, "start %s\n", cfgs[i].Name)
				}
				out[i] = runOne(p, cfgs[i], opt)
				if os.Getenv("BMV_PROGRESS") != "" {
					fmt.Fprintf(os.Stderr, "done  %s %.1fs %s\n", cfgs[i].Name, out[i].WallS, out[i].Err)
				}
			}
		}()
	}
	for i := range cfgs {
		jobs <- i
	}
	close(jobs)
	wg.Wait()
	return out
}

// runOne runs a configuration; with Abstract set, multiplications and divisions of two symbolic
// operands are first replaced by uninterpreted functions (sound for "holds"); if anything is then
// violated or inconclusive the configuration is decided again without the abstraction.
func runOne(p *symgo.Program, cfg Config, opt RunOpts) Outcome {
	o := runOnce(p, cfg, opt)
	if !opt.Abstract || !o.Abstracted {
		return o
	}
	redo := false
	for _, ob := range o.Obls {
		if ob.Result == "violated" || ob.Result == "inconclusive" {
			redo = true
		}
	}
	if !redo {
		return o
	}
	opt.Abstract = false
	o2 := runOnce(p, cfg, opt)
	o2.WallS += o.WallS
	o2.Queries += o.Queries
	o2.Stretched += o.Stretched
	o2.Second += o.Second
	o2.SolverS += o.SolverS
	return o2
}

func runOnce(p *symgo.Program, cfg Config, opt RunOpts) (o Outcome) {
	t0 := time.Now()
	o.Config = cfg
	st := smt.NewStore()
	st.AbstractMul = opt.Abstract
	sol, err := smt.NewSolver(opt.Solver, st, opt.TimeoutMs)
	if f := os.Getenv("BMV_SMTLOG"); f != "" && err == nil {
		// debugging aid: everything sent to the solver of the (single) filtered configuration
		if w, e := os.Create(f); e == nil {
			sol.Log = w
		}
	}
	if err != nil {
		o.Err = "solver: " + err.Error()
		return
	}
	defer sol.Close()
	in := symgo.NewInterp(p, st, sol)
	in.PanicAsObligation = opt.PanicObl
	budget := opt.ConfigBudgetS
	if budget <= 0 {
		budget = 120
	}
	// the budget is CPU time of this worker (thread + solver process); the wall-clock deadline is a cap for
	// a machine so loaded that nothing moves
	runtime.LockOSThread()
	defer runtime.UnlockOSThread()
	in.BudgetCPU = time.Duration(budget) * time.Second
	in.ThreadCPU = threadCPU
	in.Deadline = t0.Add(time.Duration(20*budget) * time.Second)
	if cfg.Setup != nil {
		cfg.Setup(in)
	}
	pkg := opt.Pkg
	if cfg.Harness != nil {
		pkg = cfg.Harness.Pkg
	}
	fn := p.Func(pkg, cfg.Func)
	if fn == nil {
		o.Err = "harness function not found: " + cfg.Func
		return
	}
	args := make([]symgo.Value, len(cfg.Args))
	for i, a := range cfg.Args {
		if a.IsStr {
			args[i] = &symgo.StrVal{C: a.S}
		} else {
			args[i] = st.BV(uint64(a.I), 64)
		}
	}
	defer func() {
		if r := recover(); r != nil {
			o.Err = fmt.Sprintf("engine panic: %v", r)
		}
	}()
	if err := in.RunHarness(fn, args, opt.Inits...); err != nil {
		o.Err = err.Error()
	}
	if opt.Post != nil && o.Err == "" {
		opt.Post(&o, in)
	}
	for _, v := range in.Discharge() {
		o.Obls = append(o.Obls, OblResult{Kind: v.Obl.Kind, Tag: v.Obl.Tag, Pos: v.Obl.Pos, Result: v.Result, Model: v.Model, Secs: v.Secs, Confirmed: v.Confirmed})
	}
	if len(sol.Errors) > 0 {
		o.Err += " solver-errors: " + strings.Join(sol.Errors[:min(3, len(sol.Errors))], "; ")
	}
	o.Instrs, o.Forks = in.Stats.Instrs, in.Stats.Forks
	o.Queries, o.SolverS = sol.Queries, sol.Seconds
	o.Stretched = sol.Stretched
	o.Second = in.SecondSolver
	o.Funcs = in.SortedFuncs()
	for n := range in.Stats.Natives {
		o.Natives = append(o.Natives, n)
	}
	for n := range in.Stats.Stubs {
		o.Stubs = append(o.Stubs, n)
	}
	sort.Strings(o.Natives)
	sort.Strings(o.Stubs)
	o.Unwind = in.Stats.Unwind
	o.Opaque = in.Stats.Opaque
	o.Abstracted = st.UsedAbstraction
	o.Exports = in.Exports
	if opt.KeepInterp {
		o.Interp = in
	}
	o.WallS = time.Since(t0).Seconds()
	return
}

// threadCPU reads the CPU clock of the calling OS thread (CLOCK_THREAD_CPUTIME_ID).
func threadCPU() time.Duration {
	var ts syscall.Timespec
	if _, _, e := syscall.Syscall(syscall.SYS_CLOCK_GETTIME, 3, uintptr(unsafe.Pointer(&ts)), 0); e != 0 {
		return time.Duration(time.Now().UnixNano()) // no CPU clock: fall back to wall-clock time
	}
	return time.Duration(ts.Sec)*time.Second + time.Duration(ts.Nsec)
}

// ---- evidence ----

type Evidence struct {
	PropertyID  string                 `json:"property_id"`
	Tier        string                 `json:"tier"`
	Seed        int                    `json:"seed"`
	Level       string                 `json:"level"`
	Coverage    map[string]interface{} `json:"coverage"`
	Assumptions []string               `json:"assumptions"`
	WallS       float64                `json:"wall_s"`
	Violations  int                    `json:"violations"`
}

func WriteEvidence(ev *Evidence) error {
	dir := filepath.Join(VerifDir, "evidence")
	os.MkdirAll(dir, 0o755)
	b, err := json.MarshalIndent(ev, "", " ")
	if err != nil {
		return err
	}
	return os.WriteFile(filepath.Join(dir, ev.PropertyID+".json"), append(b, '\n'), 0o644)
}

func Seed() int {
	if s := os.Getenv("VERIF_SEED"); s != "" {
		if v, err := strconv.Atoi(s); err == nil {
			return v
		}
	}
	return 1
}

// ---- known findings ----

type Finding struct {
	ID          string `json:"id"`
	Property    string `json:"property"`
	Status      string `json:"status"` // "known" or "fixed"
	Match       string `json:"match"`  // matched against the violation key (substring match of every ';'-separated part)
	Description string `json:"description"`
	Commit      string `json:"commit,omitempty"`
}

func LoadFindings(prop string) []Finding {
	var all []Finding
	b, err := os.ReadFile(filepath.Join(VerifDir, "known_findings.json"))
	if err != nil {
		return nil
	}
	if err := json.Unmarshal(b, &all); err != nil {
		fmt.Println("ENCODING-FAILURE: known_findings.json:", err)
		os.Exit(2)
	}
	var r []Finding
	for _, f := range all {
		if f.Property == prop && f.Status == "known" {
			r = append(r, f)
		}
	}
	return r
}

// MatchFinding: every ';'-separated part of Match must occur in key.
func MatchFinding(fs []Finding, key string) *Finding {
	for i := range fs {
		ok := true
		for _, part := range strings.Split(fs[i].Match, ";") {
			if part = strings.TrimSpace(part); part != "" && !strings.Contains(key, part) {
				ok = false
				break
			}
		}
		if ok {
			return &fs[i]
		}
	}
	return nil
}
