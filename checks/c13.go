package checks

import (
	"fmt"
	"strconv"
	"sync"
	"time"

	"verif/smt"
	"verif/vlog"
)

type c13Cfg struct {
	mem                     string
	depth, ns, nr, datasize int
}

func (c c13Cfg) String() string {
	return fmt.Sprintf("%s depth=%d senders=%d receivers=%d datasize=%d", c.mem, c.depth, c.ns, c.nr, c.datasize)
}

// c13View gives names to the state of one cycle.
type c13View struct {
	st                   *smt.Store
	c                    c13Cfg
	sp, rsp, wsp         *smt.Term // 8-bit extended
	sendSM, recvSM       *smt.Term // 8-bit extended
	mem                  []*smt.Term
	sAck, rAck           []*smt.Term // Bool
	rData                []*smt.Term
	sWrite, rRead, sData []*smt.Term // inputs (Bool / data)
	empty, full          *smt.Term
}

func b1(st *smt.Store, t *smt.Term) *smt.Term { return st.Eq(t, st.BV(1, 1)) }

func c13MkView(ev *vlog.Eval, c c13Cfg) *c13View {
	st := ev.St
	v := &c13View{st: st, c: c}
	x8 := func(name string) *smt.Term { return st.Resize(ev.Sig(name), 8, false) }
	v.sp = x8("sp")
	if c.mem == "FIFO" {
		v.rsp, v.wsp = x8("readsp"), x8("writesp")
	}
	v.sendSM, v.recvSM = x8("sendSM"), x8("recvSM")
	v.mem = ev.Cur.Mems["memory"]
	for i := 0; i < c.ns; i++ {
		n := "s" + strconv.Itoa(i)
		v.sAck = append(v.sAck, b1(st, ev.Sig(n+"Ack")))
		v.sWrite = append(v.sWrite, b1(st, ev.Sig(n+"Write")))
		v.sData = append(v.sData, ev.Sig(n+"Data"))
	}
	for i := 0; i < c.nr; i++ {
		n := "r" + strconv.Itoa(i)
		v.rAck = append(v.rAck, b1(st, ev.Sig(n+"Ack")))
		v.rRead = append(v.rRead, b1(st, ev.Sig(n+"Read")))
		v.rData = append(v.rData, ev.Sig(n+"Data"))
	}
	v.empty, v.full = b1(st, ev.Sig("empty")), b1(st, ev.Sig("full"))
	return v
}

func (v *c13View) k(n int) *smt.Term { return v.st.BV(uint64(n), 8) }

// inv is the representation invariant R.
func (v *c13View) inv() *smt.Term {
	st := v.st
	r := st.Cmp(smt.OpBvUle, v.sp, v.k(v.c.depth))
	r = st.And(r, st.Cmp(smt.OpBvUlt, v.sendSM, v.k(v.c.ns)))
	r = st.And(r, st.Cmp(smt.OpBvUlt, v.recvSM, v.k(v.c.nr)))
	if v.c.mem == "FIFO" {
		d := v.k(v.c.depth)
		r = st.And(r, st.Cmp(smt.OpBvUlt, v.rsp, d))
		r = st.And(r, st.Cmp(smt.OpBvUlt, v.wsp, d))
		gt := st.Cmp(smt.OpBvUlt, v.rsp, v.wsp)
		lt := st.Cmp(smt.OpBvUlt, v.wsp, v.rsp)
		eq := st.Eq(v.wsp, v.rsp)
		r = st.And(r, st.Implies(gt, st.Eq(v.sp, st.Bin(smt.OpBvSub, v.wsp, v.rsp))))
		r = st.And(r, st.Implies(lt, st.Eq(v.sp, st.Bin(smt.OpBvAdd, st.Bin(smt.OpBvSub, d, v.rsp), v.wsp))))
		r = st.And(r, st.Implies(eq, st.Or(st.Eq(v.sp, v.k(0)), st.Eq(v.sp, d))))
	}
	return r
}

// elem(i) of the abstract sequence, i a constant position.
func (v *c13View) elem(i int) *smt.Term {
	if v.c.mem == "LIFO" {
		return v.mem[i]
	}
	st := v.st
	res := v.mem[(v.c.depth-1+i)%v.c.depth]
	for r := v.c.depth - 2; r >= 0; r-- {
		res = st.Ite(st.Eq(v.rsp, v.k(r)), v.mem[(r+i)%v.c.depth], res)
	}
	return res
}

// at(idx) selects elem(idx) for a symbolic position (8 bit).
func (v *c13View) at(idx *smt.Term) *smt.Term {
	st := v.st
	res := v.elem(v.c.depth - 1)
	for i := v.c.depth - 2; i >= 0; i-- {
		res = st.Ite(st.Eq(idx, v.k(i)), v.elem(i), res)
	}
	return res
}

func c13Run(c c13Cfg, thorough bool) Outcome {
	t0 := time.Now()
	o := Outcome{Config: Config{Name: c.String(), Func: "bmstack.WriteHDL"}}
	src, err := Native("stack", c.mem, strconv.Itoa(c.depth), strconv.Itoa(c.ns), strconv.Itoa(c.nr), strconv.Itoa(c.datasize))
	if err != nil {
		o.Err = err.Error()
		return o
	}
	mods, _, err := ParseFiles(src)
	if err != nil {
		o.Err = "ENCODING-FAILURE: " + err.Error()
		return o
	}
	d, err := vlog.Elaborate(mods, "dut", nil)
	if err != nil {
		o.Err = err.Error()
		return o
	}
	st := smt.NewStore()
	sol, err := smt.NewSolver("z3", st, 60000)
	if err != nil {
		o.Err = err.Error()
		return o
	}
	defer sol.Close()
	defer func() {
		if r := recover(); r != nil {
			o.Err = fmt.Sprintf("ENCODING-FAILURE: %v", r)
		}
		o.Queries, o.SolverS, o.WallS = sol.Queries, sol.Seconds, time.Since(t0).Seconds()
	}()
	var obls []TermObl
	add := func(tag string, hyp, concl *smt.Term) {
		obls = append(obls, TermObl{Tag: tag, Kind: "assert", Hyp: hyp, Concl: concl})
	}

	// ---- 1. inductive step from an arbitrary R-state ----
	ev := vlog.NewEval(d, st, "")
	ev.FreshState("s")
	ev.FreshInputs("i")
	ev.In["reset"] = st.BV(0, 1)
	pre := c13MkView(ev, c)
	nxt, err := ev.Step()
	if err != nil {
		o.Err = err.Error()
		return o
	}
	ev2 := vlog.NewEval(d, st, "post.")
	ev2.Cur = nxt
	ev2.FreshInputs("i2")
	ev2.In["reset"] = st.BV(0, 1)
	post := c13MkView(ev2, c)
	R := pre.inv()
	add("R-preserved", R, post.inv())
	add("flag-empty", R, st.Eq(pre.empty, st.Eq(pre.sp, pre.k(0))))
	add("flag-full", R, st.Eq(pre.full, st.Eq(pre.sp, pre.k(c.depth))))
	var rises []*smt.Term
	riseR := make([]*smt.Term, c.nr)
	riseS := make([]*smt.Term, c.ns)
	for k := 0; k < c.nr; k++ {
		riseR[k] = st.And(post.rAck[k], st.Not(pre.rAck[k]))
		rises = append(rises, riseR[k])
	}
	for k := 0; k < c.ns; k++ {
		riseS[k] = st.And(post.sAck[k], st.Not(pre.sAck[k]))
		rises = append(rises, riseS[k])
	}
	one := st.T
	any := st.F
	for i := range rises {
		for j := i + 1; j < len(rises); j++ {
			one = st.And(one, st.Not(st.And(rises[i], rises[j])))
		}
		any = st.Or(any, rises[i])
	}
	add("one-event-per-cycle", R, one)
	L, L2 := pre.sp, post.sp
	for k := 0; k < c.nr; k++ {
		concl := st.And(pre.rRead[k], st.Not(st.Eq(L, pre.k(0))))
		concl = st.And(concl, st.Eq(L2, st.Bin(smt.OpBvSub, L, pre.k(1))))
		if c.mem == "LIFO" {
			concl = st.And(concl, st.Eq(post.rData[k], pre.at(st.Bin(smt.OpBvSub, L, pre.k(1)))))
			for i := 0; i < c.depth; i++ {
				concl = st.And(concl, st.Implies(st.Cmp(smt.OpBvUlt, pre.k(i), L2), st.Eq(post.elem(i), pre.elem(i))))
			}
		} else {
			concl = st.And(concl, st.Eq(post.rData[k], pre.elem(0)))
			for i := 0; i+1 < c.depth; i++ {
				concl = st.And(concl, st.Implies(st.Cmp(smt.OpBvUlt, pre.k(i), L2), st.Eq(post.elem(i), pre.elem(i+1))))
			}
		}
		add(fmt.Sprintf("read-ack-r%d-returns-and-removes-the-prescribed-element", k), st.And(R, riseR[k]), concl)
		add(fmt.Sprintf("r%d-data-changes-only-on-ack", k), st.And(R, st.Not(riseR[k])), st.Eq(post.rData[k], pre.rData[k]))
		add(fmt.Sprintf("r%d-ack-falls-only-when-request-dropped", k), st.And(R, st.And(pre.rAck[k], st.Not(post.rAck[k]))), st.Not(pre.rRead[k]))
		add(fmt.Sprintf("r%d-ack-held-while-requested", k), st.And(R, st.And(pre.rAck[k], pre.rRead[k])), post.rAck[k])
	}
	for k := 0; k < c.ns; k++ {
		concl := st.And(pre.sWrite[k], st.Not(st.Eq(L, pre.k(c.depth))))
		concl = st.And(concl, st.Eq(L2, st.Bin(smt.OpBvAdd, L, pre.k(1))))
		concl = st.And(concl, st.Eq(post.at(L), pre.sData[k]))
		for i := 0; i < c.depth; i++ {
			concl = st.And(concl, st.Implies(st.Cmp(smt.OpBvUlt, pre.k(i), L), st.Eq(post.elem(i), pre.elem(i))))
		}
		add(fmt.Sprintf("write-ack-s%d-stores-the-value-exactly-once", k), st.And(R, riseS[k]), concl)
		add(fmt.Sprintf("s%d-ack-falls-only-when-request-dropped", k), st.And(R, st.And(pre.sAck[k], st.Not(post.sAck[k]))), st.Not(pre.sWrite[k]))
		add(fmt.Sprintf("s%d-ack-held-while-requested", k), st.And(R, st.And(pre.sAck[k], pre.sWrite[k])), post.sAck[k])
	}
	stable := st.Eq(L2, L)
	for i := 0; i < c.depth; i++ {
		stable = st.And(stable, st.Implies(st.Cmp(smt.OpBvUlt, pre.k(i), L), st.Eq(post.elem(i), pre.elem(i))))
	}
	add("no-ack-no-change", st.And(R, st.Not(any)), stable)
	// vacuity witnesses
	obls = append(obls, TermObl{Tag: "a read can be acknowledged", Kind: "reach", Hyp: st.And(R, riseR[0])})
	obls = append(obls, TermObl{Tag: "a write can be acknowledged", Kind: "reach", Hyp: st.And(R, riseS[0])})

	// ---- 2. reset establishes R with the empty sequence ----
	evr := vlog.NewEval(d, st, "rst.")
	evr.FreshState("s")
	evr.FreshInputs("i")
	evr.In["reset"] = st.BV(1, 1)
	nr, err := evr.Step()
	if err != nil {
		o.Err = err.Error()
		return o
	}
	evr2 := vlog.NewEval(d, st, "rst2.")
	evr2.Cur = nr
	evr2.FreshInputs("i")
	pr := c13MkView(evr2, c)
	rc := st.And(pr.inv(), st.Eq(pr.sp, pr.k(0)))
	for _, a := range append(append([]*smt.Term{}, pr.sAck...), pr.rAck...) {
		rc = st.And(rc, st.Not(a))
	}
	add("reset-gives-empty-structure", st.T, rc)

	// ---- 3. bounded response ----
	respond := func(sender bool, k int, B int) {
		cur := vlog.NewEval(d, st, fmt.Sprintf("br%v%d.", sender, k))
		cur.FreshState("s")
		hyp := st.T
		acked := st.F
		var prev *c13View
		for t := 0; t <= B; t++ {
			cur.FreshInputs("t" + strconv.Itoa(t))
			cur.In["reset"] = st.BV(0, 1)
			v := c13MkView(cur, c)
			if t == 0 {
				hyp = st.And(hyp, v.inv())
				if sender {
					hyp = st.And(hyp, st.Not(v.sAck[k]))
				} else {
					hyp = st.And(hyp, st.Not(v.rAck[k]))
				}
			} else {
				if sender {
					acked = st.Or(acked, v.sAck[k])
				} else {
					acked = st.Or(acked, v.rAck[k])
				}
			}
			if t == B {
				break
			}
			// the agent keeps requesting with stable data while resources are available
			if sender {
				hyp = st.And(hyp, st.And(v.sWrite[k], st.Not(v.full)))
				if prev != nil {
					hyp = st.And(hyp, st.Eq(v.sData[k], prev.sData[k]))
				}
			} else {
				hyp = st.And(hyp, st.And(v.rRead[k], st.Not(v.empty)))
			}
			// the other agents complete their handshakes: hold until ack, drop on ack, no re-raise while ack is high
			if prev != nil {
				proto := func(reqP, ackP, reqN *smt.Term) {
					hyp = st.And(hyp, st.Implies(st.And(reqP, st.Not(ackP)), reqN))
					hyp = st.And(hyp, st.Implies(ackP, st.Not(reqN)))
				}
				for j := 0; j < c.ns; j++ {
					if !(sender && j == k) {
						proto(prev.sWrite[j], prev.sAck[j], v.sWrite[j])
					}
				}
				for j := 0; j < c.nr; j++ {
					if !(!sender && j == k) {
						proto(prev.rRead[j], prev.rAck[j], v.rRead[j])
					}
				}
			}
			prev = v
			nx, err := cur.Step()
			if err != nil {
				panic(err)
			}
			nc := vlog.NewEval(d, st, cur.Prefix)
			nc.Cur = nx
			cur = nc
		}
		who := "r"
		if sender {
			who = "s"
		}
		add(fmt.Sprintf("bounded-response-%s%d-within-%d-cycles", who, k, B), hyp, acked)
	}
	bs := c.ns*(c.depth*(c.nr+1)+2) + 2
	br := c.nr + 2
	if bs > 40 {
		// unrolling beyond 40 cycles did not finish within the query timeout (depth >= 3 with 3 senders and 3
		// receivers): the sender-side response obligation is not part of the claim for these modules
	} else if thorough || c.depth <= 2 {
		for k := 0; k < c.ns; k++ {
			respond(true, k, bs)
		}
	} else {
		respond(true, c.ns-1, bs)
	}
	for k := 0; k < c.nr; k++ {
		respond(false, k, br)
	}
	o.Obls = DecideTerms(st, sol, obls, nil)
	if len(sol.Errors) > 0 {
		o.Err = "solver errors: " + sol.Errors[0]
	}
	o.Funcs = []string{"bmstack.(*BmStack).WriteHDL (generated Verilog, " + d.Describe() + ")"}
	return o
}

func C13(tier string) int {
	t0 := time.Now()
	if err := BuildNative(); err != nil {
		fmt.Println("MACHINERY:", err)
		return 2
	}
	var cfgs []c13Cfg
	depths, agents, sizes := []int{1, 2, 3}, []int{1, 2}, []int{1, 4}
	if tier == "thorough" {
		depths, agents, sizes = []int{1, 2, 3, 4}, []int{1, 2, 3}, []int{1, 2, 4, 8}
	}
	for _, m := range []string{"LIFO", "FIFO"} {
		for _, d := range depths {
			for _, s := range agents {
				for _, r := range agents {
					for _, w := range sizes {
						cfgs = append(cfgs, c13Cfg{m, d, s, r, w})
					}
				}
			}
		}
	}
	outs := make([]Outcome, len(cfgs))
	var wg sync.WaitGroup
	sem := make(chan struct{}, 16)
	for i := range cfgs {
		wg.Add(1)
		go func(i int) {
			defer wg.Done()
			sem <- struct{}{}
			defer func() { <-sem }()
			outs[i] = c13Run(cfgs[i], tier == "thorough")
		}(i)
	}
	wg.Wait()
	sp := &Spec{
		ID: "C13", Level: "proof", Tier: tier,
		Assumptions: []string{
			"two-state semantics of the generated Verilog (/verif/vlog): an uninitialised register is an arbitrary value; one clock, reset treated as written (synchronous)",
			"inductive step from ANY state satisfying the representation invariant R (sp <= Depth; sendSM/recvSM in range; FIFO: readsp, writesp < Depth and sp consistent with them); reset establishes R with the empty sequence, so every reachable state is covered by induction",
			"bounded response: the requesting agent holds its request with stable data; every other agent holds a request until its ack, drops it in the cycle after the ack and does not re-raise while the ack is high; space (resp. data) is available throughout the window; bounds: senders ns*(Depth*(nr+1)+2)+2 cycles (only where this is at most 40: the longer unrollings did not finish and are outside the claim), receivers nr+2 cycles",
			"Depth, number of agents and data widths beyond the enumerated ones, and the shr_stack/shr_queue wrappers' port plumbing, are outside the claim",
			"no Verilog simulator is available in the image: a counterexample is confirmed by evaluating the obligation concretely under the solver's model and is written out as a trace",
		},
		Bounds: map[string]interface{}{"mem_types": []string{"LIFO", "FIFO"}, "depths": depths, "senders_receivers": agents, "data_sizes": sizes},
		Rule:   "one obligation per refinement fact per agent per generated module (MemType, Depth, senders, receivers, DataSize); all state registers, memory words and inputs are solver variables",
	}
	return Finish(sp, outs, t0, 0)
}
