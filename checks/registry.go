package checks

// Registry maps property ids to their check entry points.
var Registry = map[string]func(tier string) int{
	"C01": C01,
	"C02": C02,
	"C03": C03,
	"C04": C04,
	"C05": C05,
	"C06": C06,
	"C08": C08,
	"C09": C09,
	"C10": C10,
	"C11": C11,
	"C13": C13,
	"C14": C14,
	"C15": C15,
	"C16": C16,
}
