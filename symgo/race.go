package symgo

import (
	"fmt"
	"sort"
	"strconv"
	"strings"

	"verif/smt"
)

// Happens-before race obligations over the goroutine model (Interp.RaceDetect).
//
// The scheduler of sched.go runs one interleaving; what it fixes is only the order in which ready goroutines
// take the baton. The synchronisation structure of the run does not depend on that order: every goroutine's
// execution is cut into segments at its synchronisation events (go statement, channel send, channel receive)
// and the segments are ordered by
//
//	program order          segment -> next segment of the same goroutine
//	go statement           the segment that ends at the go statement -> first segment of the new goroutine
//	send -> receive        the segment that ends at the k-th send on a channel -> the segment that starts after the k-th receive
//	receive -> send done   the segment that ends at the k-th receive -> the segment that starts after the (k+cap)-th
//	                       send (a send on an unbuffered channel completes only when it is received)
//
// which is the happens-before relation of the Go memory model for these operations. Loads and stores executed by
// ssa.UnOp(*)/ssa.Store and the map instructions are recorded per memory cell (object + access path, or map)
// and segment, with the path guard under which they happen. Two accesses to the same cell from different
// goroutines, at least one a write, in segments not ordered either way, are a data race whenever both guards can
// hold together: that conjunction is the obligation handed to the solver (one per cell).
//
// Deliberately narrow, so that it cannot raise an alarm on race-free code: cells are compared by identical
// object and access path only (a whole-struct copy against a field write is missed), accesses made inside
// natives (copy, append, ...) are not recorded. sync.Mutex/RWMutex order the segments (release -> every later
// acquisition of the same mutex in the run); sync.WaitGroup and atomic are not modelled - a run that reaches
// one of those is refused by the interpreter (unsupported); sync.Map operations are not recorded as accesses.

type cellKey struct {
	obj  interface{} // *Object or *MapObj
	path string
}

type cellAcc struct {
	r, w       *smt.Term
	rpos, wpos string
}

type chanHB struct {
	sendAfter  []int // segment that starts after the k-th send
	recvBefore []int // segment that ends at the k-th receive
}

type raceState struct {
	segG  []int   // goroutine of each segment
	edges [][]int // happens-before edges between segments
	cur   map[int]int
	acc   map[cellKey]map[int]*cellAcc
	order []cellKey
	chans map[*ChanObj]*chanHB
	// released: per mutex, the segments that ended at a release
	released map[cellKey][]int
}

func (in *Interp) race() *raceState {
	if in.raceSt == nil {
		in.raceSt = &raceState{cur: map[int]int{}, acc: map[cellKey]map[int]*cellAcc{}, chans: map[*ChanObj]*chanHB{}}
	}
	return in.raceSt
}

func (in *Interp) curGor() int {
	if in.sched == nil || in.sched.cur == nil {
		return 0
	}
	return in.sched.cur.id
}

func (rs *raceState) newSeg(g int) int {
	rs.segG = append(rs.segG, g)
	rs.edges = append(rs.edges, nil)
	return len(rs.segG) - 1
}

func (rs *raceState) seg(g int) int {
	s, ok := rs.cur[g]
	if !ok {
		s = rs.newSeg(g)
		rs.cur[g] = s
	}
	return s
}

// cut ends the current segment of g at a synchronisation event and returns (ended, started).
func (rs *raceState) cut(g int) (int, int) {
	old := rs.seg(g)
	nw := rs.newSeg(g)
	rs.edges[old] = append(rs.edges[old], nw)
	rs.cur[g] = nw
	return old, nw
}

func (in *Interp) raceGo(parent, child int) {
	if !in.RaceDetect {
		return
	}
	rs := in.race()
	old, _ := rs.cut(parent)
	c := rs.newSeg(child)
	rs.cur[child] = c
	rs.edges[old] = append(rs.edges[old], c)
}

// raceSend returns the segment that ended at the send (stored with the item).
func (in *Interp) raceSend(c *ChanObj) int {
	if !in.RaceDetect {
		return -1
	}
	rs := in.race()
	old, nw := rs.cut(in.curGor())
	h := rs.chans[c]
	if h == nil {
		h = &chanHB{}
		rs.chans[c] = h
	}
	h.sendAfter = append(h.sendAfter, nw)
	return old
}

func (in *Interp) raceRecv(c *ChanObj, sendSeg int) {
	if !in.RaceDetect {
		return
	}
	rs := in.race()
	old, nw := rs.cut(in.curGor())
	if sendSeg >= 0 {
		rs.edges[sendSeg] = append(rs.edges[sendSeg], nw)
	}
	h := rs.chans[c]
	if h == nil {
		h = &chanHB{}
		rs.chans[c] = h
	}
	h.recvBefore = append(h.recvBefore, old)
}

// raceLock orders segments through a mutex: every release happens before every later acquisition of the same
// mutex in the run (read locks are treated like write locks: more order, never less). A mutex reached through
// a symbolic pointer orders through every mutex it may be, again only adding order.
func (in *Interp) raceLock(m Value, acquire bool) {
	if !in.RaceDetect {
		return
	}
	rs := in.race()
	var keys []cellKey
	switch pv := m.(type) {
	case *PtrVal:
		if pv.Obj != nil {
			keys = append(keys, cellKey{pv.Obj, pathKey(pv.Path)})
		}
	case *UnionVal:
		for _, al := range pv.Alts {
			if ap, ok := al.V.(*PtrVal); ok && ap.Obj != nil {
				keys = append(keys, cellKey{ap.Obj, pathKey(ap.Path)})
			}
		}
	}
	old, nw := rs.cut(in.curGor())
	if rs.released == nil {
		rs.released = map[cellKey][]int{}
	}
	for _, k := range keys {
		if acquire {
			for _, r := range rs.released[k] {
				rs.edges[r] = append(rs.edges[r], nw)
			}
		} else {
			rs.released[k] = append(rs.released[k], old)
		}
	}
}

func pathKey(p []Sel) string {
	var b strings.Builder
	for _, s := range p {
		if s.Sym != nil {
			b.WriteString("[*]")
		} else {
			b.WriteString("." + strconv.Itoa(s.Idx))
		}
	}
	return b.String()
}

// raceAccess records a load or store through p under the current guard.
func (in *Interp) raceAccess(p Value, write bool) {
	if !in.RaceDetect {
		return
	}
	switch pv := p.(type) {
	case *PtrVal:
		if pv.Obj != nil {
			in.raceCell(cellKey{pv.Obj, pathKey(pv.Path)}, in.Guard(), write)
		}
	case *UnionVal:
		for _, al := range pv.Alts {
			if ap, ok := al.V.(*PtrVal); ok && ap.Obj != nil {
				in.raceCell(cellKey{ap.Obj, pathKey(ap.Path)}, in.St.And(in.Guard(), al.G), write)
			}
		}
	}
}

// raceMap records an operation on a map (a map is one cell).
func (in *Interp) raceMap(m Value, write bool) {
	if !in.RaceDetect {
		return
	}
	switch mv := m.(type) {
	case *MapVal:
		if mv.M != nil {
			in.raceCell(cellKey{mv.M, ""}, in.Guard(), write)
		}
	case *UnionVal:
		for _, al := range mv.Alts {
			if am, ok := al.V.(*MapVal); ok && am.M != nil {
				in.raceCell(cellKey{am.M, ""}, in.St.And(in.Guard(), al.G), write)
			}
		}
	}
}

func (in *Interp) raceCell(k cellKey, g *smt.Term, write bool) {
	if g.IsFalse() {
		return
	}
	rs := in.race()
	s := rs.seg(in.curGor())
	m := rs.acc[k]
	if m == nil {
		m = map[int]*cellAcc{}
		rs.acc[k] = m
		rs.order = append(rs.order, k)
	}
	a := m[s]
	if a == nil {
		a = &cellAcc{r: in.St.F, w: in.St.F}
		m[s] = a
	}
	if write {
		if a.w.IsFalse() {
			a.wpos = in.posStr(in.curPos)
		}
		a.w = in.St.Or(a.w, g)
	} else {
		if a.r.IsFalse() {
			a.rpos = in.posStr(in.curPos)
		}
		a.r = in.St.Or(a.r, g)
	}
}

func (k cellKey) describe() string {
	switch o := k.obj.(type) {
	case *Object:
		n := o.Name
		if n == "" {
			n = "object"
		}
		return fmt.Sprintf("%s#%d%s", n, o.ID, k.path)
	case *MapObj:
		return fmt.Sprintf("map#%d", o.ID)
	}
	return "cell"
}

// RaceObligations closes the happens-before relation and adds one obligation per memory cell that has
// conflicting accesses in unordered segments of different goroutines. It returns the number of cells that
// were accessed by more than one goroutine (the cells the question was asked about).
func (in *Interp) RaceObligations() (shared int, pairs int) {
	if !in.RaceDetect || in.raceSt == nil {
		return 0, 0
	}
	rs := in.raceSt
	for c, h := range rs.chans {
		for k, rb := range h.recvBefore {
			if j := k + c.Cap; j < len(h.sendAfter) {
				rs.edges[rb] = append(rs.edges[rb], h.sendAfter[j])
			}
		}
	}
	n := len(rs.segG)
	// reachability, computed on demand per source segment
	reach := map[int][]bool{}
	reachFrom := func(s int) []bool {
		if r, ok := reach[s]; ok {
			return r
		}
		r := make([]bool, n)
		stack := []int{s}
		for len(stack) > 0 {
			x := stack[len(stack)-1]
			stack = stack[:len(stack)-1]
			for _, y := range rs.edges[x] {
				if !r[y] {
					r[y] = true
					stack = append(stack, y)
				}
			}
		}
		reach[s] = r
		return r
	}
	st := in.St
	for _, k := range rs.order {
		m := rs.acc[k]
		if len(m) < 2 {
			continue
		}
		segs := make([]int, 0, len(m))
		gors := map[int]bool{}
		for s := range m {
			segs = append(segs, s)
			gors[rs.segG[s]] = true
		}
		if len(gors) < 2 {
			continue
		}
		shared++
		sort.Ints(segs)
		bad := st.F
		first := ""
		for i, s1 := range segs {
			for _, s2 := range segs[i+1:] {
				if rs.segG[s1] == rs.segG[s2] {
					continue
				}
				a1, a2 := m[s1], m[s2]
				c := st.Or(st.And(a1.w, st.Or(a2.r, a2.w)), st.And(a2.w, st.Or(a1.r, a1.w)))
				if c.IsFalse() {
					continue
				}
				if reachFrom(s1)[s2] || reachFrom(s2)[s1] {
					continue
				}
				pairs++
				if first == "" {
					p1, p2 := a1.wpos, a2.wpos
					if a1.w.IsFalse() {
						p1 = a1.rpos
					}
					if a2.w.IsFalse() {
						p2 = a2.rpos
					}
					first = fmt.Sprintf("goroutine %d at %s / goroutine %d at %s", rs.segG[s1], p1, rs.segG[s2], p2)
				}
				bad = st.Or(bad, c)
			}
		}
		if bad.IsFalse() {
			continue
		}
		in.AddObligation(&Obligation{Kind: "assert", Tag: "race-free:" + k.describe() + " [" + first + "]", Pos: "race", Guard: st.T, Cond: st.Not(bad)})
	}
	return shared, pairs
}
