package symgo

import (
	"fmt"
	"sort"
	"strconv"
	"strings"

	"verif/smt"
)

// Happens-before race obligations over the goroutine model (Interp.RaceDetect).
//
// The scheduler of sched.go runs one interleaving; what it fixes is only the order in which ready goroutines
// take the baton. The synchronisation structure of the run does not depend on that order: every goroutine's
// execution is cut into segments at its synchronisation events (go statement, channel send, channel receive)
// and the segments are ordered by
//
//	program order          segment -> next segment of the same goroutine
//	go statement           the segment that ends at the go statement -> first segment of the new goroutine
//	send -> receive        the segment that ends at the k-th send on a channel -> the segment that starts after the k-th receive
//	receive -> send done   the segment that ends at the k-th receive -> the segment that starts after the (k+cap)-th
//	                       send (a send on an unbuffered channel completes only when it is received)
//
// which is the happens-before relation of the Go memory model for these operations. Loads and stores executed by
// ssa.UnOp(*)/ssa.Store and the map instructions are recorded per memory cell (object + access path, or map)
// and segment, with the path guard under which they happen. Two accesses to the same cell from different
// goroutines, at least one a write, in segments not ordered either way, are a data race whenever both guards can
// hold together: that conjunction is the obligation handed to the solver (one per cell).
//
// Deliberately narrow, so that it cannot raise an alarm on race-free code: cells are compared by identical
// object and access path only (a whole-struct copy against a field write is missed), accesses made inside
// natives (copy, append, ...) are not recorded. sync.Mutex/RWMutex order the segments (release -> every later
// acquisition of the same mutex in the run); sync.WaitGroup and atomic are not modelled - a run that reaches
// one of those is refused by the interpreter (unsupported); sync.Map operations are not recorded as accesses.

// RaceDump, when set, receives one line per conflicting pair of segments (debugging aid).
var RaceDump func(string)

// RaceDumpPos: with RaceDump set, every recorded access at a source position containing this text is printed.
var RaceDumpPos string

type cellKey struct {
	obj  interface{} // *Object or *MapObj
	path string
}

type cellAcc struct {
	r, w       *smt.Term
	rpos, wpos string
}

type chanHB struct {
	sendAfter  [][]int // segments that start after the k-th send (one per arm when both arms of a branch send)
	recvBefore []int   // segment that ends at the k-th receive
}

type raceState struct {
	segG  []int   // goroutine of each segment
	edges [][]int // happens-before edges between segments
	cur   map[int]int
	acc   map[cellKey]map[int]*cellAcc
	order []cellKey
	chans map[*ChanObj]*chanHB
	// released: per mutex, the segments that ended at a release
	released map[cellKey][]int
	events   int // synchronisation events so far
}

func (in *Interp) race() *raceState {
	if in.raceSt == nil {
		in.raceSt = &raceState{cur: map[int]int{}, acc: map[cellKey]map[int]*cellAcc{}, chans: map[*ChanObj]*chanHB{}}
	}
	return in.raceSt
}

func (in *Interp) curGor() int {
	if in.sched == nil || in.sched.cur == nil {
		return 0
	}
	return in.sched.cur.id
}

func (rs *raceState) newSeg(g int) int {
	rs.segG = append(rs.segG, g)
	rs.edges = append(rs.edges, nil)
	return len(rs.segG) - 1
}

func (rs *raceState) seg(g int) int {
	s, ok := rs.cur[g]
	if !ok {
		s = rs.newSeg(g)
		rs.cur[g] = s
	}
	return s
}

// cut ends the current segment of g at a synchronisation event and returns (ended, started).
func (rs *raceState) cut(g int) (int, int) {
	old := rs.seg(g)
	nw := rs.newSeg(g)
	rs.edges[old] = append(rs.edges[old], nw)
	rs.cur[g] = nw
	return old, nw
}

func (in *Interp) raceGo(parent, child int) {
	if !in.RaceDetect {
		return
	}
	rs := in.race()
	rs.events++
	old, _ := rs.cut(parent)
	c := rs.newSeg(child)
	rs.cur[child] = c
	rs.edges[old] = append(rs.edges[old], c)
}

// raceSend returns the segment that ended at the send (stored with the item). merged: the send completes an
// item the other arm of a branch has already sent (one send, made at a different point of each arm).
func (in *Interp) raceSend(c *ChanObj, merged bool) int {
	if !in.RaceDetect {
		return -1
	}
	rs := in.race()
	rs.events++
	old, nw := rs.cut(in.curGor())
	h := rs.chans[c]
	if h == nil {
		h = &chanHB{}
		rs.chans[c] = h
	}
	if merged && len(h.sendAfter) > 0 {
		k := len(h.sendAfter) - 1
		h.sendAfter[k] = append(h.sendAfter[k], nw)
	} else {
		h.sendAfter = append(h.sendAfter, []int{nw})
	}
	return old
}

func (in *Interp) raceRecv(c *ChanObj, sendSegs []int) {
	if !in.RaceDetect {
		return
	}
	rs := in.race()
	rs.events++
	old, nw := rs.cut(in.curGor())
	for _, s := range sendSegs {
		if s >= 0 {
			rs.edges[s] = append(rs.edges[s], nw)
		}
	}
	h := rs.chans[c]
	if h == nil {
		h = &chanHB{}
		rs.chans[c] = h
	}
	h.recvBefore = append(h.recvBefore, old)
}

// raceLock orders segments through a mutex: every release happens before every later acquisition of the same
// mutex in the run (read locks are treated like write locks: more order, never less). A mutex reached through
// a symbolic pointer orders through every mutex it may be, again only adding order.
func (in *Interp) raceLock(m Value, acquire bool) {
	if !in.RaceDetect {
		return
	}
	rs := in.race()
	var keys []cellKey
	switch pv := m.(type) {
	case *PtrVal:
		if pv.Obj != nil {
			keys = append(keys, cellKey{pv.Obj, pathKey(pv.Path)})
		}
	case *UnionVal:
		for _, al := range pv.Alts {
			if ap, ok := al.V.(*PtrVal); ok && ap.Obj != nil {
				keys = append(keys, cellKey{ap.Obj, pathKey(ap.Path)})
			}
		}
	}
	rs.events++
	old, nw := rs.cut(in.curGor())
	if rs.released == nil {
		rs.released = map[cellKey][]int{}
	}
	for _, k := range keys {
		if acquire {
			for _, r := range rs.released[k] {
				rs.edges[r] = append(rs.edges[r], nw)
			}
		} else {
			rs.released[k] = append(rs.released[k], old)
		}
	}
}

// Branches. The two arms of a symbolic branch are executed one after the other; a synchronisation event inside
// an arm cuts the segment for that arm only. raceFork notes the segment the branch starts in, raceArm returns the
// segment the first arm ended in and puts the second arm back at the start, raceJoin continues after the branch in
// a segment that follows the ends of both arms (if either arm cut anything). Edges are not guarded: an event that
// happens on one arm only still orders unconditionally, which can only add order.
func (in *Interp) raceFork() int {
	if !in.RaceDetect {
		return -1
	}
	return in.race().seg(in.curGor())
}

func (in *Interp) raceArm(start int) int {
	if !in.RaceDetect {
		return -1
	}
	rs := in.race()
	g := in.curGor()
	end := rs.seg(g)
	rs.cur[g] = start
	return end
}

func (in *Interp) raceJoin(start, endT int) {
	if !in.RaceDetect {
		return
	}
	rs := in.race()
	g := in.curGor()
	endE := rs.seg(g)
	if endT == start && endE == start {
		return
	}
	j := rs.newSeg(g)
	rs.edges[endT] = append(rs.edges[endT], j)
	rs.edges[endE] = append(rs.edges[endE], j)
	rs.cur[g] = j
}

// raceEvents: number of synchronisation events so far (alternatives of a union value must not contain any:
// they are not tracked per alternative).
func (in *Interp) raceEvents() int {
	if !in.RaceDetect || in.raceSt == nil {
		return 0
	}
	return in.raceSt.events
}

func pathKey(p []Sel) string {
	var b strings.Builder
	for _, s := range p {
		if s.Sym != nil {
			b.WriteString("[*]")
		} else {
			b.WriteString("." + strconv.Itoa(s.Idx))
		}
	}
	return b.String()
}

// raceAccess records a load or store through p under the current guard.
func (in *Interp) raceAccess(p Value, write bool) {
	if !in.RaceDetect {
		return
	}
	switch pv := p.(type) {
	case *PtrVal:
		if pv.Obj != nil {
			in.racePath(pv.Obj, pv.Obj.Val, pv.Path, "", in.Guard(), write)
		}
	case *UnionVal:
		for _, al := range pv.Alts {
			if ap, ok := al.V.(*PtrVal); ok && ap.Obj != nil {
				in.racePath(ap.Obj, ap.Obj.Val, ap.Path, "", in.St.And(in.Guard(), al.G), write)
			}
		}
	}
}

// racePath walks an access path; a symbolic index into an array of at most 64 elements becomes one access per
// element under "index == k" (so that it meets the accesses made with concrete indices), anything else that
// cannot be resolved makes the rest of the path a wildcard cell of its own (compared with nothing but itself).
func (in *Interp) racePath(obj *Object, cur Value, path []Sel, prefix string, g *smt.Term, write bool) {
	if g.IsFalse() {
		return
	}
	for i, s := range path {
		if s.Sym == nil {
			prefix += "." + strconv.Itoa(s.Idx)
			switch x := cur.(type) {
			case *StructVal:
				if s.Idx < len(x.F) {
					cur = x.F[s.Idx]
					continue
				}
			case *ArrayVal:
				if s.Idx >= 0 && s.Idx < len(x.E) {
					cur = x.E[s.Idx]
					continue
				}
			}
			cur = nil
			continue
		}
		if a, ok := cur.(*ArrayVal); ok && len(a.E) <= 64 {
			for k := range a.E {
				gk := in.St.And(g, in.St.Eq(s.Sym, in.St.BV(uint64(k), s.Sym.W)))
				in.racePath(obj, a.E[k], path[i+1:], prefix+"."+strconv.Itoa(k), gk, write)
			}
			return
		}
		in.raceCell(cellKey{obj, prefix + pathKey(path[i:])}, g, write)
		return
	}
	in.raceCell(cellKey{obj, prefix}, g, write)
}

// raceMap records an operation on a map (a map is one cell).
func (in *Interp) raceMap(m Value, write bool) {
	if !in.RaceDetect {
		return
	}
	switch mv := m.(type) {
	case *MapVal:
		if mv.M != nil {
			in.raceCell(cellKey{mv.M, ""}, in.Guard(), write)
		}
	case *UnionVal:
		for _, al := range mv.Alts {
			if am, ok := al.V.(*MapVal); ok && am.M != nil {
				in.raceCell(cellKey{am.M, ""}, in.St.And(in.Guard(), al.G), write)
			}
		}
	}
}

func (in *Interp) raceCell(k cellKey, g *smt.Term, write bool) {
	if g.IsFalse() {
		return
	}
	rs := in.race()
	s := rs.seg(in.curGor())
	if RaceDump != nil && RaceDumpPos != "" && strings.Contains(in.posStr(in.curPos), RaceDumpPos) {
		RaceDump(fmt.Sprintf("access %s write=%v g%d seg%d at %s", k.describe(), write, in.curGor(), s, in.posStr(in.curPos)))
	}
	m := rs.acc[k]
	if m == nil {
		m = map[int]*cellAcc{}
		rs.acc[k] = m
		rs.order = append(rs.order, k)
	}
	a := m[s]
	if a == nil {
		a = &cellAcc{r: in.St.F, w: in.St.F}
		m[s] = a
	}
	if write {
		if a.w.IsFalse() {
			a.wpos = in.posStr(in.curPos)
		}
		a.w = in.St.Or(a.w, g)
	} else {
		if a.r.IsFalse() {
			a.rpos = in.posStr(in.curPos)
		}
		a.r = in.St.Or(a.r, g)
	}
}

func (k cellKey) describe() string {
	switch o := k.obj.(type) {
	case *Object:
		n := o.Name
		if n == "" {
			n = "object"
		}
		return fmt.Sprintf("%s#%d%s", n, o.ID, k.path)
	case *MapObj:
		return fmt.Sprintf("map#%d", o.ID)
	}
	return "cell"
}

// RaceObligations closes the happens-before relation and adds one obligation per memory cell that has
// conflicting accesses in unordered segments of different goroutines. It returns the number of cells that
// were accessed by more than one goroutine (the cells the question was asked about).
func (in *Interp) RaceObligations() (shared int, pairs int) {
	if !in.RaceDetect || in.raceSt == nil {
		return 0, 0
	}
	rs := in.raceSt
	for c, h := range rs.chans {
		for k, rb := range h.recvBefore {
			if j := k + c.Cap; j < len(h.sendAfter) {
				rs.edges[rb] = append(rs.edges[rb], h.sendAfter[j]...)
			}
		}
	}
	n := len(rs.segG)
	// reachability, computed on demand per source segment
	reach := map[int][]bool{}
	reachFrom := func(s int) []bool {
		if r, ok := reach[s]; ok {
			return r
		}
		r := make([]bool, n)
		stack := []int{s}
		for len(stack) > 0 {
			x := stack[len(stack)-1]
			stack = stack[:len(stack)-1]
			for _, y := range rs.edges[x] {
				if !r[y] {
					r[y] = true
					stack = append(stack, y)
				}
			}
		}
		reach[s] = r
		return r
	}
	st := in.St
	for _, k := range rs.order {
		m := rs.acc[k]
		if len(m) < 2 {
			continue
		}
		segs := make([]int, 0, len(m))
		gors := map[int]bool{}
		for s := range m {
			segs = append(segs, s)
			gors[rs.segG[s]] = true
		}
		if len(gors) < 2 {
			continue
		}
		shared++
		sort.Ints(segs)
		bad := st.F
		first := ""
		for i, s1 := range segs {
			for _, s2 := range segs[i+1:] {
				if rs.segG[s1] == rs.segG[s2] {
					continue
				}
				a1, a2 := m[s1], m[s2]
				c := st.Or(st.And(a1.w, st.Or(a2.r, a2.w)), st.And(a2.w, st.Or(a1.r, a1.w)))
				if c.IsFalse() {
					continue
				}
				if reachFrom(s1)[s2] || reachFrom(s2)[s1] {
					if RaceDump != nil {
						a, b := s1, s2
						if !reachFrom(s1)[s2] {
							a, b = s2, s1
						}
						RaceDump("path " + rs.pathStr(a, b))
						RaceDump(fmt.Sprintf("ordered   %s: g%d seg%d (w@%s r@%s) / g%d seg%d (w@%s r@%s)", k.describe(), rs.segG[s1], s1, a1.wpos, a1.rpos, rs.segG[s2], s2, a2.wpos, a2.rpos))
					}
					continue
				}
				if RaceDump != nil {
					RaceDump(fmt.Sprintf("UNORDERED %s: g%d seg%d (w@%s r@%s) / g%d seg%d (w@%s r@%s)", k.describe(), rs.segG[s1], s1, a1.wpos, a1.rpos, rs.segG[s2], s2, a2.wpos, a2.rpos))
				}
				pairs++
				if first == "" {
					p1, p2 := a1.wpos, a2.wpos
					if a1.w.IsFalse() {
						p1 = a1.rpos
					}
					if a2.w.IsFalse() {
						p2 = a2.rpos
					}
					first = fmt.Sprintf("goroutine %d at %s / goroutine %d at %s", rs.segG[s1], p1, rs.segG[s2], p2)
				}
				bad = st.Or(bad, c)
			}
		}
		if bad.IsFalse() {
			continue
		}
		in.AddObligation(&Obligation{Kind: "assert", Tag: "race-free:" + k.describe() + " [" + first + "]", Pos: "race", Guard: st.T, Cond: st.Not(bad)})
	}
	return shared, pairs
}

// pathStr: one happens-before path from segment a to segment b (debugging aid).
func (rs *raceState) pathStr(a, b int) string {
	prev := map[int]int{a: -1}
	q := []int{a}
	for len(q) > 0 {
		x := q[0]
		q = q[1:]
		if x == b {
			break
		}
		for _, y := range rs.edges[x] {
			if _, ok := prev[y]; !ok {
				prev[y] = x
				q = append(q, y)
			}
		}
	}
	var out []string
	for x := b; x != -1; x = prev[x] {
		out = append([]string{fmt.Sprintf("g%d:s%d", rs.segG[x], x)}, out...)
		if _, ok := prev[x]; !ok {
			break
		}
	}
	return strings.Join(out, " -> ")
}
