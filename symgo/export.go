package symgo

// CurFile is the source file of the instruction being executed (call site for hooks).
func (in *Interp) CurFile() string {
	if !in.curPos.IsValid() {
		return ""
	}
	return in.P.Fset.Position(in.curPos).Filename
}

// SlowQueryLog, when set, receives a line for every feasibility query slower than 0.1 s.
var SlowQueryLog func(string)
