package symgo

import (
	"fmt"

	"verif/smt"
)

// CurFile is the source file of the instruction being executed (call site for hooks).
func (in *Interp) CurFile() string {
	if !in.curPos.IsValid() {
		return ""
	}
	return in.P.Fset.Position(in.curPos).Filename
}

// SlowQueryLog, when set, receives a line for every feasibility query slower than 0.1 s.
var SlowQueryLog func(string)

// PickMapKey returns a fresh w-bit solver variable constrained to be the key of
// some present entry of the map m points to (0 when the map is empty): the
// contract of a function that returns "one of the keys" by a rule the encoding
// does not follow (iteration order, randomness).
func (in *Interp) PickMapKey(m Value, tag string, w int) *smt.Term {
	st := in.St
	k := in.nondetCount[tag]
	in.nondetCount[tag]++
	v := st.Var(fmt.Sprintf("%s#%d", tag, k), w)
	in.Nondets = append(in.Nondets, v)
	in.mapAlts(m, func(p Value) Value {
		mv, ok := unwrapIface(in.load(p)).(*MapVal)
		if !ok {
			panic(in.unsupported(fmt.Sprintf("PickMapKey: not a pointer to a map (%T)", in.load(p))))
		}
		some := st.F
		if mv.M != nil {
			for _, e := range mv.M.Entries {
				kt, ok := e.K.(*smt.Term)
				if !ok {
					panic(in.unsupported("PickMapKey: non-integer key"))
				}
				some = st.Or(some, st.And(e.G, st.Eq(kt, v)))
			}
		}
		empty := st.Eq(in.mapLen(mv), st.BV(0, 64))
		in.assume(st.Or(some, st.And(empty, st.Eq(v, st.BV(0, w)))))
		return v
	})
	return v
}
