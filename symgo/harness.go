package symgo

import (
	"fmt"
	"go/types"
	"strings"

	"golang.org/x/tools/go/ssa"

	"verif/smt"
)

// Intrinsics recognised in harness code (functions whose name starts with zz
// and which have panicking bodies in the harness prelude):
//
//	zzNondetBool/U8/U16/U32/U64/Int(tag string) T   fresh symbolic value
//	zzNondetBits(tag string, n int) string           n characters, each '0' or '1'
//	zzAssume(c bool)                                  path assumption
//	zzAssert(tag string, c bool)                      proof obligation
//	zzReach(tag string)                               vacuity witness
//	zzExport(tag string, v any)                       hand a value to the driver
//	zzConcrete(v int) int                             the unique value of v on this path
//	zzUnsupported(msg string)                         abort as unsupported
func (in *Interp) intrinsic(fn *ssa.Function, args []Value) (Value, bool) {
	name := fn.Name()
	st := in.St
	switch {
	case strings.HasPrefix(name, "zzNondet"):
		tag, _ := in.cStr(args[0])
		k := in.nondetCount[tag]
		in.nondetCount[tag]++
		vname := fmt.Sprintf("%s#%d", tag, k)
		if name == "zzNondetBits" {
			n, ok := in.cInt(args[1])
			if !ok {
				panic(in.unsupported("zzNondetBits: symbolic length"))
			}
			bs := make([]*smt.Term, n)
			for i := range bs {
				b := st.Var(fmt.Sprintf("%s.%d", vname, i), 0)
				in.Nondets = append(in.Nondets, b)
				bs[i] = st.Ite(b, st.BV('1', 8), st.BV('0', 8))
			}
			return in.mkStr(bs), true
		}
		if name == "zzNondetString" {
			n, ok := in.cInt(args[1])
			if !ok {
				panic(in.unsupported("zzNondetString: symbolic length"))
			}
			bs := make([]*smt.Term, n)
			for i := range bs {
				b := st.Var(fmt.Sprintf("%s.%d", vname, i), 8)
				in.Nondets = append(in.Nondets, b)
				bs[i] = b
			}
			return in.mkStr(bs), true
		}
		rt := fn.Signature.Results().At(0).Type()
		if isFloat(rt) {
			v := st.RealVar(vname)
			in.Nondets = append(in.Nondets, v)
			return v, true
		}
		w, _, ok := intInfo(rt)
		if !ok {
			panic(in.unsupported("nondet of type " + rt.String()))
		}
		v := st.Var(vname, w)
		in.Nondets = append(in.Nondets, v)
		return v, true
	case strings.HasPrefix(name, "zzSymLen"):
		// func zzSymLenX(n int) []T : a slice of symbolic length n that must never be indexed
		n := args[0].(*smt.Term)
		return &SliceVal{SymLen: n}, true
	case name == "zzDeepEqual":
		// zzDeepEqual(tag, a, b interface{}, exclude string): structural equality generated from the
		// dynamic type of a (struct fields named in the comma-separated exclude list are skipped)
		tag, _ := in.cStr(args[0])
		ia, ok1 := args[1].(*IfaceVal)
		ib, ok2 := args[2].(*IfaceVal)
		ex, _ := in.cStr(args[3])
		if !ok1 || !ok2 || ia.T == nil || ib.T == nil {
			panic(in.unsupported("zzDeepEqual on nil or non-interface values"))
		}
		excl := map[string]bool{}
		for _, f := range strings.Split(ex, ",") {
			if f != "" {
				excl[f] = true
			}
		}
		var notes []string
		c := in.DeepEqual(ia.T, ia.V, ib.V, excl, "", &notes)
		for _, n := range notes {
			in.Stats.Stubs["deepequal-note:"+n]++
		}
		in.AddObligation(&Obligation{Kind: "assert", Tag: tag, Pos: in.posStr(in.curPos), Guard: in.Guard(), Cond: c})
		return &TupleVal{}, true
	case name == "zzHavocHidden":
		tag, _ := in.cStr(args[1])
		return in.havocHidden(args[0], tag), true
	case name == "zzSnapshotHidden":
		return in.snapshotHidden(args[0]), true
	case name == "zzRestoreHidden":
		in.restoreHidden(args[0], args[1])
		return &TupleVal{}, true
	case name == "zzSchedule":
		in.SchedReverse = !args[0].(*smt.Term).IsFalse()
		return &TupleVal{}, true
	case name == "zzAssume":
		c := args[0].(*smt.Term)
		in.assume(c)
		if c.IsFalse() {
			panic(killPath{})
		}
		return &TupleVal{}, true
	case name == "zzAssert":
		tag, _ := in.cStr(args[0])
		c := args[1].(*smt.Term)
		in.AddObligation(&Obligation{Kind: "assert", Tag: tag, Pos: in.posStr(in.curPos), Guard: in.Guard(), Cond: c})
		return &TupleVal{}, true
	case name == "zzReach":
		tag, _ := in.cStr(args[0])
		in.AddObligation(&Obligation{Kind: "reach", Tag: tag, Pos: in.posStr(in.curPos), Guard: in.Guard(), Cond: st.T})
		return &TupleVal{}, true
	case name == "zzExport":
		tag, _ := in.cStr(args[0])
		v := args[1]
		if iv, ok := v.(*IfaceVal); ok {
			v = iv.V
		}
		if g := in.Guard(); !g.IsTrue() {
			if old, ok := in.Exports[tag]; ok {
				v = in.merge(g, v, old)
			}
		}
		in.Exports[tag] = v
		return &TupleVal{}, true
	case name == "zzNative":
		return in.St.F, true
	case name == "zzConcrete":
		t := args[0].(*smt.Term)
		if t.IsConst() {
			return t, true
		}
		v, ok := in.uniqueValue(t)
		if !ok {
			panic(in.unsupported("zzConcrete: value is not unique on this path"))
		}
		return st.BV(v, t.W), true
	case name == "zzUnsupported":
		msg, _ := in.cStr(args[0])
		panic(in.unsupported("harness: " + msg))
	case name == "zzIsSymbolic":
		t, ok := args[0].(*smt.Term)
		return st.Bool(ok && !t.IsConst()), true
	}
	return nil, false
}

// Prelude is the Go source of the intrinsic declarations, to be appended to a
// harness file (package clause excluded).
const Prelude = `
func zzNondetBool(tag string) bool     { panic("zz") }
func zzNondetU8(tag string) uint8      { panic("zz") }
func zzNondetU16(tag string) uint16    { panic("zz") }
func zzNondetU32(tag string) uint32    { panic("zz") }
func zzNondetU64(tag string) uint64    { panic("zz") }
func zzNondetInt(tag string) int       { panic("zz") }
func zzNondetF32(tag string) float32   { panic("zz") }
func zzNondetBits(tag string, n int) string { panic("zz") }
func zzNondetString(tag string, n int) string { panic("zz") }
func zzAssume(c bool)                  { panic("zz") }
func zzAssert(tag string, c bool)      { panic("zz") }
func zzReach(tag string)               { panic("zz") }
func zzExport(tag string, v interface{}) { panic("zz") }
func zzConcrete(v int) int             { panic("zz") }
func zzNative() bool                   { panic("zz") }
func zzUnsupported(msg string)         { panic("zz") }
func zzIsSymbolic(v int) bool          { panic("zz") }
func zzHavocHidden(root interface{}, tag string) int { panic("zz") }
func zzSnapshotHidden(root interface{}) []uint64     { panic("zz") }
func zzRestoreHidden(root interface{}, vals []uint64) { panic("zz") }
func zzSchedule(reverse bool)          { panic("zz") }
func zzDeepEqual(tag string, a, b interface{}, exclude string) { panic("zz") }
`

// NoSecondSolver switches the fallback to the second solver release off.
var NoSecondSolver bool

// Verdict of one obligation.
type Verdict struct {
	Obl    *Obligation
	Result string // "holds", "violated", "reachable", "unreachable", "inconclusive"
	Model  map[string]uint64
	Secs   float64
	// Confirmed: the solver's model falsifies the obligation when evaluated concretely
	Confirmed bool
}

// Discharge decides all recorded obligations with the interpreter's solver.
// assert: unsat(Guard ∧ ¬Cond) = holds. reach: sat(Guard) = reachable.
// panic/unwind: unsat(Guard) = holds.
func (in *Interp) Discharge() []Verdict { return in.Verdicts }

// AddObligation records an obligation and decides it at once, under the
// assumptions made so far (which are asserted in the solver).
func (in *Interp) AddObligation(o *Obligation) {
	in.Obls = append(in.Obls, o)
	in.Verdicts = append(in.Verdicts, in.decide(o))
}

func (in *Interp) decide(o *Obligation) Verdict {
	{
		v := Verdict{Obl: o}
		s0 := in.Sol.Seconds
		switch o.Kind {
		case "reach":
			switch in.Sol.Check(o.Guard) {
			case smt.Sat:
				v.Result = "reachable"
			case smt.Unsat:
				v.Result = "unreachable"
			default:
				v.Result = "inconclusive"
			}
		default:
			sol := in.Sol
			var res smt.Result
			if o.Cond.HasReal || o.Guard.HasReal {
				// nonlinear real arithmetic: decided in a fresh solver context (assumptions re-asserted there)
				if f, err := in.Sol.Fork(); err == nil {
					sol = f
					defer func() { in.Sol.Account(f); f.Close() }()
					res = sol.Check(in.Valid, o.Guard, in.St.Not(o.Cond))
				} else {
					res = smt.Unknown
				}
			} else {
				res = sol.Check(o.Guard, in.St.Not(o.Cond))
				if res == smt.Unknown && in.Sol.Kind == "z3" && !NoSecondSolver {
					// the solver gave up within its budget: the same question goes once to the other z3 release in
					// the image (5.1.0), in a fresh context with the assumptions re-asserted; solver heuristics
					// differ between releases and a query at the edge of the budget for one is often quick for the other
					if f, err := smt.NewSolver("z3-new", in.St, in.Sol.Timeout()); err == nil {
						sol = f
						defer func() { in.Sol.Account(f); f.Close() }()
						res = sol.Check(in.Valid, o.Guard, in.St.Not(o.Cond))
						in.SecondSolver++
					}
				}
			}
			switch res {
			case smt.Unsat:
				v.Result = "holds"
			case smt.Sat:
				v.Result = "violated"
				if m, err := sol.Model(in.Nondets); err == nil {
					v.Model = map[string]uint64{}
					for t, x := range m {
						v.Model[t.Name] = x
					}
				}
				// independent confirmation: the full model must falsify the obligation under the
				// assumptions when evaluated concretely by the term evaluator (no solver involved)
				neg := in.St.And(in.Valid, in.St.And(o.Guard, in.St.Not(o.Cond)))
				if fm, err := sol.Model(collectVars(neg)); err == nil {
					if x, ok := in.St.Eval(neg, fm, map[*smt.Term]uint64{}); ok && x == 1 {
						v.Confirmed = true
					}
					if o.Pos == "hdl-vs-sim" {
						for t, x := range fm {
							v.Model[t.Name] = x
						}
					}
				}
			default:
				v.Result = "inconclusive"
			}
		}
		v.Secs = in.Sol.Seconds - s0
		return v
	}
}

// RunHarness interprets the named harness function (after running the init of
// the given packages) and returns an error for machinery problems.
func (in *Interp) RunHarness(fn *ssa.Function, args []Value, inits ...string) (err error) {
	defer func() {
		if r := recover(); r != nil {
			switch x := r.(type) {
			case *Unsupported:
				err = x
			case killPath:
				err = fmt.Errorf("harness path died at top level (%s)", in.LastKill)
			default:
				panic(r)
			}
		}
	}()
	for _, p := range inits {
		if pkg := in.P.Pkg(p); pkg != nil {
			in.InitPkgs[pkg.Pkg.Path()] = true
		}
	}
	for _, p := range inits {
		in.RunInit(p)
	}
	defer in.StopGoroutines()
	in.CallFunction(fn, args, nil)
	return nil
}

var _ types.Type

// ---- exported helpers for check-specific hooks ----

func (in *Interp) FormatInt(t *smt.Term, base int, signed bool) Value {
	return in.formatInt(t, base, signed)
}
func (in *Interp) Feasible(c *smt.Term) bool           { return in.feasible(c) }
func (in *Interp) Tuple(vs ...Value) Value             { return in.tuple(vs...) }
func (in *Interp) MkStr(b []*smt.Term) *StrVal         { return in.mkStr(b) }
func (in *Interp) StrBytes(s *StrVal) []*smt.Term      { return in.strBytes(s) }
func (in *Interp) Merge(c *smt.Term, a, b Value) Value { return in.merge(c, a, b) }
func (in *Interp) Unsupported(msg string) *Unsupported { return in.unsupported(msg) }
func (in *Interp) NilError() Value                     { return &IfaceVal{} }
func (in *Interp) Assume(c *smt.Term)                  { in.assume(c) }
func (in *Interp) PanicIf(c *smt.Term, kind string)    { in.panicIf(c, kind) }
func (in *Interp) Load(p Value) Value                  { return in.load(p) }
func (in *Interp) Equal(a, b Value) *smt.Term          { return in.equal(a, b) }
func (in *Interp) MkSlice(e []Value) *SliceVal         { return in.mkSlice(e) }
func (in *Interp) SliceElems(s *SliceVal) []Value      { return in.sliceElems(s) }
