package symgo

import (
	"fmt"
	"go/constant"
	"go/token"
	"os"
	"strings"
	"sync"

	"golang.org/x/tools/go/packages"
	"golang.org/x/tools/go/ssa"
	"golang.org/x/tools/go/ssa/ssautil"
)

const RepoPrefix = "github.com/BondMachineHQ/BondMachine"

// Program is the SSA form of /repo's current working tree plus the injected
// harness files. It is read-only after Load and shared by all workers.
type Program struct {
	Prog  *ssa.Program
	Fset  *token.FileSet
	Pkgs  map[string]*ssa.Package
	mu    sync.Mutex
	ipd   map[*ssa.Function]map[*ssa.BasicBlock]*ssa.BasicBlock
	Files []string
}

// Load type-checks the given repo packages (import paths relative to the
// module, e.g. "pkg/procbuilder") from repoDir, with overlay files
// (virtual path -> content) injected, and builds SSA for them and their deps.
func Load(repoDir string, pkgs []string, overlay map[string][]byte) (*Program, error) {
	var pats []string
	for _, p := range pkgs {
		pats = append(pats, RepoPrefix+"/"+p)
	}
	cfg := &packages.Config{
		Mode:    packages.LoadAllSyntax,
		Dir:     repoDir,
		Overlay: overlay,
		Env:     append(os.Environ(), "GOFLAGS=-mod=mod", "GOPROXY=off", "GOSUMDB=off", "GOTOOLCHAIN=local"),
	}
	loaded, err := packages.Load(cfg, pats...)
	if err != nil {
		return nil, err
	}
	var errs []string
	packages.Visit(loaded, nil, func(p *packages.Package) {
		for _, e := range p.Errors {
			errs = append(errs, e.Error())
		}
	})
	if len(errs) > 0 {
		return nil, fmt.Errorf("HARNESS-BUILD-FAILURE: %s", strings.Join(errs, "\n"))
	}
	prog, _ := ssautil.AllPackages(loaded, ssa.InstantiateGenerics)
	prog.Build()
	p := &Program{Prog: prog, Fset: prog.Fset, Pkgs: map[string]*ssa.Package{}, ipd: map[*ssa.Function]map[*ssa.BasicBlock]*ssa.BasicBlock{}}
	for _, sp := range prog.AllPackages() {
		p.Pkgs[sp.Pkg.Path()] = sp
	}
	return p, nil
}

func (p *Program) Pkg(path string) *ssa.Package {
	if sp, ok := p.Pkgs[path]; ok {
		return sp
	}
	return p.Pkgs[RepoPrefix+"/"+path]
}

// Func finds a package-level function (e.g. "pkg/procbuilder", "zzC03").
func (p *Program) Func(pkg, name string) *ssa.Function {
	sp := p.Pkg(pkg)
	if sp == nil {
		return nil
	}
	return sp.Func(name)
}

// ipdom returns the immediate post-dominator of b in its function, or nil when
// it is the virtual exit.
func (p *Program) ipdom(b *ssa.BasicBlock) *ssa.BasicBlock {
	fn := b.Parent()
	p.mu.Lock()
	m, ok := p.ipd[fn]
	p.mu.Unlock()
	if !ok {
		m = computeIpdom(fn)
		p.mu.Lock()
		p.ipd[fn] = m
		p.mu.Unlock()
	}
	return m[b]
}

// postDominates reports whether a is b or a strict post-dominator of b.
func (p *Program) postDominates(a, b *ssa.BasicBlock) bool {
	for x := b; x != nil; x = p.ipdom(x) {
		if x == a {
			return true
		}
	}
	return false
}

// computeIpdom: iterative post-dominator sets on the reversed CFG with a
// virtual exit joining all blocks without successors (Return, Panic) and, for
// functions with endless loops, one block per such loop (so that the relation is total).
func computeIpdom(fn *ssa.Function) map[*ssa.BasicBlock]*ssa.BasicBlock {
	n := len(fn.Blocks)
	exit := n // virtual
	succ := make([][]int, n+1)
	for _, b := range fn.Blocks {
		if len(b.Succs) == 0 {
			succ[b.Index] = []int{exit}
		}
		for _, s := range b.Succs {
			succ[b.Index] = append(succ[b.Index], s.Index)
		}
	}
	// blocks that cannot reach exit (infinite loops): connect them to exit too
	reach := make([]bool, n+1)
	reach[exit] = true
	for changed := true; changed; {
		changed = false
		for i := 0; i < n; i++ {
			if reach[i] {
				continue
			}
			for _, s := range succ[i] {
				if reach[s] {
					reach[i] = true
					changed = true
					break
				}
			}
		}
	}
	// One block per endless loop is connected, not every block: with every block connected no block inside such
	// a loop would have a post-dominator but the exit, and a branch in the loop body could not be joined before
	// the next iteration (a worker loop `for { cmd := <-ch; if c { ...; continue }; ... }` would then reach its
	// receive under the branch condition). The block chosen is a loop header (target of a back edge) where there
	// is one, so that the arms of a branch in the body join at the header at the latest.
	for {
		pick := -1
		for i := 0; i < n && pick < 0; i++ {
			if reach[i] {
				continue
			}
			for _, pr := range fn.Blocks[i].Preds {
				if pr.Index >= i && !reach[pr.Index] {
					pick = i // a back edge from inside the endless region ends here
					break
				}
			}
		}
		if pick < 0 {
			for i := 0; i < n; i++ {
				if !reach[i] {
					pick = i
					break
				}
			}
		}
		if pick < 0 {
			break
		}
		succ[pick] = append(succ[pick], exit)
		reach[pick] = true
		for changed := true; changed; {
			changed = false
			for i := 0; i < n; i++ {
				if reach[i] {
					continue
				}
				for _, s := range succ[i] {
					if reach[s] {
						reach[i] = true
						changed = true
						break
					}
				}
			}
		}
	}
	// pdom sets as bitsets
	words := (n + 1 + 63) / 64
	full := make([]uint64, words)
	for i := 0; i <= n; i++ {
		full[i/64] |= 1 << uint(i%64)
	}
	pd := make([][]uint64, n+1)
	for i := 0; i <= n; i++ {
		pd[i] = make([]uint64, words)
		if i == exit {
			pd[i][i/64] |= 1 << uint(i%64)
		} else {
			copy(pd[i], full)
		}
	}
	for changed := true; changed; {
		changed = false
		for i := n - 1; i >= 0; i-- {
			nw := make([]uint64, words)
			copy(nw, full)
			for _, s := range succ[i] {
				for w := range nw {
					nw[w] &= pd[s][w]
				}
			}
			nw[i/64] |= 1 << uint(i%64)
			for w := range nw {
				if nw[w] != pd[i][w] {
					changed = true
					pd[i] = nw
					break
				}
			}
		}
	}
	count := func(s []uint64) int {
		c := 0
		for i := 0; i <= n; i++ {
			if s[i/64]&(1<<uint(i%64)) != 0 {
				c++
			}
		}
		return c
	}
	res := map[*ssa.BasicBlock]*ssa.BasicBlock{}
	for i := 0; i < n; i++ {
		// ipdom = the strict post-dominator with the largest pdom set (closest)
		best, bestC := -1, -1
		for j := 0; j <= n; j++ {
			if j == i || pd[i][j/64]&(1<<uint(j%64)) == 0 {
				continue
			}
			if c := count(pd[j]); c > bestC {
				best, bestC = j, c
			}
		}
		if best >= 0 && best != exit {
			res[fn.Blocks[i]] = fn.Blocks[best]
		}
	}
	return res
}

func constantBool(c *ssa.Const) bool     { return constant.BoolVal(c.Value) }
func constantString(c *ssa.Const) string { return constant.StringVal(c.Value) }
