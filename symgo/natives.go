package symgo

import (
	"encoding/hex"
	"fmt"
	"go/types"
	"math/bits"
	"regexp"
	"sort"
	"strconv"
	"strings"

	"golang.org/x/tools/go/ssa"

	"verif/smt"
)

type nativeFn func(in *Interp, fn *ssa.Function, args []Value) Value

var natives map[string]nativeFn

func (in *Interp) cStr(v Value) (string, bool) {
	s, ok := v.(*StrVal)
	if !ok {
		return "", false
	}
	return s.Concrete()
}

func (in *Interp) cInt(v Value) (int64, bool) {
	t, ok := v.(*smt.Term)
	if !ok || !t.IsConst() || t.W == 0 {
		return 0, false
	}
	return int64(signExtend(t.Val, t.W)), true
}

func (in *Interp) cUint(v Value) (uint64, bool) {
	t, ok := v.(*smt.Term)
	if !ok || !t.IsConst() || t.W == 0 {
		return 0, false
	}
	return t.Val, true
}

func (in *Interp) cStrSlice(v Value) ([]string, bool) {
	s, ok := v.(*SliceVal)
	if !ok {
		return nil, false
	}
	var r []string
	for _, e := range in.sliceElems(s) {
		c, ok := in.cStr(e)
		if !ok {
			return nil, false
		}
		r = append(r, c)
	}
	return r, true
}

func (in *Interp) strSliceVal(ss []string) Value {
	e := make([]Value, len(ss))
	for i, s := range ss {
		e[i] = &StrVal{C: s}
	}
	if ss == nil {
		return &SliceVal{}
	}
	return in.mkSlice(e)
}

func (in *Interp) tuple(vs ...Value) Value { return &TupleVal{E: vs} }

// MkError builds a non-nil error value (*errors.errorString).
func (in *Interp) MkError(msg string) Value {
	ep := in.P.Pkgs["errors"]
	if ep == nil {
		panic(in.unsupported("package errors not loaded"))
	}
	nt := ep.Type("errorString").Type()
	o := in.newObject(&StructVal{F: []Value{&StrVal{C: msg}}}, "error")
	return &IfaceVal{T: types.NewPointer(nt), V: &PtrVal{Obj: o}}
}

func (in *Interp) errVal(err error) Value {
	if err == nil {
		return &IfaceVal{}
	}
	return in.MkError(err.Error())
}

// goArg converts a concrete value to a Go value for fmt.
func (in *Interp) goArg(v Value) (interface{}, bool) {
	switch x := v.(type) {
	case *smt.Term:
		if !x.IsConst() {
			return nil, false
		}
		if x.W == 0 {
			return x.Val == 1, true
		}
		return x.Val, true
	case *StrVal:
		c, ok := x.Concrete()
		return c, ok
	case *FloatVal:
		return x.F, true
	case *IfaceVal:
		if x.T == nil {
			return nil, true
		}
		// signed integers: format with sign
		if t, ok := x.V.(*smt.Term); ok && t.IsConst() {
			if w, signed, ok := intInfo(x.T); ok && w > 0 {
				if signed {
					return int64(signExtend(t.Val, w)), true
				}
				switch w {
				case 8:
					return uint8(t.Val), true
				case 16:
					return uint16(t.Val), true
				case 32:
					return uint32(t.Val), true
				}
				return t.Val, true
			}
		}
		// error values: use message
		if p, ok := x.V.(*PtrVal); ok && p.Obj != nil {
			if sv, ok := p.Obj.Val.(*StructVal); ok && len(sv.F) == 1 {
				if s, ok := sv.F[0].(*StrVal); ok {
					if c, ok := s.Concrete(); ok {
						return c, true
					}
				}
			}
		}
		if sv, ok := x.V.(*StructVal); ok && len(sv.F) == 1 {
			if s, ok := sv.F[0].(*StrVal); ok {
				if c, ok := s.Concrete(); ok {
					return c, true
				}
			}
		}
		return in.goArg(x.V)
	}
	return nil, false
}

func (in *Interp) fmtArgs(v Value) ([]interface{}, bool) {
	s, ok := v.(*SliceVal)
	if !ok {
		return nil, false
	}
	var r []interface{}
	for _, e := range in.sliceElems(s) {
		g, ok := in.goArg(e)
		if !ok {
			return nil, false
		}
		r = append(r, g)
	}
	return r, true
}

func (in *Interp) opaqueStr() *StrVal {
	in.Stats.Opaque++
	return &StrVal{Opaque: true, C: "?"}
}

// decidable per-byte predicate: returns (value, true) if the term folds to a constant.
func constBool(t *smt.Term) (bool, bool) {
	if t.IsConst() {
		return t.Val == 1, true
	}
	return false, false
}

// splitBy splits a (possibly symbolic) string at bytes for which isSep is
// decidable; ok=false if some byte's membership is not a constant.
func (in *Interp) splitBy(s *StrVal, isSep func(b *smt.Term) *smt.Term) ([][]*smt.Term, []bool, bool) {
	bs := in.strBytes(s)
	var parts [][]*smt.Term
	seps := make([]bool, len(bs))
	cur := []*smt.Term{}
	for i, b := range bs {
		c := isSep(b)
		v, ok := constBool(c)
		if !ok {
			// not syntactically constant: let the solver decide on this path
			if !in.feasible(c) {
				v, ok = false, true
			} else if !in.feasible(in.St.Not(c)) {
				v, ok = true, true
			}
		}
		if !ok {
			return nil, nil, false
		}
		seps[i] = v
		if v {
			parts = append(parts, cur)
			cur = []*smt.Term{}
		} else {
			cur = append(cur, b)
		}
	}
	parts = append(parts, cur)
	return parts, seps, true
}

func (in *Interp) isSpace(b *smt.Term) *smt.Term {
	st := in.St
	r := st.F
	for _, c := range []byte{' ', '\t', '\n', '\v', '\f', '\r'} {
		r = st.Or(r, st.Eq(b, st.BV(uint64(c), 8)))
	}
	return r
}

func init() {
	natives = map[string]nativeFn{}
	noop := func(in *Interp, fn *ssa.Function, args []Value) Value { return in.zeroResults(fn.Signature) }
	for _, n := range []string{"fmt.Print", "fmt.Println", "fmt.Printf", "log.Print", "log.Println", "log.Printf", "fmt.Fprintf", "fmt.Fprintln", "fmt.Fprint",
		"(*log.Logger).Println", "(*log.Logger).Printf", "(*log.Logger).Print", "(*sync.Mutex).Lock", "(*sync.Mutex).Unlock", "(*sync.RWMutex).Lock", "(*sync.RWMutex).Unlock",
		"(*sync.RWMutex).RLock", "(*sync.RWMutex).RUnlock", "math/rand.Seed", "runtime.Gosched", "runtime.GC"} {
		natives[n] = noop
	}
	// mutexes: no effect on the single-baton schedule, but they order the segments of race.go
	for _, n := range []string{"(*sync.Mutex).Lock", "(*sync.RWMutex).Lock", "(*sync.RWMutex).RLock"} {
		natives[n] = func(in *Interp, fn *ssa.Function, args []Value) Value {
			in.raceLock(args[0], true)
			return in.zeroResults(fn.Signature)
		}
	}
	for _, n := range []string{"(*sync.Mutex).Unlock", "(*sync.RWMutex).Unlock", "(*sync.RWMutex).RUnlock"} {
		natives[n] = func(in *Interp, fn *ssa.Function, args []Value) Value {
			in.raceLock(args[0], false)
			return in.zeroResults(fn.Signature)
		}
	}
	die := func(in *Interp, fn *ssa.Function, args []Value) Value {
		in.panicIf(in.St.T, "exit:"+fn.Name())
		return &TupleVal{}
	}
	for _, n := range []string{"os.Exit", "log.Fatal", "log.Fatalf", "log.Fatalln", "log.Panic", "log.Panicf"} {
		natives[n] = die
	}
	natives["fmt.Sprintf"] = func(in *Interp, fn *ssa.Function, args []Value) Value {
		f, ok := in.cStr(args[0])
		a, ok2 := in.fmtArgs(args[1])
		if ok && ok2 {
			return &StrVal{C: fmt.Sprintf(f, a...)}
		}
		return in.opaqueStr()
	}
	natives["fmt.Sprint"] = func(in *Interp, fn *ssa.Function, args []Value) Value {
		if a, ok := in.fmtArgs(args[0]); ok {
			return &StrVal{C: fmt.Sprint(a...)}
		}
		return in.opaqueStr()
	}
	natives["fmt.Sprintln"] = func(in *Interp, fn *ssa.Function, args []Value) Value {
		if a, ok := in.fmtArgs(args[0]); ok {
			return &StrVal{C: fmt.Sprintln(a...)}
		}
		return in.opaqueStr()
	}
	natives["fmt.Errorf"] = func(in *Interp, fn *ssa.Function, args []Value) Value {
		f, ok := in.cStr(args[0])
		a, ok2 := in.fmtArgs(args[1])
		if ok && ok2 {
			return in.MkError(fmt.Sprintf(strings.ReplaceAll(f, "%w", "%v"), a...))
		}
		return in.MkError("?")
	}
	natives["errors.New"] = func(in *Interp, fn *ssa.Function, args []Value) Value {
		if c, ok := in.cStr(args[0]); ok {
			return in.MkError(c)
		}
		return in.MkError("?")
	}
	natives["strings.ToLower"] = func(in *Interp, fn *ssa.Function, args []Value) Value { return in.caseConv(args[0], false) }
	natives["strings.ToUpper"] = func(in *Interp, fn *ssa.Function, args []Value) Value { return in.caseConv(args[0], true) }
	natives["strings.HasPrefix"] = func(in *Interp, fn *ssa.Function, args []Value) Value {
		s, p := args[0].(*StrVal), args[1].(*StrVal)
		if p.Len() > s.Len() {
			return in.St.F
		}
		sb := in.strBytes(s)
		return in.strEq(in.mkStr(sb[:p.Len()]), p)
	}
	natives["strings.HasSuffix"] = func(in *Interp, fn *ssa.Function, args []Value) Value {
		s, p := args[0].(*StrVal), args[1].(*StrVal)
		if p.Len() > s.Len() {
			return in.St.F
		}
		sb := in.strBytes(s)
		return in.strEq(in.mkStr(sb[s.Len()-p.Len():]), p)
	}
	natives["strings.Contains"] = func(in *Interp, fn *ssa.Function, args []Value) Value {
		s, p := args[0].(*StrVal), args[1].(*StrVal)
		sb := in.strBytes(s)
		r := in.St.F
		for i := 0; i+p.Len() <= len(sb); i++ {
			r = in.St.Or(r, in.strEq(in.mkStr(sb[i:i+p.Len()]), p))
		}
		return r
	}
	natives["strings.Fields"] = func(in *Interp, fn *ssa.Function, args []Value) Value {
		s := args[0].(*StrVal)
		if c, ok := s.Concrete(); ok {
			return in.strSliceVal(strings.Fields(c))
		}
		parts, _, ok := in.splitBy(s, in.isSpace)
		if !ok {
			panic(in.unsupported("strings.Fields: undecidable separator"))
		}
		var e []Value
		for _, p := range parts {
			if len(p) > 0 {
				e = append(e, in.mkStr(p))
			}
		}
		return in.mkSlice(e)
	}
	natives["strings.Split"] = func(in *Interp, fn *ssa.Function, args []Value) Value {
		s := args[0].(*StrVal)
		sep, ok := in.cStr(args[1])
		if !ok {
			panic(in.unsupported("strings.Split: symbolic separator"))
		}
		if c, ok := s.Concrete(); ok {
			return in.strSliceVal(strings.Split(c, sep))
		}
		if len(sep) != 1 {
			panic(in.unsupported("strings.Split: symbolic string with multi-byte separator"))
		}
		parts, _, ok := in.splitBy(s, func(b *smt.Term) *smt.Term { return in.St.Eq(b, in.St.BV(uint64(sep[0]), 8)) })
		if !ok {
			panic(in.unsupported("strings.Split: undecidable separator"))
		}
		var e []Value
		for _, p := range parts {
			e = append(e, in.mkStr(p))
		}
		return in.mkSlice(e)
	}
	natives["strings.Join"] = func(in *Interp, fn *ssa.Function, args []Value) Value {
		sl := args[0].(*SliceVal)
		sep := args[1].(*StrVal)
		r := &StrVal{}
		for i, e := range in.sliceElems(sl) {
			if i > 0 {
				r = in.strConcat(r, sep)
			}
			r = in.strConcat(r, e.(*StrVal))
		}
		return r
	}
	natives["strings.Repeat"] = func(in *Interp, fn *ssa.Function, args []Value) Value {
		n, ok := in.cInt(args[1])
		if !ok {
			panic(in.unsupported("strings.Repeat: symbolic count"))
		}
		r := &StrVal{}
		for i := int64(0); i < n; i++ {
			r = in.strConcat(r, args[0].(*StrVal))
		}
		return r
	}
	natives["strings.TrimSpace"] = func(in *Interp, fn *ssa.Function, args []Value) Value {
		s := args[0].(*StrVal)
		if c, ok := s.Concrete(); ok {
			return &StrVal{C: strings.TrimSpace(c)}
		}
		bs := in.strBytes(s)
		lo, hi := 0, len(bs)
		for lo < hi {
			v, ok := constBool(in.isSpace(bs[lo]))
			if !ok {
				panic(in.unsupported("strings.TrimSpace: undecidable"))
			}
			if !v {
				break
			}
			lo++
		}
		for hi > lo {
			v, ok := constBool(in.isSpace(bs[hi-1]))
			if !ok {
				panic(in.unsupported("strings.TrimSpace: undecidable"))
			}
			if !v {
				break
			}
			hi--
		}
		return in.mkStr(bs[lo:hi])
	}
	conc2 := func(name string, f func(a, b string) Value) {
		natives[name] = func(in *Interp, fn *ssa.Function, args []Value) Value {
			a, ok1 := in.cStr(args[0])
			b, ok2 := in.cStr(args[1])
			if !ok1 || !ok2 {
				panic(in.unsupported(name + " on symbolic strings"))
			}
			return f(a, b)
		}
	}
	_ = conc2
	natives["strings.Index"] = func(in *Interp, fn *ssa.Function, args []Value) Value {
		a, ok1 := in.cStr(args[0])
		b, ok2 := in.cStr(args[1])
		if !ok1 || !ok2 {
			panic(in.unsupported("strings.Index on symbolic strings"))
		}
		return in.St.BV(uint64(int64(strings.Index(a, b))), 64)
	}
	natives["strings.SplitN"] = func(in *Interp, fn *ssa.Function, args []Value) Value {
		a, ok1 := in.cStr(args[0])
		b, ok2 := in.cStr(args[1])
		n, ok3 := in.cInt(args[2])
		if !ok1 || !ok2 || !ok3 {
			panic(in.unsupported("strings.SplitN on symbolic values"))
		}
		return in.strSliceVal(strings.SplitN(a, b, int(n)))
	}
	natives["strings.ContainsAny"] = func(in *Interp, fn *ssa.Function, args []Value) Value {
		a, ok1 := in.cStr(args[0])
		b, ok2 := in.cStr(args[1])
		if !ok1 || !ok2 {
			panic(in.unsupported("strings.ContainsAny on symbolic strings"))
		}
		return in.St.Bool(strings.ContainsAny(a, b))
	}
	natives["strings.ContainsRune"] = func(in *Interp, fn *ssa.Function, args []Value) Value {
		a, ok1 := in.cStr(args[0])
		b, ok2 := in.cInt(args[1])
		if !ok1 || !ok2 {
			panic(in.unsupported("strings.ContainsRune on symbolic values"))
		}
		return in.St.Bool(strings.ContainsRune(a, rune(b)))
	}
	natives["strings.IndexAny"] = func(in *Interp, fn *ssa.Function, args []Value) Value {
		a, ok1 := in.cStr(args[0])
		b, ok2 := in.cStr(args[1])
		if !ok1 || !ok2 {
			panic(in.unsupported("strings.IndexAny on symbolic strings"))
		}
		return in.St.BV(uint64(int64(strings.IndexAny(a, b))), 64)
	}
	natives["strings.LastIndexByte"] = func(in *Interp, fn *ssa.Function, args []Value) Value {
		a, ok1 := in.cStr(args[0])
		b, ok2 := in.cUint(args[1])
		if !ok1 || !ok2 {
			panic(in.unsupported("strings.LastIndexByte on symbolic values"))
		}
		return in.St.BV(uint64(int64(strings.LastIndexByte(a, byte(b)))), 64)
	}
	natives["strings.Compare"] = func(in *Interp, fn *ssa.Function, args []Value) Value {
		a, ok1 := in.cStr(args[0])
		b, ok2 := in.cStr(args[1])
		if !ok1 || !ok2 {
			panic(in.unsupported("strings.Compare on symbolic strings"))
		}
		return in.St.BV(uint64(int64(strings.Compare(a, b))), 64)
	}
	natives["strconv.FormatBool"] = func(in *Interp, fn *ssa.Function, args []Value) Value {
		t := args[0].(*smt.Term)
		return in.merge(t, &StrVal{C: "true"}, &StrVal{C: "false"})
	}
	natives["strconv.Quote"] = func(in *Interp, fn *ssa.Function, args []Value) Value {
		a, ok := in.cStr(args[0])
		if !ok {
			return in.opaqueStr()
		}
		return &StrVal{C: strconv.Quote(a)}
	}
	natives["strings.IndexByte"] = func(in *Interp, fn *ssa.Function, args []Value) Value {
		a, ok1 := in.cStr(args[0])
		b, ok2 := in.cUint(args[1])
		if !ok1 || !ok2 {
			panic(in.unsupported("strings.IndexByte on symbolic values"))
		}
		return in.St.BV(uint64(int64(strings.IndexByte(a, byte(b)))), 64)
	}
	natives["strings.LastIndex"] = func(in *Interp, fn *ssa.Function, args []Value) Value {
		a, ok1 := in.cStr(args[0])
		b, ok2 := in.cStr(args[1])
		if !ok1 || !ok2 {
			panic(in.unsupported("strings.LastIndex on symbolic strings"))
		}
		return in.St.BV(uint64(int64(strings.LastIndex(a, b))), 64)
	}
	natives["strings.TrimPrefix"] = func(in *Interp, fn *ssa.Function, args []Value) Value {
		a, ok1 := in.cStr(args[0])
		b, ok2 := in.cStr(args[1])
		if !ok1 || !ok2 {
			panic(in.unsupported("strings.TrimPrefix on symbolic strings"))
		}
		return &StrVal{C: strings.TrimPrefix(a, b)}
	}
	natives["strings.TrimSuffix"] = func(in *Interp, fn *ssa.Function, args []Value) Value {
		a, ok1 := in.cStr(args[0])
		b, ok2 := in.cStr(args[1])
		if !ok1 || !ok2 {
			panic(in.unsupported("strings.TrimSuffix on symbolic strings"))
		}
		return &StrVal{C: strings.TrimSuffix(a, b)}
	}
	// Trim / TrimLeft / TrimRight with a concrete cutset: membership of every examined byte must be
	// decided on the current path (constant or by the solver)
	trim := func(name string, left, right bool) {
		natives[name] = func(in *Interp, fn *ssa.Function, args []Value) Value {
			s := args[0].(*StrVal)
			cut, ok := in.cStr(args[1])
			if !ok {
				panic(in.unsupported(name + " with a symbolic cutset"))
			}
			if c, ok := s.Concrete(); ok {
				switch {
				case left && right:
					return &StrVal{C: strings.Trim(c, cut)}
				case left:
					return &StrVal{C: strings.TrimLeft(c, cut)}
				default:
					return &StrVal{C: strings.TrimRight(c, cut)}
				}
			}
			if s.Opaque {
				panic(in.unsupported(name + " on an opaque string"))
			}
			member := func(b *smt.Term) *smt.Term {
				m := in.St.F
				for i := 0; i < len(cut); i++ {
					m = in.St.Or(m, in.St.Eq(b, in.St.BV(uint64(cut[i]), 8)))
				}
				return m
			}
			// a byte whose membership depends on its value splits the result (union of lengths)
			var trimL, trimR func(bs []*smt.Term) Value
			trimL = func(bs []*smt.Term) Value {
				if len(bs) == 0 {
					return &StrVal{}
				}
				m := member(bs[0])
				switch in.decided(m) {
				case 1:
					return trimL(bs[1:])
				case 0:
					return in.mkStr(bs)
				}
				rest, ok := in.tryAlt(m, func() Value { return trimL(bs[1:]) })
				if !ok {
					return in.mkStr(bs)
				}
				return in.merge(m, rest, in.mkStr(bs))
			}
			trimR = func(bs []*smt.Term) Value {
				if len(bs) == 0 {
					return &StrVal{}
				}
				m := member(bs[len(bs)-1])
				switch in.decided(m) {
				case 1:
					return trimR(bs[:len(bs)-1])
				case 0:
					return in.mkStr(bs)
				}
				rest, ok := in.tryAlt(m, func() Value { return trimR(bs[:len(bs)-1]) })
				if !ok {
					return in.mkStr(bs)
				}
				return in.merge(m, rest, in.mkStr(bs))
			}
			var res Value = s
			if left {
				res = trimL(in.strBytes(s))
			}
			if right {
				res = in.mapAlts(res, func(v Value) Value { return trimR(in.strBytes(v.(*StrVal))) })
			}
			return res
		}
	}
	trim("strings.Trim", true, true)
	trim("strings.TrimLeft", true, false)
	trim("strings.TrimRight", false, true)
	natives["strings.ReplaceAll"] = func(in *Interp, fn *ssa.Function, args []Value) Value {
		a, ok1 := in.cStr(args[0])
		b, ok2 := in.cStr(args[1])
		c, ok3 := in.cStr(args[2])
		if !ok1 || !ok2 || !ok3 {
			panic(in.unsupported("strings.ReplaceAll on symbolic strings"))
		}
		return &StrVal{C: strings.ReplaceAll(a, b, c)}
	}
	natives["strings.Replace"] = func(in *Interp, fn *ssa.Function, args []Value) Value {
		a, ok1 := in.cStr(args[0])
		b, ok2 := in.cStr(args[1])
		c, ok3 := in.cStr(args[2])
		n, ok4 := in.cInt(args[3])
		if !ok1 || !ok2 || !ok3 || !ok4 {
			panic(in.unsupported("strings.Replace on symbolic strings"))
		}
		return &StrVal{C: strings.Replace(a, b, c, int(n))}
	}
	natives["strings.Count"] = func(in *Interp, fn *ssa.Function, args []Value) Value {
		a, ok1 := in.cStr(args[0])
		b, ok2 := in.cStr(args[1])
		if !ok1 || !ok2 {
			panic(in.unsupported("strings.Count on symbolic strings"))
		}
		return in.St.BV(uint64(strings.Count(a, b)), 64)
	}
	natives["strings.EqualFold"] = func(in *Interp, fn *ssa.Function, args []Value) Value {
		return in.strEq(in.caseConv(args[0], false).(*StrVal), in.caseConv(args[1], false).(*StrVal))
	}
	natives["strconv.Itoa"] = func(in *Interp, fn *ssa.Function, args []Value) Value {
		return in.formatInt(args[0].(*smt.Term), 10, true)
	}
	natives["strconv.FormatInt"] = func(in *Interp, fn *ssa.Function, args []Value) Value {
		b, ok := in.cInt(args[1])
		if !ok {
			panic(in.unsupported("FormatInt: symbolic base"))
		}
		return in.formatInt(args[0].(*smt.Term), int(b), true)
	}
	natives["strconv.FormatUint"] = func(in *Interp, fn *ssa.Function, args []Value) Value {
		b, ok := in.cInt(args[1])
		if !ok {
			panic(in.unsupported("FormatUint: symbolic base"))
		}
		return in.formatInt(args[0].(*smt.Term), int(b), false)
	}
	natives["strconv.Atoi"] = func(in *Interp, fn *ssa.Function, args []Value) Value {
		return in.parseInt(args[0].(*StrVal), 10, 64, true)
	}
	natives["strconv.ParseInt"] = func(in *Interp, fn *ssa.Function, args []Value) Value {
		b, ok1 := in.cInt(args[1])
		w, ok2 := in.cInt(args[2])
		if !ok1 || !ok2 {
			panic(in.unsupported("ParseInt: symbolic base/size"))
		}
		return in.parseInt(args[0].(*StrVal), int(b), int(w), true)
	}
	natives["strconv.ParseUint"] = func(in *Interp, fn *ssa.Function, args []Value) Value {
		b, ok1 := in.cInt(args[1])
		w, ok2 := in.cInt(args[2])
		if !ok1 || !ok2 {
			panic(in.unsupported("ParseUint: symbolic base/size"))
		}
		return in.parseInt(args[0].(*StrVal), int(b), int(w), false)
	}
	natives["strconv.ParseFloat"] = func(in *Interp, fn *ssa.Function, args []Value) Value {
		s, ok := in.cStr(args[0])
		w, ok2 := in.cInt(args[1])
		if !ok || !ok2 {
			panic(in.unsupported("ParseFloat: symbolic"))
		}
		f, err := strconv.ParseFloat(s, int(w))
		return in.tuple(&FloatVal{F: f}, in.errVal(err))
	}
	natives["strconv.ParseBool"] = func(in *Interp, fn *ssa.Function, args []Value) Value {
		s, ok := in.cStr(args[0])
		if !ok {
			panic(in.unsupported("ParseBool: symbolic"))
		}
		b, err := strconv.ParseBool(s)
		return in.tuple(in.St.Bool(b), in.errVal(err))
	}
	natives["encoding/hex.EncodeToString"] = func(in *Interp, fn *ssa.Function, args []Value) Value {
		sl := args[0].(*SliceVal)
		var out []*smt.Term
		hexd := func(n *smt.Term) *smt.Term { // 4-bit -> ascii
			st := in.St
			n8 := st.Zext(4, n)
			return st.Ite(st.Cmp(smt.OpBvUlt, n8, st.BV(10, 8)), st.Bin(smt.OpBvAdd, n8, st.BV('0', 8)), st.Bin(smt.OpBvAdd, n8, st.BV('a'-10, 8)))
		}
		for _, e := range in.sliceElems(sl) {
			b := e.(*smt.Term)
			out = append(out, hexd(in.St.Extract(7, 4, b)), hexd(in.St.Extract(3, 0, b)))
		}
		return in.mkStr(out)
	}
	natives["encoding/hex.DecodeString"] = func(in *Interp, fn *ssa.Function, args []Value) Value {
		s, ok := in.cStr(args[0])
		if !ok {
			sv := args[0].(*StrVal)
			if sv.Opaque {
				panic(in.unsupported("hex.DecodeString: opaque string"))
			}
			st := in.St
			bs := in.strBytes(sv)
			nib := func(c *smt.Term) (*smt.Term, *smt.Term) { // value (8 bit), valid
				isD := st.And(st.Cmp(smt.OpBvUle, st.BV('0', 8), c), st.Cmp(smt.OpBvUle, c, st.BV('9', 8)))
				isL := st.And(st.Cmp(smt.OpBvUle, st.BV('a', 8), c), st.Cmp(smt.OpBvUle, c, st.BV('f', 8)))
				isU := st.And(st.Cmp(smt.OpBvUle, st.BV('A', 8), c), st.Cmp(smt.OpBvUle, c, st.BV('F', 8)))
				v := st.Ite(isD, st.Bin(smt.OpBvSub, c, st.BV('0', 8)), st.Ite(isL, st.Bin(smt.OpBvSub, c, st.BV('a'-10, 8)), st.Bin(smt.OpBvSub, c, st.BV('A'-10, 8))))
				return v, st.Or(isD, st.Or(isL, isU))
			}
			valid := st.Bool(len(bs)%2 == 0)
			var e []Value
			for i := 0; i+1 < len(bs); i += 2 {
				h, hv := nib(bs[i])
				l, lv := nib(bs[i+1])
				valid = st.And(valid, st.And(hv, lv))
				e = append(e, st.Bin(smt.OpBvOr, st.Bin(smt.OpBvShl, h, st.BV(4, 8)), l))
			}
			good := in.mkSlice(e)
			return in.tuple(in.merge(valid, good, &SliceVal{}), in.merge(valid, &IfaceVal{}, in.MkError("encoding/hex: invalid")))
		}
		b, err := hex.DecodeString(s)
		var e []Value
		for _, x := range b {
			e = append(e, in.St.BV(uint64(x), 8))
		}
		var sv Value = &SliceVal{}
		if b != nil {
			sv = in.mkSlice(e)
		}
		return in.tuple(sv, in.errVal(err))
	}
	natives["regexp.MustCompile"] = func(in *Interp, fn *ssa.Function, args []Value) Value {
		s, ok := in.cStr(args[0])
		if !ok {
			panic(in.unsupported("regexp.MustCompile: symbolic pattern"))
		}
		return &HostVal{V: regexp.MustCompile(s)}
	}
	natives["regexp.Compile"] = func(in *Interp, fn *ssa.Function, args []Value) Value {
		s, ok := in.cStr(args[0])
		if !ok {
			panic(in.unsupported("regexp.Compile: symbolic pattern"))
		}
		re, err := regexp.Compile(s)
		if err != nil {
			return in.tuple(&PtrVal{}, in.errVal(err))
		}
		return in.tuple(&HostVal{V: re}, in.errVal(nil))
	}
	natives["regexp.MatchString"] = func(in *Interp, fn *ssa.Function, args []Value) Value {
		p, ok := in.cStr(args[0])
		if !ok {
			panic(in.unsupported("regexp.MatchString: symbolic pattern"))
		}
		re, err := regexp.Compile(p)
		if err != nil {
			return in.tuple(in.St.F, in.errVal(err))
		}
		return in.tuple(in.reMatch(re, args[1].(*StrVal)), in.errVal(nil))
	}
	natives["(*regexp.Regexp).MatchString"] = func(in *Interp, fn *ssa.Function, args []Value) Value {
		re := args[0].(*HostVal).V.(*regexp.Regexp)
		return in.reMatch(re, args[1].(*StrVal))
	}
	natives["(*regexp.Regexp).FindStringSubmatch"] = func(in *Interp, fn *ssa.Function, args []Value) Value {
		re := args[0].(*HostVal).V.(*regexp.Regexp)
		return in.reSubmatch(re, args[1].(*StrVal))
	}
	natives["(*regexp.Regexp).SubexpNames"] = func(in *Interp, fn *ssa.Function, args []Value) Value {
		re := args[0].(*HostVal).V.(*regexp.Regexp)
		return in.strSliceVal(re.SubexpNames())
	}
	natives["(*regexp.Regexp).ReplaceAllString"] = func(in *Interp, fn *ssa.Function, args []Value) Value {
		re := args[0].(*HostVal).V.(*regexp.Regexp)
		return in.reReplaceAll(re, args[1].(*StrVal), args[2].(*StrVal))
	}
	natives["(*regexp.Regexp).String"] = func(in *Interp, fn *ssa.Function, args []Value) Value {
		re := args[0].(*HostVal).V.(*regexp.Regexp)
		return &StrVal{C: re.String()}
	}
	natives["sort.Strings"] = func(in *Interp, fn *ssa.Function, args []Value) Value {
		sl := args[0].(*SliceVal)
		ss, ok := in.cStrSlice(sl)
		if !ok {
			panic(in.unsupported("sort.Strings: symbolic"))
		}
		sort.Strings(ss)
		for k, s := range ss {
			in.store(&PtrVal{Obj: sl.Obj, Path: []Sel{{Idx: sl.Off + k}}}, &StrVal{C: s})
		}
		return &TupleVal{}
	}
	natives["sort.Ints"] = func(in *Interp, fn *ssa.Function, args []Value) Value {
		sl := args[0].(*SliceVal)
		var xs []int
		symbolic := false
		elems := in.sliceElems(sl)
		for _, e := range elems {
			v, ok := in.cInt(e)
			if !ok {
				symbolic = true
				break
			}
			xs = append(xs, int(v))
		}
		if symbolic {
			// a sorting network of compare-exchange steps (the result of sorting is unique, whatever the algorithm)
			if len(elems) > 8 {
				panic(in.unsupported("sort.Ints: more than 8 symbolic elements"))
			}
			ts := make([]*smt.Term, len(elems))
			for k, e := range elems {
				t, ok := e.(*smt.Term)
				if !ok || t.W != 64 {
					panic(in.unsupported("sort.Ints: element is not an int"))
				}
				ts[k] = t
			}
			for i := 0; i < len(ts); i++ {
				for j := 0; j+1 < len(ts)-i; j++ {
					gt := in.St.Cmp(smt.OpBvSlt, ts[j+1], ts[j])
					lo, hi := in.St.Ite(gt, ts[j+1], ts[j]), in.St.Ite(gt, ts[j], ts[j+1])
					ts[j], ts[j+1] = lo, hi
				}
			}
			for k, t := range ts {
				in.store(&PtrVal{Obj: sl.Obj, Path: []Sel{{Idx: sl.Off + k}}}, t)
			}
			return &TupleVal{}
		}
		sort.Ints(xs)
		for k, x := range xs {
			in.store(&PtrVal{Obj: sl.Obj, Path: []Sel{{Idx: sl.Off + k}}}, in.St.BV(uint64(x), 64))
		}
		return &TupleVal{}
	}
	for _, nm := range []string{"Len", "Len8", "Len16", "Len32", "Len64", "TrailingZeros", "TrailingZeros64", "OnesCount", "OnesCount64", "LeadingZeros", "LeadingZeros64"} {
		nm := nm
		natives["math/bits."+nm] = func(in *Interp, fn *ssa.Function, args []Value) Value {
			v, ok := in.cUint(args[0])
			if !ok {
				panic(in.unsupported("math/bits." + nm + " on a symbolic value"))
			}
			var r int
			switch nm {
			case "Len", "Len64":
				r = bits.Len64(v)
			case "Len8":
				r = bits.Len8(uint8(v))
			case "Len16":
				r = bits.Len16(uint16(v))
			case "Len32":
				r = bits.Len32(uint32(v))
			case "TrailingZeros", "TrailingZeros64":
				r = bits.TrailingZeros64(v)
			case "OnesCount", "OnesCount64":
				r = bits.OnesCount64(v)
			case "LeadingZeros", "LeadingZeros64":
				r = bits.LeadingZeros64(v)
			}
			return in.St.BV(uint64(r), 64)
		}
	}
	natives["time.Now"] = func(in *Interp, fn *ssa.Function, args []Value) Value {
		return in.zeroResults(fn.Signature)
	}
	natives["(time.Time).UnixNano"] = func(in *Interp, fn *ssa.Function, args []Value) Value {
		return in.St.BV(0, 64)
	}
	natives["math.Pow"] = func(in *Interp, fn *ssa.Function, args []Value) Value {
		a, ok1 := args[0].(*FloatVal)
		b, ok2 := args[1].(*FloatVal)
		if !ok1 || !ok2 {
			panic(in.unsupported("math.Pow symbolic"))
		}
		return &FloatVal{F: pow(a.F, b.F)}
	}
}

func (in *Interp) caseConv(v Value, upper bool) Value {
	s := v.(*StrVal)
	if c, ok := s.Concrete(); ok {
		if upper {
			return &StrVal{C: strings.ToUpper(c)}
		}
		return &StrVal{C: strings.ToLower(c)}
	}
	if s.Opaque {
		return s
	}
	st := in.St
	bs := in.strBytes(s)
	r := make([]*smt.Term, len(bs))
	for i, b := range bs {
		in.panicIf(st.Cmp(smt.OpBvUle, st.BV(0x80, 8), b), "non-ascii-case")
		if upper {
			isl := st.And(st.Cmp(smt.OpBvUle, st.BV('a', 8), b), st.Cmp(smt.OpBvUle, b, st.BV('z', 8)))
			r[i] = st.Ite(isl, st.Bin(smt.OpBvSub, b, st.BV(32, 8)), b)
		} else {
			isu := st.And(st.Cmp(smt.OpBvUle, st.BV('A', 8), b), st.Cmp(smt.OpBvUle, b, st.BV('Z', 8)))
			r[i] = st.Ite(isu, st.Bin(smt.OpBvAdd, b, st.BV(32, 8)), b)
		}
	}
	return in.mkStr(r)
}
