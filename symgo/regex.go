package symgo

import (
	"regexp"
	"regexp/syntax"

	"verif/smt"
)

// reMatchSym decides whether a string of concrete length with symbolic bytes
// matches the regular expression, by simulating the compiled RE2 program
// (Thompson construction) with one Bool term per (position, pc).
func (in *Interp) reMatchSym(re *regexp.Regexp, s *StrVal) *smt.Term {
	if s.Opaque {
		panic(in.unsupported("regexp match of opaque string"))
	}
	rs, err := syntax.Parse(re.String(), syntax.Perl)
	if err != nil {
		panic(in.unsupported("regexp parse: " + err.Error()))
	}
	prog, err := syntax.Compile(rs.Simplify())
	if err != nil {
		panic(in.unsupported("regexp compile: " + err.Error()))
	}
	st := in.St
	bs := in.strBytes(s)
	n := len(bs)
	for _, b := range bs {
		in.panicIf(st.Cmp(smt.OpBvUle, st.BV(0x80, 8), b), "non-ascii-regexp")
	}
	np := len(prog.Inst)
	// closure(pos, set): follow Alt/Nop/Capture/EmptyWidth edges
	var addThread func(set []*smt.Term, pc uint32, pos int, g *smt.Term, seen map[uint32]*smt.Term)
	addThread = func(set []*smt.Term, pc uint32, pos int, g *smt.Term, seen map[uint32]*smt.Term) {
		if g.IsFalse() {
			return
		}
		if old, ok := seen[pc]; ok && old == g {
			return
		}
		seen[pc] = g
		ins := &prog.Inst[pc]
		switch ins.Op {
		case syntax.InstAlt, syntax.InstAltMatch:
			addThread(set, ins.Out, pos, g, seen)
			addThread(set, ins.Arg, pos, g, seen)
		case syntax.InstNop, syntax.InstCapture:
			addThread(set, ins.Out, pos, g, seen)
		case syntax.InstEmptyWidth:
			need := syntax.EmptyOp(ins.Arg)
			okc := st.T
			if need&syntax.EmptyBeginText != 0 && pos != 0 {
				okc = st.F
			}
			if need&syntax.EmptyEndText != 0 && pos != n {
				okc = st.F
			}
			if need&syntax.EmptyBeginLine != 0 && pos != 0 {
				okc = st.And(okc, st.Eq(bs[pos-1], st.BV('\n', 8)))
			}
			if need&syntax.EmptyEndLine != 0 && pos != n {
				okc = st.And(okc, st.Eq(bs[pos], st.BV('\n', 8)))
			}
			if need&(syntax.EmptyWordBoundary|syntax.EmptyNoWordBoundary) != 0 {
				panic(in.unsupported("regexp word boundary"))
			}
			addThread(set, ins.Out, pos, st.And(g, okc), seen)
		default:
			set[pc] = st.Or(set[pc], g)
		}
	}
	newSet := func() []*smt.Term {
		x := make([]*smt.Term, np)
		for i := range x {
			x[i] = st.F
		}
		return x
	}
	matchByte := func(ins *syntax.Inst, b *smt.Term) *smt.Term {
		switch ins.Op {
		case syntax.InstRune1:
			r := ins.Rune[0]
			m := st.Eq(b, st.BV(uint64(r), 8))
			if syntax.Flags(ins.Arg)&syntax.FoldCase != 0 {
				for _, f := range foldRunes(r) {
					m = st.Or(m, st.Eq(b, st.BV(uint64(f), 8)))
				}
			}
			if r >= 0x80 {
				return st.F
			}
			return m
		case syntax.InstRune:
			m := st.F
			rr := ins.Rune
			if len(rr) == 1 {
				m = st.Eq(b, st.BV(uint64(rr[0]), 8))
				if syntax.Flags(ins.Arg)&syntax.FoldCase != 0 {
					for _, f := range foldRunes(rr[0]) {
						m = st.Or(m, st.Eq(b, st.BV(uint64(f), 8)))
					}
				}
				return m
			}
			for i := 0; i+1 < len(rr); i += 2 {
				lo, hi := rr[i], rr[i+1]
				if lo > 0x7f {
					continue
				}
				if hi > 0x7f {
					hi = 0x7f
				}
				m = st.Or(m, st.And(st.Cmp(smt.OpBvUle, st.BV(uint64(lo), 8), b), st.Cmp(smt.OpBvUle, b, st.BV(uint64(hi), 8))))
			}
			return m
		case syntax.InstRuneAny:
			return st.T
		case syntax.InstRuneAnyNotNL:
			return st.Ne(b, st.BV('\n', 8))
		}
		return st.F
	}
	matched := st.F
	cur := newSet()
	// unanchored search: a thread may start at every position
	for pos := 0; pos <= n; pos++ {
		// leftmost semantics do not matter for a yes/no answer
		addThread(cur, uint32(prog.Start), pos, st.T, map[uint32]*smt.Term{})
		nxt := newSet()
		for pc := 0; pc < np; pc++ {
			g := cur[pc]
			if g.IsFalse() {
				continue
			}
			ins := &prog.Inst[pc]
			switch ins.Op {
			case syntax.InstMatch:
				matched = st.Or(matched, g)
			case syntax.InstFail:
			default:
				if pos < n {
					m := st.And(g, matchByte(ins, bs[pos]))
					if !m.IsFalse() {
						addThread(nxt, ins.Out, pos+1, m, map[uint32]*smt.Term{})
					}
				}
			}
		}
		cur = nxt
	}
	return matched
}

func foldRunes(r rune) []rune {
	var out []rune
	if r >= 'a' && r <= 'z' {
		out = append(out, r-32)
	}
	if r >= 'A' && r <= 'Z' {
		out = append(out, r+32)
	}
	return out
}

// reSubmatchSym: captures of a symbolic string. Supported when the capture
// boundaries are the same for every matching string of this length (checked on
// the structure: at most one variable-width piece at top level).
func (in *Interp) reSubmatchSym(re *regexp.Regexp, s *StrVal) Value {
	rs, err := syntax.Parse(re.String(), syntax.Perl)
	if err != nil {
		panic(in.unsupported("regexp parse: " + err.Error()))
	}
	rs = rs.Simplify()
	n := s.Len()
	bounds, ok := captureBounds(rs, n, re.NumSubexp())
	if !ok {
		panic(in.unsupported("regexp submatch on a symbolic string: capture positions depend on content (" + re.String() + ")"))
	}
	m := in.reMatchSym(re, s)
	bs := in.strBytes(s)
	e := make([]Value, re.NumSubexp()+1)
	e[0] = s
	for k := 1; k <= re.NumSubexp(); k++ {
		b := bounds[k]
		if b[0] < 0 {
			e[k] = &StrVal{}
		} else {
			e[k] = in.mkStr(bs[b[0]:b[1]])
		}
	}
	hit := in.mkSlice(e)
	return in.merge(m, hit, &SliceVal{})
}

// fixedWidth returns the width of a regexp node if every match has the same length.
func fixedWidth(r *syntax.Regexp) (int, bool) {
	switch r.Op {
	case syntax.OpEmptyMatch, syntax.OpBeginLine, syntax.OpEndLine, syntax.OpBeginText, syntax.OpEndText:
		return 0, true
	case syntax.OpLiteral:
		return len(r.Rune), true
	case syntax.OpCharClass, syntax.OpAnyCharNotNL, syntax.OpAnyChar:
		return 1, true
	case syntax.OpCapture:
		return fixedWidth(r.Sub[0])
	case syntax.OpConcat:
		t := 0
		for _, s := range r.Sub {
			w, ok := fixedWidth(s)
			if !ok {
				return 0, false
			}
			t += w
		}
		return t, true
	case syntax.OpAlternate:
		w0, ok := fixedWidth(r.Sub[0])
		if !ok {
			return 0, false
		}
		for _, s := range r.Sub[1:] {
			w, ok := fixedWidth(s)
			if !ok || w != w0 {
				return 0, false
			}
		}
		return w0, true
	case syntax.OpRepeat:
		if r.Min == r.Max {
			w, ok := fixedWidth(r.Sub[0])
			return w * r.Min, ok
		}
	}
	return 0, false
}

// captureBounds computes capture positions for an anchored concatenation with
// at most one variable-width top-level piece, for total length n.
func captureBounds(r *syntax.Regexp, n int, ncap int) (map[int][2]int, bool) {
	if r.Op != syntax.OpConcat {
		r = &syntax.Regexp{Op: syntax.OpConcat, Sub: []*syntax.Regexp{r}}
	}
	subs := r.Sub
	if len(subs) < 2 || subs[0].Op != syntax.OpBeginText || subs[len(subs)-1].Op != syntax.OpEndText {
		return nil, false
	}
	widths := make([]int, len(subs))
	varIdx := -1
	total := 0
	for i, s := range subs {
		w, ok := fixedWidth(s)
		if ok {
			widths[i] = w
			total += w
			continue
		}
		if varIdx >= 0 {
			return nil, false
		}
		varIdx = i
	}
	if varIdx >= 0 {
		if n < total {
			widths[varIdx] = 0
		} else {
			widths[varIdx] = n - total
		}
	}
	res := map[int][2]int{}
	for k := 1; k <= ncap; k++ {
		res[k] = [2]int{-1, -1}
	}
	pos := 0
	for i, s := range subs {
		if !assignCaps(s, pos, widths[i], res) {
			return nil, false
		}
		pos += widths[i]
	}
	return res, true
}

// assignCaps records capture groups inside node s spanning [pos,pos+w).
func assignCaps(s *syntax.Regexp, pos, w int, res map[int][2]int) bool {
	switch s.Op {
	case syntax.OpCapture:
		res[s.Cap] = [2]int{pos, pos + w}
		return assignCaps(s.Sub[0], pos, w, res)
	case syntax.OpConcat:
		// all but at most one fixed
		widths := make([]int, len(s.Sub))
		varIdx, total := -1, 0
		for i, x := range s.Sub {
			fw, ok := fixedWidth(x)
			if ok {
				widths[i] = fw
				total += fw
			} else if varIdx >= 0 {
				return !hasCapture(s)
			} else {
				varIdx = i
			}
		}
		if varIdx >= 0 {
			widths[varIdx] = max(w-total, 0)
		}
		p := pos
		for i, x := range s.Sub {
			if !assignCaps(x, p, widths[i], res) {
				return false
			}
			p += widths[i]
		}
		return true
	default:
		return !hasCapture(s) || s.Op == syntax.OpCapture
	}
}

func hasCapture(s *syntax.Regexp) bool {
	if s.Op == syntax.OpCapture {
		return true
	}
	for _, x := range s.Sub {
		if hasCapture(x) {
			return true
		}
	}
	return false
}
