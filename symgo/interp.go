package symgo

import (
	"fmt"
	"go/token"
	"go/types"
	"sort"
	"strings"
	"time"

	"golang.org/x/tools/go/ssa"

	"verif/smt"
)

// Unsupported is thrown (as a panic) when the executor meets something it
// cannot model. It is never turned into pass or fail.
type Unsupported struct{ Msg string }

func (u *Unsupported) Error() string { return "unsupported: " + u.Msg }

// killPath is thrown to abandon the current path (explicit panic, dead path).
type killPath struct{}

type gframe struct {
	id   int
	cond *smt.Term
	iter bool // pushed by a map iterator
}

// Obligation is a property to be decided by the solver: under Valid ∧ Guard, Cond must hold.
type Obligation struct {
	Kind  string // "assert", "panic", "reach"
	Tag   string
	Pos   string
	Guard *smt.Term // path guard (includes validity assumptions so far)
	Cond  *smt.Term // asserted condition (assert); panic: failing condition is Guard itself, Cond = false
}

type Stats struct {
	Instrs, Forks, Merges, Calls, FeasQueries int
	Funcs                                     map[string]int
	Natives                                   map[string]int
	Stubs                                     map[string]int
	Assumes                                   []string
	Unwind                                    []string
	Opaque                                    int
	UnsupportedPaths                          []string
}

// HookFn intercepts a call; handled=false continues with the normal dispatch.
type HookFn func(in *Interp, fn *ssa.Function, args []Value) (res Value, handled bool)

type Interp struct {
	P         *Program
	St        *smt.Store
	Sol       *smt.Solver
	gs        []gframe
	syncMaps  map[syncMapKey]*MapVal
	nextGID   int
	Valid     *smt.Term // accumulated assumptions (assumes, absence of earlier panics)
	Obls      []*Obligation
	Verdicts  []Verdict
	Nondets   []*smt.Term
	Exports   map[string]Value
	globals   map[*ssa.Global]*Object
	nobj      int
	MaxUnion  int
	MaxUnwind int
	MaxInstrs int
	Deadline  time.Time
	// BudgetCPU, ThreadCPU: CPU-time budget of the run (see checkDeadline); ThreadCPU reads the CPU clock of the
	// OS thread the interpreter is locked to
	BudgetCPU  time.Duration
	ThreadCPU  func() time.Duration
	cpu0       time.Duration
	cpuStarted bool
	// SchedOrder: preferred order (goroutine ids in creation order, 0 = main) in which
	// ready goroutines are resumed when the running one blocks
	SchedOrder []int
	// SchedReverse: resume ready goroutines in reverse creation order (set by zzSchedule)
	SchedReverse bool
	Stats        Stats
	initDone     map[*ssa.Package]bool
	InitPkgs     map[string]bool // packages whose init is interpreted
	lenient      bool            // during package init: unsupported calls return zero values
	depth        int
	Trace        bool
	// IgnorePanics: panics (bounds, nil, explicit) are treated as path ends that
	// are assumed away instead of obligations.
	PanicAsObligation bool
	Hooks             map[string]HookFn // per-run call intercepts by full function name; handled=false falls through
	sched             *scheduler
	// RaceDetect: record memory accesses per goroutine segment and add happens-before race obligations (race.go)
	RaceDetect bool
	// SecondSolver counts the obligations handed to the second solver release after the first gave up
	SecondSolver int
	raceSt       *raceState
	nondetCount  map[string]int
	curPos       token.Pos
	LastKill     string
}

func NewInterp(p *Program, st *smt.Store, sol *smt.Solver) *Interp {
	in := &Interp{P: p, St: st, Sol: sol, Valid: st.T, globals: map[*ssa.Global]*Object{},
		MaxUnion: 16, MaxUnwind: 40, MaxInstrs: 50_000_000, initDone: map[*ssa.Package]bool{}, InitPkgs: map[string]bool{},
		Exports: map[string]Value{}, Hooks: map[string]HookFn{}, nondetCount: map[string]int{}}
	in.Stats.Funcs = map[string]int{}
	in.Stats.Natives = map[string]int{}
	in.Stats.Stubs = map[string]int{}
	return in
}

func (in *Interp) unsupported(msg string) *Unsupported {
	pos := ""
	if in.curPos.IsValid() {
		pos = " at " + in.P.Fset.Position(in.curPos).String()
	}
	return &Unsupported{Msg: msg + pos}
}

// ---- guard stack ----

func (in *Interp) push(c *smt.Term) {
	in.nextGID++
	in.gs = append(in.gs, gframe{id: in.nextGID, cond: c})
}

func (in *Interp) pop() { in.gs = in.gs[:len(in.gs)-1] }

func (in *Interp) guardSince(d int) *smt.Term {
	g := in.St.T
	for i := d; i < len(in.gs); i++ {
		g = in.St.And(g, in.gs[i].cond)
	}
	return g
}

func (in *Interp) Guard() *smt.Term { return in.guardSince(0) }

func (in *Interp) birth() []int {
	b := make([]int, len(in.gs))
	for i, f := range in.gs {
		b[i] = f.id
	}
	return b
}

// storeGuard is the guard under which a store to an object born with the given
// stack must be made: the conditions pushed after its birth.
func (in *Interp) storeGuard(birth []int) *smt.Term {
	d := 0
	for d < len(birth) && d < len(in.gs) && birth[d] == in.gs[d].id {
		d++
	}
	return in.guardSince(d)
}

func (in *Interp) newObject(v Value, name string) *Object {
	in.nobj++
	return &Object{ID: in.nobj, Val: v, birth: in.birth(), Name: name}
}

// feasible asks whether cond can hold on the current path.
func (in *Interp) feasible(cond *smt.Term) bool {
	if cond.IsFalse() {
		return false
	}
	if cond.HasReal {
		return true // nonlinear real arithmetic: not asked, both arms are kept (the guard still carries the condition)
	}
	in.Stats.FeasQueries++
	in.checkDeadline()
	t0 := time.Now()
	r := in.Sol.Check(in.Guard(), cond)
	if SlowQueryLog != nil {
		if d := time.Since(t0).Seconds(); d > 0.1 {
			SlowQueryLog(fmt.Sprintf("feasibility %.2fs %v at %s (cond size %d, valid size %d)", d, r, in.posStr(in.curPos), smt.Size(cond), smt.Size(in.Valid)))
		}
	}
	return r != smt.Unsat // unknown = keep
}

// checkDeadline enforces the budget of a configuration. With BudgetCPU and ThreadCPU set the budget is one of
// CPU time (this interpreter's thread plus its solver process), so that a machine shared with other work does not
// turn a configuration that fits into one that does not; Deadline is then only a generous wall-clock cap.
func (in *Interp) checkDeadline() {
	if in.BudgetCPU > 0 && in.ThreadCPU != nil {
		if !in.cpuStarted {
			in.cpuStarted = true
			in.cpu0 = in.ThreadCPU()
		}
		used := in.ThreadCPU() - in.cpu0
		if in.Sol != nil {
			used += in.Sol.CPU()
		}
		if used > in.BudgetCPU {
			panic(in.unsupported("time budget of this configuration exceeded"))
		}
	}
	if !in.Deadline.IsZero() && time.Now().After(in.Deadline) {
		panic(in.unsupported("time budget of this configuration exceeded"))
	}
}

// assume adds guard → c to the validity assumptions.
func (in *Interp) assume(c *smt.Term) {
	// Valid is asserted permanently in the solver: every later query is made under
	// it, and every obligation is decided at the moment it is recorded.
	imp := in.St.Implies(in.Guard(), c)
	in.Valid = in.St.And(in.Valid, imp)
	in.Sol.Assert(imp)
}

func (in *Interp) posStr(p token.Pos) string {
	if !p.IsValid() {
		return "?"
	}
	pp := in.P.Fset.Position(p)
	f := pp.Filename
	if i := strings.Index(f, "/pkg/"); i >= 0 {
		f = f[i+1:]
	}
	return fmt.Sprintf("%s:%d", f, pp.Line)
}

// panicIf records that the program panics when c holds on this path, then assumes ¬c.
// Returns false if the path is certainly dead afterwards (c is true).
func (in *Interp) panicIf(c *smt.Term, kind string) {
	if c.IsFalse() {
		return
	}
	g := in.St.And(in.Guard(), c)
	if strings.HasPrefix(kind, "non-ascii") {
		// modelling restriction (ASCII text), an assumption of the claim, never an obligation
		in.Stats.Stubs["assume:ascii-text"]++
	} else if in.PanicAsObligation && !g.IsFalse() {
		in.AddObligation(&Obligation{Kind: "panic", Tag: kind, Pos: in.posStr(in.curPos), Guard: g, Cond: in.St.F})
	}
	in.assume(in.St.Not(c))
	if c.IsTrue() {
		in.LastKill = kind + " at " + in.posStr(in.curPos)
		panic(killPath{})
	}
}

// ---- heap ----

func (in *Interp) child(cur Value, s Sel) Value {
	switch x := cur.(type) {
	case *StructVal:
		return x.F[s.Idx]
	case *ArrayVal:
		if s.Sym == nil {
			if s.Idx < 0 || s.Idx >= len(x.E) {
				in.panicIf(in.St.T, "index")
			}
			return x.E[s.Idx]
		}
		if len(x.E) == 0 {
			in.panicIf(in.St.T, "index")
		}
		r := x.E[len(x.E)-1]
		for k := len(x.E) - 2; k >= 0; k-- {
			r = in.merge(in.St.Eq(s.Sym, in.St.BV(uint64(k), 64)), x.E[k], r)
		}
		return r
	}
	panic(in.unsupported(fmt.Sprintf("child of %s", describe(cur))))
}

func (in *Interp) load(p Value) Value {
	switch pv := p.(type) {
	case *PtrVal:
		if pv.Obj == nil {
			in.panicIf(in.St.T, "nil-deref")
		}
		cur := pv.Obj.Val
		for _, s := range pv.Path {
			cur = in.child(cur, s)
		}
		return cur
	case *UnionVal:
		var r Value
		for i := len(pv.Alts) - 1; i >= 0; i-- {
			al := pv.Alts[i]
			ap := al.V.(*PtrVal)
			if ap.Obj == nil {
				in.panicIf(al.G, "nil-deref")
				continue
			}
			v := in.load(ap)
			if r == nil {
				r = v
			} else {
				r = in.merge(al.G, v, r)
			}
		}
		if r == nil {
			panic(killPath{})
		}
		return r
	}
	panic(in.unsupported("load through " + describe(p)))
}

func (in *Interp) update(cur Value, path []Sel, v Value, g *smt.Term) Value {
	if len(path) == 0 {
		return in.merge(g, v, cur)
	}
	s := path[0]
	switch x := cur.(type) {
	case *StructVal:
		f := make([]Value, len(x.F))
		copy(f, x.F)
		f[s.Idx] = in.update(x.F[s.Idx], path[1:], v, g)
		return &StructVal{F: f}
	case *ArrayVal:
		e := make([]Value, len(x.E))
		copy(e, x.E)
		if s.Sym == nil {
			if s.Idx < 0 || s.Idx >= len(x.E) {
				in.panicIf(in.St.T, "index")
			}
			e[s.Idx] = in.update(x.E[s.Idx], path[1:], v, g)
		} else {
			for k := range e {
				gk := in.St.And(g, in.St.Eq(s.Sym, in.St.BV(uint64(k), 64)))
				if !gk.IsFalse() {
					e[k] = in.update(x.E[k], path[1:], v, gk)
				}
			}
		}
		return &ArrayVal{E: e}
	}
	panic(in.unsupported("update of " + describe(cur)))
}

func (in *Interp) store(p Value, v Value) {
	switch pv := p.(type) {
	case *PtrVal:
		if pv.Obj == nil {
			in.panicIf(in.St.T, "nil-deref")
		}
		g := in.storeGuard(pv.Obj.birth)
		pv.Obj.Val = in.update(pv.Obj.Val, pv.Path, v, g)
		return
	case *UnionVal:
		for _, al := range pv.Alts {
			ap := al.V.(*PtrVal)
			if ap.Obj == nil {
				in.panicIf(al.G, "nil-deref")
				continue
			}
			in.push(al.G)
			in.store(ap, v)
			in.pop()
		}
		return
	}
	panic(in.unsupported("store through " + describe(p)))
}

// ---- frames and execution ----

type retExit struct {
	rel  *smt.Term
	vals Value
}

type Frame struct {
	fn     *ssa.Function
	base   int // guard stack depth at entry
	rets   []retExit
	forks  map[*ssa.BasicBlock]int
	defers []deferred
}

// deferred: a deferred call and the guard (relative to the frame) it was registered under. Every return path
// runs the whole list, each call under its registration guard, so a path that did not register it skips it.
type deferred struct {
	g   *smt.Term
	run func()
}

type Env map[ssa.Value]Value

type exit struct {
	env  Env
	pred *ssa.BasicBlock
	rel  *smt.Term
}

func (in *Interp) get(env Env, v ssa.Value) Value {
	switch x := v.(type) {
	case *ssa.Const:
		return in.constVal(x)
	case *ssa.Global:
		return &PtrVal{Obj: in.global(x)}
	case *ssa.Function:
		return &FuncVal{Fn: x}
	case *ssa.Builtin:
		return &HostVal{V: x}
	}
	r, ok := env[v]
	if !ok {
		panic(in.unsupported(fmt.Sprintf("use of undefined SSA value %s (%T) in %s", v.Name(), v, v.Parent())))
	}
	return r
}

func (in *Interp) global(g *ssa.Global) *Object {
	if o, ok := in.globals[g]; ok {
		return o
	}
	o := &Object{ID: -len(in.globals) - 1, Val: in.zero(g.Type().(*types.Pointer).Elem()), Name: g.String()}
	in.globals[g] = o
	return o
}

// Global returns the object of a package-level variable by package path and name.
func (in *Interp) Global(pkgPath, name string) *Object {
	pkg := in.P.Pkg(pkgPath)
	if pkg == nil {
		return nil
	}
	g, ok := pkg.Members[name].(*ssa.Global)
	if !ok {
		return nil
	}
	return in.global(g)
}

// CallFunction runs fn with the given arguments to completion and returns its
// (merged) result. Paths that panic are recorded/assumed away.
func (in *Interp) CallFunction(fn *ssa.Function, args []Value, closure []Value) Value {
	if fn.Blocks == nil {
		panic(in.unsupported("function without body: " + fn.String()))
	}
	in.depth++
	if in.depth > 200 {
		panic(in.unsupported("call depth exceeded in " + fn.String()))
	}
	defer func() { in.depth-- }()
	in.Stats.Calls++
	in.Stats.Funcs[fn.String()]++
	fr := &Frame{fn: fn, base: len(in.gs), forks: map[*ssa.BasicBlock]int{}}
	env := Env{}
	if len(args) != len(fn.Params) {
		panic(in.unsupported(fmt.Sprintf("call of %s with %d args, wants %d", fn, len(args), len(fn.Params))))
	}
	for i, p := range fn.Params {
		env[p] = args[i]
	}
	for i, fv := range fn.FreeVars {
		env[fv] = closure[i]
	}
	savedPos := in.curPos
	in.runPath(fr, env, fn.Blocks[0], nil, nil)
	in.curPos = savedPos
	if len(in.gs) != fr.base {
		// iterator guards left on the stack by an abnormal loop exit
		panic(in.unsupported(fmt.Sprintf("guard stack imbalance after %s", fn)))
	}
	if len(fr.rets) == 0 {
		panic(killPath{})
	}
	r := fr.rets[len(fr.rets)-1].vals
	for i := len(fr.rets) - 2; i >= 0; i-- {
		r = in.merge(fr.rets[i].rel, fr.rets[i].vals, r)
	}
	if len(fr.rets) > 1 {
		in.Stats.Merges++
	}
	return r
}

// runPath executes from blk (entered from pred) until stop is reached. It
// returns the exits at stop and whether some sub-path was lost (returned,
// panicked or died). The guard stack is restored before returning.
func (in *Interp) runPath(fr *Frame, env Env, blk, pred, stop *ssa.BasicBlock) (exits []exit, lost bool) {
	depth0 := len(in.gs)
	localRel := in.St.T
	phisDone := false
	finish := func(ex []exit, l bool) ([]exit, bool) {
		// pop everything pushed here (persistent join guards, iterator guards)
		for len(in.gs) > depth0 {
			in.pop()
		}
		for i := range ex {
			ex[i].rel = in.St.And(localRel, ex[i].rel)
		}
		return ex, l
	}
	defer func() {
		if r := recover(); r != nil {
			if _, ok := r.(killPath); ok {
				for len(in.gs) > depth0 {
					in.pop()
				}
				exits, lost = nil, true
				return
			}
			panic(r)
		}
	}()
	for {
		if blk == stop {
			return finish([]exit{{env: env, pred: pred, rel: in.St.T}}, lost)
		}
		// phis
		idx := 0
		if !phisDone {
			var vals []Value
			for _, ins := range blk.Instrs {
				phi, ok := ins.(*ssa.Phi)
				if !ok {
					break
				}
				k := -1
				for i, p := range blk.Preds {
					if p == pred {
						k = i
						break
					}
				}
				if k < 0 {
					panic(in.unsupported("phi without matching predecessor"))
				}
				vals = append(vals, in.get(env, phi.Edges[k]))
			}
			for i, v := range vals {
				env[blk.Instrs[i].(*ssa.Phi)] = v
			}
			idx = len(vals)
		} else {
			for idx < len(blk.Instrs) {
				if _, ok := blk.Instrs[idx].(*ssa.Phi); !ok {
					break
				}
				idx++
			}
		}
		phisDone = false
		var term ssa.Instruction
		for ; idx < len(blk.Instrs); idx++ {
			ins := blk.Instrs[idx]
			in.Stats.Instrs++
			if in.Stats.Instrs > in.MaxInstrs {
				panic(in.unsupported("instruction budget exceeded"))
			}
			if in.Stats.Instrs&1023 == 0 {
				in.checkDeadline()
			}
			if p := ins.Pos(); p.IsValid() {
				in.curPos = p
			}
			switch ins.(type) {
			case *ssa.If, *ssa.Jump, *ssa.Return, *ssa.Panic:
				term = ins
			default:
				in.exec(fr, env, ins)
			}
		}
		switch t := term.(type) {
		case *ssa.Jump:
			pred, blk = blk, blk.Succs[0]
		case *ssa.Return:
			var rv Value
			switch len(t.Results) {
			case 0:
				rv = &TupleVal{}
			case 1:
				rv = in.get(env, t.Results[0])
			default:
				tv := make([]Value, len(t.Results))
				for i, r := range t.Results {
					tv[i] = in.get(env, r)
				}
				rv = &TupleVal{E: tv}
			}
			// (deferred calls have run: go/ssa emits RunDefers before every Return of a function with defers)
			// iterator guards still pushed in this frame make the relative guard wrong
			for i := fr.base; i < len(in.gs); i++ {
				if in.gs[i].iter {
					panic(in.unsupported("return inside a loop over a map with symbolic presence"))
				}
			}
			fr.rets = append(fr.rets, retExit{rel: in.guardSince(fr.base), vals: rv})
			return finish(nil, true)
		case *ssa.Panic:
			in.curPos = t.Pos()
			in.panicIf(in.St.T, "explicit-panic")
			return finish(nil, true)
		case *ssa.If:
			cv := in.get(env, t.Cond)
			c, ok := cv.(*smt.Term)
			if !ok {
				panic(in.unsupported("branch on " + describe(cv)))
			}
			if c.IsConst() {
				if c.Val == 1 {
					pred, blk = blk, blk.Succs[0]
				} else {
					pred, blk = blk, blk.Succs[1]
				}
				continue
			}
			tOK := in.feasible(c)
			fOK := in.feasible(in.St.Not(c))
			if !tOK && !fOK {
				return finish(nil, true)
			}
			if !fOK {
				pred, blk = blk, blk.Succs[0]
				continue
			}
			if !tOK {
				pred, blk = blk, blk.Succs[1]
				continue
			}
			fr.forks[blk]++
			if fr.forks[blk] > in.MaxUnwind {
				in.Stats.Unwind = append(in.Stats.Unwind, fmt.Sprintf("%s block %d", fr.fn, blk.Index))
				in.AddObligation(&Obligation{Kind: "unwind", Tag: fr.fn.String(), Pos: in.posStr(in.curPos), Guard: in.Guard(), Cond: in.St.F})
				in.assume(in.St.F)
				return finish(nil, true)
			}
			in.Stats.Forks++
			P := in.P.ipdom(blk)
			if P == nil && in.P.postDominates(blk, blk.Succs[0]) && in.P.postDominates(blk, blk.Succs[1]) {
				// the branching block is the header of an endless loop and both arms come back to it: they
				// join there, at the start of the next iteration
				P = blk
			}
			rseg := in.raceFork()
			in.push(c)
			exT, lostT := in.runPath(fr, copyEnv(env), blk.Succs[0], blk, P)
			in.pop()
			rsegT := in.raceArm(rseg)
			in.push(in.St.Not(c))
			exE, lostE := in.runPath(fr, env, blk.Succs[1], blk, P)
			in.pop()
			in.raceJoin(rseg, rsegT)
			var all []exit
			for _, e := range exT {
				e.rel = in.St.And(c, e.rel)
				all = append(all, e)
			}
			for _, e := range exE {
				e.rel = in.St.And(in.St.Not(c), e.rel)
				all = append(all, e)
			}
			if lostT || lostE {
				lost = true
			}
			if len(all) == 0 || P == nil {
				return finish(nil, true)
			}
			if P == stop {
				return finish(all, lost)
			}
			// join at P: evaluate phis per exit, merge environments
			for i := range all {
				in.evalPhis(all[i].env, P, all[i].pred)
			}
			env = in.mergeEnvs(all)
			in.Stats.Merges++
			if lostT || lostE {
				jr := in.St.F
				for _, e := range all {
					jr = in.St.Or(jr, e.rel)
				}
				if !jr.IsTrue() {
					in.push(jr)
					localRel = in.St.And(localRel, jr)
				}
			}
			pred, blk = all[0].pred, P
			phisDone = true
		default:
			panic(in.unsupported(fmt.Sprintf("block without terminator in %s", fr.fn)))
		}
	}
}

func copyEnv(e Env) Env {
	n := make(Env, len(e)+8)
	for k, v := range e {
		n[k] = v
	}
	return n
}

func (in *Interp) evalPhis(env Env, blk, pred *ssa.BasicBlock) {
	var vals []Value
	for _, ins := range blk.Instrs {
		phi, ok := ins.(*ssa.Phi)
		if !ok {
			break
		}
		k := -1
		for i, p := range blk.Preds {
			if p == pred {
				k = i
				break
			}
		}
		if k < 0 {
			panic(in.unsupported("phi without matching predecessor"))
		}
		vals = append(vals, in.get(env, phi.Edges[k]))
	}
	for i, v := range vals {
		env[blk.Instrs[i].(*ssa.Phi)] = v
	}
}

func (in *Interp) mergeEnvs(all []exit) Env {
	if len(all) == 1 {
		return all[0].env
	}
	res := all[len(all)-1].env
	for i := len(all) - 2; i >= 0; i-- {
		e := all[i]
		for k, v := range e.env {
			if rv, ok := res[k]; ok {
				if rv != v {
					res[k] = in.merge(e.rel, v, rv)
				}
			} else {
				res[k] = v
			}
		}
	}
	return res
}

// constVal converts an SSA constant.
func (in *Interp) constVal(c *ssa.Const) Value {
	t := c.Type()
	if c.Value == nil {
		return in.zero(t)
	}
	if w, signed, ok := intInfo(t); ok {
		if w == 0 {
			return in.St.Bool(constantBool(c))
		}
		if signed {
			return in.St.BV(uint64(c.Int64()), w)
		}
		return in.St.BV(c.Uint64(), w)
	}
	if isString(t) {
		return &StrVal{C: constantString(c)}
	}
	if isFloat(t) {
		return &FloatVal{F: c.Float64()}
	}
	panic(in.unsupported("constant of type " + t.String()))
}

// SortedFuncs lists the functions entered, for evidence.
func (in *Interp) SortedFuncs() []string {
	var r []string
	for f := range in.Stats.Funcs {
		r = append(r, f)
	}
	sort.Strings(r)
	return r
}
