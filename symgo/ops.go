package symgo

import (
	"fmt"
	"go/token"
	"go/types"
	"math"
	"sort"
	"strings"

	"golang.org/x/tools/go/ssa"

	"verif/smt"
)

func (in *Interp) binop(op token.Token, x, y Value, xt, yt types.Type) Value {
	if _, ok := x.(*UnionVal); ok {
		return in.mapAlts(x, func(v Value) Value { return in.binop(op, v, y, xt, yt) })
	}
	if _, ok := y.(*UnionVal); ok {
		return in.mapAlts(y, func(v Value) Value { return in.binop(op, x, v, xt, yt) })
	}
	if r, ok := in.realBinop(op, x, y); ok {
		return r
	}
	switch op {
	case token.EQL:
		return in.equal(x, y)
	case token.NEQ:
		return in.St.Not(in.equal(x, y))
	}
	switch a := x.(type) {
	case *smt.Term:
		b, ok := y.(*smt.Term)
		if !ok {
			break
		}
		if a.W == 0 { // bool ops
			switch op {
			case token.AND, token.LAND:
				return in.St.And(a, b)
			case token.OR, token.LOR:
				return in.St.Or(a, b)
			case token.XOR:
				return in.St.Not(in.St.Eq(a, b))
			}
			break
		}
		_, signed, _ := intInfo(xt)
		st := in.St
		switch op {
		case token.ADD:
			return st.Bin(smt.OpBvAdd, a, b)
		case token.SUB:
			return st.Bin(smt.OpBvSub, a, b)
		case token.MUL:
			return in.liftMul(smt.OpBvMul, a, b)
		case token.QUO:
			in.panicIf(st.Eq(b, st.BV(0, b.W)), "div-by-zero")
			if signed {
				return in.liftMul(smt.OpBvSdiv, a, b)
			}
			return in.liftMul(smt.OpBvUdiv, a, b)
		case token.REM:
			in.panicIf(st.Eq(b, st.BV(0, b.W)), "div-by-zero")
			if signed {
				return in.liftMul(smt.OpBvSrem, a, b)
			}
			return in.liftMul(smt.OpBvUrem, a, b)
		case token.AND:
			return st.Bin(smt.OpBvAnd, a, b)
		case token.OR:
			return st.Bin(smt.OpBvOr, a, b)
		case token.XOR:
			return st.Bin(smt.OpBvXor, a, b)
		case token.AND_NOT:
			return st.Bin(smt.OpBvAnd, a, st.BvNot(b))
		case token.SHL, token.SHR:
			// shift count: unsigned or (checked) signed, any width
			_, ys, _ := intInfo(yt)
			if ys {
				in.panicIf(st.Cmp(smt.OpBvSlt, b, st.BV(0, b.W)), "negative-shift")
			}
			var cnt *smt.Term
			if b.W > a.W {
				// saturate: count >= width behaves the same for all large counts
				big := st.Cmp(smt.OpBvUle, st.BV(uint64(a.W), b.W), b)
				cnt = st.Ite(big, st.BV(uint64(a.W), a.W), st.Extract(a.W-1, 0, b))
				if a.W < 8 {
					panic(in.unsupported("shift of narrow value"))
				}
			} else {
				cnt = st.Zext(a.W-b.W, b)
			}
			if op == token.SHL {
				return st.Bin(smt.OpBvShl, a, cnt)
			}
			if signed {
				return st.Bin(smt.OpBvAshr, a, cnt)
			}
			return st.Bin(smt.OpBvLshr, a, cnt)
		case token.LSS:
			if signed {
				return st.Cmp(smt.OpBvSlt, a, b)
			}
			return st.Cmp(smt.OpBvUlt, a, b)
		case token.LEQ:
			if signed {
				return st.Cmp(smt.OpBvSle, a, b)
			}
			return st.Cmp(smt.OpBvUle, a, b)
		case token.GTR:
			if signed {
				return st.Cmp(smt.OpBvSlt, b, a)
			}
			return st.Cmp(smt.OpBvUlt, b, a)
		case token.GEQ:
			if signed {
				return st.Cmp(smt.OpBvSle, b, a)
			}
			return st.Cmp(smt.OpBvUle, b, a)
		}
	case *StrVal:
		b, ok := y.(*StrVal)
		if !ok {
			break
		}
		switch op {
		case token.ADD:
			return in.strConcat(a, b)
		case token.LSS, token.LEQ, token.GTR, token.GEQ:
			ac, ok1 := a.Concrete()
			bc, ok2 := b.Concrete()
			if ok1 && ok2 {
				switch op {
				case token.LSS:
					return in.St.Bool(ac < bc)
				case token.LEQ:
					return in.St.Bool(ac <= bc)
				case token.GTR:
					return in.St.Bool(ac > bc)
				case token.GEQ:
					return in.St.Bool(ac >= bc)
				}
			}
		}
	case *FloatVal:
		b, ok := y.(*FloatVal)
		if !ok {
			break
		}
		f32 := false
		if bt, ok := under(xt).(*types.Basic); ok && bt.Kind() == types.Float32 {
			f32 = true
		}
		rnd := func(f float64) Value {
			if f32 {
				return &FloatVal{F: float64(float32(f))}
			}
			return &FloatVal{F: f}
		}
		switch op {
		case token.ADD:
			return rnd(a.F + b.F)
		case token.SUB:
			return rnd(a.F - b.F)
		case token.MUL:
			return rnd(a.F * b.F)
		case token.QUO:
			return rnd(a.F / b.F)
		case token.LSS:
			return in.St.Bool(a.F < b.F)
		case token.LEQ:
			return in.St.Bool(a.F <= b.F)
		case token.GTR:
			return in.St.Bool(a.F > b.F)
		case token.GEQ:
			return in.St.Bool(a.F >= b.F)
		}
	}
	panic(in.unsupported(fmt.Sprintf("binop %s on %s, %s", op, describe(x), describe(y))))
}

// liftMul distributes an expensive operator over the operands' ite trees down
// to leaf pairs (bounded), so that multipliers never sit behind multiplexers.
func (in *Interp) liftMul(op smt.Op, a, b *smt.Term) *smt.Term {
	return LiftBin(in.St, op, a, b, 6)
}

// LiftBin is exported for the Verilog side, which must build the same shape.
func LiftBin(st *smt.Store, op smt.Op, a, b *smt.Term, depth int) *smt.Term {
	if depth > 0 && !a.IsConst() && a.Op == smt.OpIte {
		return st.Ite(a.Args[0], LiftBin(st, op, a.Args[1], b, depth-1), LiftBin(st, op, a.Args[2], b, depth-1))
	}
	if depth > 0 && !b.IsConst() && b.Op == smt.OpIte {
		return st.Ite(b.Args[0], LiftBin(st, op, a, b.Args[1], depth-1), LiftBin(st, op, a, b.Args[2], depth-1))
	}
	return st.Bin(op, a, b)
}

func (in *Interp) strConcat(a, b *StrVal) *StrVal {
	if a.Opaque || b.Opaque {
		return &StrVal{Opaque: true, C: "?"}
	}
	if a.B == nil && b.B == nil {
		return &StrVal{C: a.C + b.C}
	}
	r := append(append([]*smt.Term{}, in.strBytes(a)...), in.strBytes(b)...)
	return in.mkStr(r)
}

func (in *Interp) strEq(a, b *StrVal) *smt.Term {
	if a.Opaque || b.Opaque {
		panic(in.unsupported("comparison of an opaque (formatted symbolic) string"))
	}
	if a.Len() != b.Len() {
		return in.St.F
	}
	if a.B == nil && b.B == nil {
		return in.St.Bool(a.C == b.C)
	}
	ab, bb := in.strBytes(a), in.strBytes(b)
	r := in.St.T
	for i := range ab {
		r = in.St.And(r, in.St.Eq(ab[i], bb[i]))
	}
	return r
}

// equal builds the Go == relation on two values of the same static type (or
// interface vs. anything).
func (in *Interp) equal(x, y Value) *smt.Term {
	st := in.St
	if u, ok := x.(*UnionVal); ok {
		r := st.F
		for _, al := range u.Alts {
			r = st.Or(r, st.And(al.G, in.equal(al.V, y)))
		}
		return r
	}
	if _, ok := y.(*UnionVal); ok {
		return in.equal(y, x)
	}
	if isRealTerm(x) || isRealTerm(y) {
		a, ok1 := in.realOf(x)
		b, ok2 := in.realOf(y)
		if ok1 && ok2 {
			return st.Eq(a, b)
		}
	}
	switch a := x.(type) {
	case *smt.Term:
		if b, ok := y.(*smt.Term); ok && a.W == b.W {
			return st.Eq(a, b)
		}
	case *StrVal:
		if b, ok := y.(*StrVal); ok {
			return in.strEq(a, b)
		}
	case *FloatVal:
		if b, ok := y.(*FloatVal); ok {
			return st.Bool(a.F == b.F)
		}
	case *PtrVal:
		if b, ok := y.(*PtrVal); ok {
			if a.Obj != b.Obj || len(a.Path) != len(b.Path) {
				return st.F
			}
			r := st.T
			for i := range a.Path {
				r = st.And(r, st.Eq(in.selTerm(a.Path[i]), in.selTerm(b.Path[i])))
			}
			return r
		}
	case *SliceVal:
		if b, ok := y.(*SliceVal); ok && (a.Obj == nil || b.Obj == nil) {
			return st.Bool(a.Obj == nil && b.Obj == nil)
		}
	case *MapVal:
		if b, ok := y.(*MapVal); ok {
			return st.Bool(a.M == b.M)
		}
	case *ChanVal:
		if b, ok := y.(*ChanVal); ok {
			return st.Bool(a.C == b.C)
		}
	case *FuncVal:
		if b, ok := y.(*FuncVal); ok && (a.Fn == nil || b.Fn == nil) {
			return st.Bool(a.Fn == nil && b.Fn == nil)
		}
	case *IfaceVal:
		b, ok := y.(*IfaceVal)
		if !ok {
			break
		}
		if a.T == nil || b.T == nil {
			return st.Bool(a.T == nil && b.T == nil)
		}
		if !types.Identical(a.T, b.T) {
			return st.F
		}
		return in.equal(a.V, b.V)
	case *StructVal:
		if b, ok := y.(*StructVal); ok && len(a.F) == len(b.F) {
			r := st.T
			for i := range a.F {
				r = st.And(r, in.equal(a.F[i], b.F[i]))
			}
			return r
		}
	case *ArrayVal:
		if b, ok := y.(*ArrayVal); ok && len(a.E) == len(b.E) {
			r := st.T
			for i := range a.E {
				r = st.And(r, in.equal(a.E[i], b.E[i]))
			}
			return r
		}
	case *HostVal:
		if b, ok := y.(*HostVal); ok {
			return st.Bool(a.V == b.V)
		}
	}
	panic(in.unsupported(fmt.Sprintf("== on %s, %s", describe(x), describe(y))))
}

func (in *Interp) unop(i *ssa.UnOp, x Value) Value {
	switch i.Op {
	case token.MUL:
		return in.load(x)
	case token.ARROW:
		return in.chanRecv(x, i.CommaOk, i.Type())
	}
	if _, ok := x.(*UnionVal); ok {
		return in.mapAlts(x, func(v Value) Value { return in.unop(i, v) })
	}
	switch a := x.(type) {
	case *smt.Term:
		switch i.Op {
		case token.NOT:
			return in.St.Not(a)
		case token.SUB:
			if a.IsReal() {
				return in.St.RNeg(a)
			}
			return in.St.BvNeg(a)
		case token.XOR:
			return in.St.BvNot(a)
		}
	case *FloatVal:
		if i.Op == token.SUB {
			return &FloatVal{F: -a.F}
		}
	}
	panic(in.unsupported(fmt.Sprintf("unop %s on %s", i.Op, describe(x))))
}

func (in *Interp) convert(x Value, from, to types.Type) Value {
	if _, ok := x.(*UnionVal); ok {
		return in.mapAlts(x, func(v Value) Value { return in.convert(v, from, to) })
	}
	fw, fsigned, fint := intInfo(from)
	tw, tsigned, tint := intInfo(to)
	_ = tsigned
	switch a := x.(type) {
	case *smt.Term:
		if a.IsReal() && isFloat(to) {
			return a // float32 <-> float64 of an exact real: rounding not modelled
		}
		if fint && tint && fw > 0 && tw > 0 {
			return in.St.Resize(a, tw, fsigned)
		}
		if fint && isString(to) {
			// string(rune)
			if a.IsConst() {
				return &StrVal{C: string(rune(a.Val))}
			}
			in.panicIf(in.St.Cmp(smt.OpBvUle, in.St.BV(0x80, a.W), a), "non-ascii-rune")
			return in.mkStr([]*smt.Term{in.St.Resize(a, 8, false)})
		}
		if fint && isFloat(to) {
			if a.IsConst() {
				var f float64
				if fsigned {
					f = float64(int64(signExtend(a.Val, a.W)))
				} else {
					f = float64(a.Val)
				}
				if under(to).(*types.Basic).Kind() == types.Float32 {
					f = float64(float32(f))
				}
				return &FloatVal{F: f}
			}
		}
	case *FloatVal:
		if isFloat(to) {
			if under(to).(*types.Basic).Kind() == types.Float32 {
				return &FloatVal{F: float64(float32(a.F))}
			}
			return a
		}
		if tint && tw > 0 {
			if tsigned {
				return in.St.BV(uint64(int64(a.F)), tw)
			}
			if a.F < 0 {
				return in.St.BV(uint64(int64(a.F)), tw)
			}
			return in.St.BV(uint64(a.F), tw)
		}
	case *StrVal:
		if isString(to) {
			return a
		}
		if sl, ok := under(to).(*types.Slice); ok {
			if a.Opaque {
				panic(in.unsupported("conversion of opaque string"))
			}
			if b, ok := under(sl.Elem()).(*types.Basic); ok && b.Kind() == types.Uint8 {
				bs := in.strBytes(a)
				e := make([]Value, len(bs))
				for k := range bs {
					e[k] = bs[k]
				}
				return in.mkSlice(e)
			}
			if b, ok := under(sl.Elem()).(*types.Basic); ok && b.Kind() == types.Int32 {
				if c, ok := a.Concrete(); ok {
					var e []Value
					for _, r := range c {
						e = append(e, in.St.BV(uint64(r), 32))
					}
					return in.mkSlice(e)
				}
			}
		}
	case *SliceVal:
		if isString(to) {
			el := in.sliceElems(a)
			bs := make([]*smt.Term, len(el))
			for k := range el {
				t, ok := el[k].(*smt.Term)
				if !ok || t.W != 8 {
					panic(in.unsupported("string([]rune)"))
				}
				bs[k] = t
			}
			return in.mkStr(bs)
		}
		return a
	case *PtrVal:
		return a // unsafe.Pointer conversions etc.
	}
	if types.Identical(under(from), under(to)) {
		return x
	}
	panic(in.unsupported(fmt.Sprintf("convert %s from %s to %s", describe(x), from, to)))
}

func signExtend(v uint64, w int) uint64 {
	if w >= 64 {
		return v
	}
	if v&(1<<uint(w-1)) != 0 {
		return v | ^((uint64(1) << uint(w)) - 1)
	}
	return v
}

// sortEntries orders map entries deterministically when keys are concrete.
func (in *Interp) sortEntries(es []*MapEntry) {
	keyOf := func(e *MapEntry) (string, bool) {
		switch k := e.K.(type) {
		case *StrVal:
			if c, ok := k.Concrete(); ok {
				return "s" + c, true
			}
		case *smt.Term:
			if k.IsConst() {
				return fmt.Sprintf("i%020d", k.Val), true
			}
		}
		return "", false
	}
	for _, e := range es {
		if _, ok := keyOf(e); !ok {
			return
		}
	}
	sort.SliceStable(es, func(i, j int) bool {
		a, _ := keyOf(es[i])
		b, _ := keyOf(es[j])
		return a < b
	})
}

var _ = math.Abs
var _ = strings.ToLower
