package symgo

import (
	"fmt"

	"verif/smt"
)

// Hidden mutable state: scalar cells reachable through pointers from a root
// value (e.g. the *bool inside the opcode singletons of procbuilder.Allopcodes).

type cellRef struct {
	obj  *Object
	path []Sel
}

func (in *Interp) hiddenCells(root Value) []cellRef {
	var out []cellRef
	seen := map[*Object]bool{}
	var walkVal func(v Value)
	var walkObj func(o *Object, v Value, path []Sel)
	walkObj = func(o *Object, v Value, path []Sel) {
		switch x := v.(type) {
		case *smt.Term:
			out = append(out, cellRef{o, append([]Sel{}, path...)})
		case *StructVal:
			for i, f := range x.F {
				walkObj(o, f, append(path, Sel{Idx: i}))
			}
		case *ArrayVal:
			for i, f := range x.E {
				walkObj(o, f, append(path, Sel{Idx: i}))
			}
		default:
			walkVal(v)
		}
	}
	walkVal = func(v Value) {
		switch x := v.(type) {
		case *PtrVal:
			if x.Obj != nil && !seen[x.Obj] {
				seen[x.Obj] = true
				cur := x.Obj.Val
				walkObj(x.Obj, cur, nil)
			}
		case *SliceVal:
			if x.Obj != nil {
				for _, e := range in.sliceElems(x) {
					walkVal(e)
				}
			}
		case *StructVal:
			for _, f := range x.F {
				walkVal(f)
			}
		case *ArrayVal:
			for _, f := range x.E {
				walkVal(f)
			}
		case *IfaceVal:
			if x.T != nil {
				walkVal(x.V)
			}
		case *UnionVal:
			for _, a := range x.Alts {
				walkVal(a.V)
			}
		}
	}
	walkVal(root)
	return out
}

func unwrapIface(v Value) Value {
	if iv, ok := v.(*IfaceVal); ok && iv.T != nil {
		return iv.V
	}
	return v
}

// zzHavocHidden(root, tag) int: every hidden cell gets a fresh symbolic value.
func (in *Interp) havocHidden(root Value, tag string) Value {
	cells := in.hiddenCells(unwrapIface(root))
	for i, c := range cells {
		old := in.load(&PtrVal{Obj: c.obj, Path: c.path}).(*smt.Term)
		v := in.St.Var(fmt.Sprintf("%s#%d", tag, i), old.W)
		in.Nondets = append(in.Nondets, v)
		in.store(&PtrVal{Obj: c.obj, Path: c.path}, v)
	}
	return in.St.BV(uint64(len(cells)), 64)
}

// zzSnapshotHidden(root) []uint64
func (in *Interp) snapshotHidden(root Value) Value {
	cells := in.hiddenCells(unwrapIface(root))
	e := make([]Value, len(cells))
	for i, c := range cells {
		t := in.load(&PtrVal{Obj: c.obj, Path: c.path}).(*smt.Term)
		if t.W == 0 {
			t = in.St.Ite(t, in.St.BV(1, 64), in.St.BV(0, 64))
		} else {
			t = in.St.Resize(t, 64, false)
		}
		e[i] = t
	}
	return in.mkSlice(e)
}

// zzRestoreHidden(root, vals)
func (in *Interp) restoreHidden(root Value, vals Value) {
	cells := in.hiddenCells(unwrapIface(root))
	sl, ok := vals.(*SliceVal)
	if !ok {
		panic(in.unsupported("zzRestoreHidden: values are not a slice"))
	}
	vs := in.sliceElems(sl)
	if len(vs) != len(cells) {
		panic(in.unsupported("zzRestoreHidden: cell count changed"))
	}
	for i, c := range cells {
		old := in.load(&PtrVal{Obj: c.obj, Path: c.path}).(*smt.Term)
		t := vs[i].(*smt.Term)
		if old.W == 0 {
			in.store(&PtrVal{Obj: c.obj, Path: c.path}, in.St.Ne(t, in.St.BV(0, 64)))
		} else {
			in.store(&PtrVal{Obj: c.obj, Path: c.path}, in.St.Resize(t, old.W, false))
		}
	}
}
