package symgo

import (
	"fmt"
	"go/token"
	"go/types"

	"golang.org/x/tools/go/ssa"

	"verif/smt"
)

func (in *Interp) exec(fr *Frame, env Env, ins ssa.Instruction) {
	switch i := ins.(type) {
	case *ssa.DebugRef:
	case *ssa.Alloc:
		o := in.newObject(in.zero(i.Type().(*types.Pointer).Elem()), i.Comment)
		env[i] = &PtrVal{Obj: o}
	case *ssa.BinOp:
		env[i] = in.binop(i.Op, in.get(env, i.X), in.get(env, i.Y), i.X.Type(), i.Y.Type())
	case *ssa.UnOp:
		if i.Op == token.MUL {
			in.raceAccess(in.get(env, i.X), false)
		}
		env[i] = in.unop(i, in.get(env, i.X))
	case *ssa.Call:
		env[i] = in.call(fr, env, &i.Call, i)
	case *ssa.ChangeInterface:
		env[i] = in.get(env, i.X)
	case *ssa.ChangeType:
		env[i] = in.get(env, i.X)
	case *ssa.Convert:
		env[i] = in.convert(in.get(env, i.X), i.X.Type(), i.Type())
	case *ssa.Extract:
		tv := in.get(env, i.Tuple)
		env[i] = in.extract(tv, i.Index)
	case *ssa.Field:
		sv := in.get(env, i.X)
		env[i] = in.mapAlts(sv, func(v Value) Value { return v.(*StructVal).F[i.Field] })
	case *ssa.FieldAddr:
		env[i] = in.fieldAddr(in.get(env, i.X), i.Field)
	case *ssa.Index:
		env[i] = in.indexValue(in.get(env, i.X), in.get(env, i.Index), i.Index.Type())
	case *ssa.IndexAddr:
		env[i] = in.indexAddr(in.get(env, i.X), in.get(env, i.Index), i.Index.Type())
	case *ssa.Lookup:
		in.raceMap(in.get(env, i.X), false)
		env[i] = in.lookup(in.get(env, i.X), in.get(env, i.Index), i.Index.Type(), i.CommaOk, i.X.Type())
	case *ssa.MakeChan:
		in.nobj++
		env[i] = &ChanVal{C: &ChanObj{ID: in.nobj, Cap: in.concreteInt(in.get(env, i.Size), "make chan size")}}
	case *ssa.MakeClosure:
		b := make([]Value, len(i.Bindings))
		for k, x := range i.Bindings {
			b[k] = in.get(env, x)
		}
		env[i] = &FuncVal{Fn: i.Fn.(*ssa.Function), Env: b}
	case *ssa.MakeInterface:
		env[i] = &IfaceVal{T: i.X.Type(), V: in.get(env, i.X)}
	case *ssa.MakeMap:
		mt := under(i.Type()).(*types.Map)
		in.nobj++
		env[i] = &MapVal{M: &MapObj{ID: in.nobj, birth: in.birth(), KT: mt.Key(), VT: mt.Elem()}}
	case *ssa.MakeSlice:
		n := in.concreteInt(in.get(env, i.Len), "make len")
		c := in.concreteInt(in.get(env, i.Cap), "make cap")
		et := under(i.Type()).(*types.Slice).Elem()
		e := make([]Value, c)
		if c > 0 {
			z := in.zero(et)
			for k := range e {
				e[k] = z
			}
		}
		o := in.newObject(&ArrayVal{E: e}, "makeslice")
		env[i] = &SliceVal{Obj: o, Off: 0, Len: n, Cap: c}
	case *ssa.MapUpdate:
		in.raceMap(in.get(env, i.Map), true)
		in.mapUpdate(in.get(env, i.Map), in.get(env, i.Key), in.get(env, i.Value))
	case *ssa.Range:
		in.raceMap(in.get(env, i.X), false)
		env[i] = in.rangeStart(in.get(env, i.X))
	case *ssa.Next:
		env[i] = in.next(in.get(env, i.Iter).(*IterVal), i)
	case *ssa.Slice:
		env[i] = in.sliceOp(i, env)
	case *ssa.Store:
		in.raceAccess(in.get(env, i.Addr), true)
		in.store(in.get(env, i.Addr), in.get(env, i.Val))
	case *ssa.TypeAssert:
		env[i] = in.typeAssert(in.get(env, i.X), i)
	case *ssa.Go:
		in.goStmt(fr, env, i)
	case *ssa.Send:
		in.chanSend(in.get(env, i.Chan), in.get(env, i.X))
	case *ssa.Select:
		env[i] = in.selectStmt(env, i)
	case *ssa.Defer:
		c := i.Call
		fv, args := in.prepareCall(env, &c)
		fr.defers = append(fr.defers, deferred{g: in.guardSince(fr.base), run: func() { in.invoke(fv, args, &c) }})
	case *ssa.RunDefers:
		// the list is kept: the arms of a symbolic branch reach their own RunDefers one after the other, and each
		// must run the calls registered before the branch (under its own path guard)
		for k := len(fr.defers) - 1; k >= 0; k-- {
			d := fr.defers[k]
			if d.g.IsTrue() {
				d.run()
				continue
			}
			if in.St.And(in.Guard(), d.g).IsFalse() || !in.feasible(d.g) {
				continue // registered on another path
			}
			// like `if g { call }`: the call's synchronisation events belong to this arm (race.go)
			rseg := in.raceFork()
			depth := len(in.gs)
			in.push(d.g)
			func() {
				defer func() {
					for len(in.gs) > depth {
						in.pop()
					}
					if r := recover(); r != nil {
						if _, isKill := r.(killPath); !isKill {
							panic(r)
						}
					}
				}()
				d.run()
			}()
			in.raceJoin(rseg, in.raceArm(rseg))
		}
	default:
		panic(in.unsupported(fmt.Sprintf("instruction %T", ins)))
	}
}

// tryAlt runs f under guard g; a path death inside only drops this alternative.
func (in *Interp) tryAlt(g *smt.Term, f func() Value) (res Value, ok bool) {
	depth := len(in.gs)
	in.push(g)
	ev := in.raceEvents()
	defer func() {
		for len(in.gs) > depth {
			in.pop()
		}
		if r := recover(); r != nil {
			if _, isKill := r.(killPath); isKill {
				res, ok = nil, false
				return
			}
			panic(r)
		}
	}()
	res, ok = f(), true
	if in.raceEvents() != ev {
		panic(in.unsupported("synchronisation inside an alternative of a union value while race obligations are recorded"))
	}
	return res, ok
}

// mapAlts applies a function to every alternative of a (possibly union) value,
// each under its guard, and merges the results.
func (in *Interp) mapAlts(v Value, f func(Value) Value) Value {
	u, ok := v.(*UnionVal)
	if !ok {
		return f(v)
	}
	var r Value
	first := true
	for k := len(u.Alts) - 1; k >= 0; k-- {
		al := u.Alts[k]
		x, ok := in.tryAlt(al.G, func() Value { return f(al.V) })
		if !ok {
			continue
		}
		if first {
			r = x
			first = false
		} else {
			r = in.merge(al.G, x, r)
		}
	}
	if first {
		panic(killPath{})
	}
	return r
}

// forAlts is mapAlts for effectful functions: infeasible alternatives are skipped.
func (in *Interp) forAlts(v Value, f func(Value) Value) Value {
	u, ok := v.(*UnionVal)
	if !ok {
		return f(v)
	}
	var r Value
	first := true
	for k := len(u.Alts) - 1; k >= 0; k-- {
		al := u.Alts[k]
		if !in.feasible(al.G) {
			continue
		}
		x, ok := in.tryAlt(al.G, func() Value { return f(al.V) })
		if !ok {
			continue
		}
		if first {
			r = x
			first = false
		} else if x != nil && r != nil {
			r = in.merge(al.G, x, r)
		}
	}
	if first {
		panic(killPath{})
	}
	return r
}

func (in *Interp) extract(tv Value, idx int) Value {
	return in.mapAlts(tv, func(v Value) Value { return v.(*TupleVal).E[idx] })
}

func (in *Interp) concreteInt(v Value, what string) int {
	t, ok := v.(*smt.Term)
	if !ok || !t.IsConst() {
		// try to concretise through the solver: unique value on this path?
		if ok {
			if in.Sol.Check(in.Guard()) == smt.Unsat {
				panic(killPath{}) // this alternative / path cannot occur
			}
			if k, uniq := in.uniqueValue(t); uniq {
				return int(int64(k))
			}
		}
		panic(in.unsupported("symbolic " + what))
	}
	if t.W == 64 {
		return int(int64(t.Val))
	}
	return int(t.Val)
}

// uniqueValue asks the solver for a value of t and whether it is the only one on this path.
func (in *Interp) uniqueValue(t *smt.Term) (uint64, bool) {
	if in.Sol.Check(in.Guard()) != smt.Sat {
		return 0, false
	}
	// find vars under t
	vars := collectVars(t)
	m, err := in.Sol.Model(vars)
	if err != nil {
		return 0, false
	}
	v, ok := in.St.Eval(t, m, map[*smt.Term]uint64{})
	if !ok {
		return 0, false
	}
	if in.Sol.Check(in.Guard(), in.St.Ne(t, in.St.BV(v, t.W))) == smt.Unsat {
		return v, true
	}
	return 0, false
}

func collectVars(t *smt.Term) []*smt.Term {
	seen := map[*smt.Term]bool{}
	var vars []*smt.Term
	var rec func(*smt.Term)
	rec = func(x *smt.Term) {
		if seen[x] {
			return
		}
		seen[x] = true
		if x.Op == smt.OpVar {
			vars = append(vars, x)
		}
		for _, a := range x.Args {
			rec(a)
		}
	}
	rec(t)
	return vars
}

func (in *Interp) fieldAddr(p Value, field int) Value {
	return in.mapAlts(p, func(v Value) Value {
		pv := v.(*PtrVal)
		if pv.Obj == nil {
			in.panicIf(in.St.T, "nil-deref")
		}
		np := make([]Sel, len(pv.Path)+1)
		copy(np, pv.Path)
		np[len(pv.Path)] = Sel{Idx: field}
		return &PtrVal{Obj: pv.Obj, Path: np}
	})
}

// idx64 converts an index value of the given type to a 64-bit term.
func (in *Interp) idx64(iv Value, it types.Type) *smt.Term {
	t, ok := iv.(*smt.Term)
	if !ok {
		panic(in.unsupported("index is " + describe(iv)))
	}
	_, signed, _ := intInfo(it)
	return in.St.Resize(t, 64, signed)
}

func (in *Interp) boundsCheck(idx *smt.Term, n int) {
	// unsigned compare covers negative indices
	in.panicIf(in.St.Not(in.St.Cmp(smt.OpBvUlt, idx, in.St.BV(uint64(n), 64))), "index")
}

func (in *Interp) indexAddr(x Value, iv Value, it types.Type) Value {
	idx := in.idx64(iv, it)
	return in.mapAlts(x, func(v Value) Value {
		switch a := v.(type) {
		case *SliceVal:
			if a.SymLen != nil {
				panic(in.unsupported("indexing a slice of symbolic length"))
			}
			in.boundsCheck(idx, a.Len)
			if idx.IsConst() {
				return &PtrVal{Obj: a.Obj, Path: []Sel{{Idx: a.Off + int(idx.Val)}}}
			}
			s := idx
			if a.Off != 0 {
				s = in.St.Bin(smt.OpBvAdd, idx, in.St.BV(uint64(a.Off), 64))
			}
			return &PtrVal{Obj: a.Obj, Path: []Sel{{Sym: s}}}
		case *PtrVal: // pointer to array
			if a.Obj == nil {
				in.panicIf(in.St.T, "nil-deref")
			}
			arr := in.load(a).(*ArrayVal)
			in.boundsCheck(idx, len(arr.E))
			np := make([]Sel, len(a.Path)+1)
			copy(np, a.Path)
			if idx.IsConst() {
				np[len(a.Path)] = Sel{Idx: int(idx.Val)}
			} else {
				np[len(a.Path)] = Sel{Sym: idx}
			}
			return &PtrVal{Obj: a.Obj, Path: np}
		}
		panic(in.unsupported("IndexAddr on " + describe(v)))
	})
}

func (in *Interp) indexValue(x Value, iv Value, it types.Type) Value {
	idx := in.idx64(iv, it)
	return in.mapAlts(x, func(v Value) Value {
		switch a := v.(type) {
		case *ArrayVal:
			in.boundsCheck(idx, len(a.E))
			if idx.IsConst() {
				return a.E[idx.Val]
			}
			return in.child(a, Sel{Sym: idx})
		case *StrVal:
			return in.strIndex(a, idx)
		}
		panic(in.unsupported("Index on " + describe(v)))
	})
}

func (in *Interp) strIndex(s *StrVal, idx *smt.Term) Value {
	if s.Opaque {
		panic(in.unsupported("index of opaque string"))
	}
	n := s.Len()
	in.boundsCheck(idx, n)
	if idx.IsConst() {
		if s.B != nil {
			return s.B[idx.Val]
		}
		return in.St.BV(uint64(s.C[idx.Val]), 8)
	}
	b := in.strBytes(s)
	r := b[n-1]
	for k := n - 2; k >= 0; k-- {
		r = in.St.Ite(in.St.Eq(idx, in.St.BV(uint64(k), 64)), b[k], r)
	}
	return r
}

func (in *Interp) sliceOp(i *ssa.Slice, env Env) Value {
	x := in.get(env, i.X)
	bound := func(v ssa.Value, def int) int {
		if v == nil {
			return def
		}
		return in.concreteInt(in.get(env, v), "slice bound")
	}
	return in.mapAlts(x, func(v Value) Value {
		switch a := v.(type) {
		case *StrVal:
			if a.Opaque {
				panic(in.unsupported("slice of opaque string"))
			}
			lo := bound(i.Low, 0)
			hi := bound(i.High, a.Len())
			if lo < 0 || hi > a.Len() || lo > hi {
				in.panicIf(in.St.T, "slice-bounds")
			}
			if a.B == nil {
				return &StrVal{C: a.C[lo:hi]}
			}
			return in.mkStr(a.B[lo:hi])
		case *SliceVal:
			mk := func(lo, hi int) Value {
				mx := bound(i.Max, a.Cap)
				if lo < 0 || hi > a.Cap || lo > hi || mx > a.Cap || hi > mx {
					in.panicIf(in.St.T, "slice-bounds")
				}
				if a.Obj == nil {
					return &SliceVal{}
				}
				return &SliceVal{Obj: a.Obj, Off: a.Off + lo, Len: hi - lo, Cap: mx - lo}
			}
			// symbolic bounds over a small range: one alternative per feasible value
			return in.resolveInt(i.Low, env, 0, a.Cap, func(lo int) Value {
				return in.resolveInt(i.High, env, a.Len, a.Cap, func(hi int) Value { return mk(lo, hi) })
			})
		case *PtrVal: // pointer to array
			arr := in.load(a).(*ArrayVal)
			lo := bound(i.Low, 0)
			hi := bound(i.High, len(arr.E))
			if len(a.Path) != 0 {
				panic(in.unsupported("slice of nested array"))
			}
			if lo < 0 || hi > len(arr.E) || lo > hi {
				in.panicIf(in.St.T, "slice-bounds")
			}
			return &SliceVal{Obj: a.Obj, Off: lo, Len: hi - lo, Cap: len(arr.E) - lo}
		}
		panic(in.unsupported("Slice on " + describe(v)))
	})
}

// sliceElems returns the element values of a slice.
func (in *Interp) sliceElems(s *SliceVal) []Value {
	if s.SymLen != nil {
		panic(in.unsupported("elements of a slice of symbolic length"))
	}
	if s.Obj == nil || s.Len == 0 {
		return nil
	}
	arr := s.Obj.Val.(*ArrayVal)
	return arr.E[s.Off : s.Off+s.Len]
}

// mkSlice allocates a fresh backing array.
func (in *Interp) mkSlice(elems []Value) *SliceVal {
	e := make([]Value, len(elems))
	copy(e, elems)
	o := in.newObject(&ArrayVal{E: e}, "slice")
	return &SliceVal{Obj: o, Len: len(e), Cap: len(e)}
}

func (in *Interp) typeAssert(x Value, i *ssa.TypeAssert) Value {
	res := in.mapAlts(x, func(v Value) Value {
		iv, ok := v.(*IfaceVal)
		if !ok {
			panic(in.unsupported("TypeAssert on " + describe(v)))
		}
		okv := false
		var val Value
		if iv.T != nil {
			if types.IsInterface(i.AssertedType) {
				if types.AssignableTo(iv.T, i.AssertedType) || types.Implements(iv.T, under(i.AssertedType).(*types.Interface)) {
					okv = true
					val = iv
				}
			} else if types.Identical(iv.T, i.AssertedType) {
				okv = true
				val = iv.V
			}
		}
		if !okv {
			val = in.zero(i.AssertedType)
		}
		return &TupleVal{E: []Value{val, in.St.Bool(okv)}}
	})
	if i.CommaOk {
		return res
	}
	okT := in.extract(res, 1).(*smt.Term)
	in.panicIf(in.St.Not(okT), "type-assert")
	return in.extract(res, 0)
}

// ---- maps ----

func (in *Interp) keyEq(a, b Value) *smt.Term { return in.equal(a, b) }

func (in *Interp) lookup(x Value, key Value, kt types.Type, commaOk bool, xt types.Type) Value {
	if isString(xt) {
		return in.mapAlts(x, func(v Value) Value { return in.strIndex(v.(*StrVal), in.idx64(key, kt)) })
	}
	return in.mapAlts(x, func(v Value) Value {
		mv := v.(*MapVal)
		vt := under(xt).(*types.Map).Elem()
		var val Value = in.zero(vt)
		found := in.St.F
		if mv.M != nil {
			for k := len(mv.M.Entries) - 1; k >= 0; k-- {
				e := mv.M.Entries[k]
				hit := in.St.And(e.G, in.keyEq(e.K, key))
				if hit.IsFalse() {
					continue
				}
				val = in.merge(hit, e.V, val)
				found = in.St.Or(found, hit)
			}
		}
		if commaOk {
			return &TupleVal{E: []Value{val, found}}
		}
		return val
	})
}

func (in *Interp) mapUpdate(m Value, key, val Value) {
	in.forAlts(m, func(v Value) Value {
		mv := v.(*MapVal)
		if mv.M == nil {
			in.panicIf(in.St.T, "nil-map")
		}
		g := in.storeGuard(mv.M.birth)
		// entries whose key certainly equals
		rest := g // guard under which no existing entry matched
		for _, e := range mv.M.Entries {
			eq := in.keyEq(e.K, key)
			if eq.IsFalse() {
				continue
			}
			hit := in.St.And(g, eq)
			if eq.IsTrue() {
				e.V = in.merge(g, val, e.V)
				e.G = in.St.Or(e.G, g)
				return nil
			}
			// symbolic key equality: update under hit when present; when absent the new entry below takes over
			upd := in.St.And(hit, e.G)
			e.V = in.merge(upd, val, e.V)
			rest = in.St.And(rest, in.St.Not(in.St.And(eq, e.G)))
		}
		mv.M.Entries = append(mv.M.Entries, &MapEntry{K: key, V: val, G: rest})
		return nil
	})
}

func (in *Interp) mapDelete(m Value, key Value) {
	in.forAlts(m, func(v Value) Value {
		mv := v.(*MapVal)
		if mv.M == nil {
			return nil
		}
		g := in.storeGuard(mv.M.birth)
		for _, e := range mv.M.Entries {
			eq := in.keyEq(e.K, key)
			if eq.IsFalse() {
				continue
			}
			e.G = in.St.And(e.G, in.St.Not(in.St.And(g, eq)))
		}
		return nil
	})
}

func (in *Interp) mapLen(mv *MapVal) *smt.Term {
	n := in.St.BV(0, 64)
	if mv.M == nil {
		return n
	}
	for _, e := range mv.M.Entries {
		n = in.St.Bin(smt.OpBvAdd, n, in.St.Ite(e.G, in.St.BV(1, 64), in.St.BV(0, 64)))
	}
	return n
}

func (in *Interp) rangeStart(x Value) Value {
	switch a := x.(type) {
	case *MapVal:
		it := &IterVal{M: a.M}
		if a.M != nil {
			it.Snap = append(it.Snap, a.M.Entries...)
			// Go's iteration order is unspecified; a deterministic order (sorted
			// for concrete keys, insertion otherwise) is used here.
			in.sortEntries(it.Snap)
		}
		return it
	case *StrVal:
		return &IterVal{Str: a}
	case *UnionVal:
		// a map that is one of several after a join: the entries of every alternative under its guard
		// (copies: values are those at the start of the loop)
		it := &IterVal{}
		for _, al := range a.Alts {
			mv, ok := al.V.(*MapVal)
			if !ok {
				panic(in.unsupported("range over " + describe(x)))
			}
			if mv.M == nil {
				continue
			}
			var part []*MapEntry
			for _, e := range mv.M.Entries {
				part = append(part, &MapEntry{K: e.K, V: e.V, G: in.St.And(al.G, e.G)})
			}
			in.sortEntries(part)
			it.Snap = append(it.Snap, part...)
		}
		return it
	}
	panic(in.unsupported("range over " + describe(x)))
}

func (in *Interp) next(it *IterVal, i *ssa.Next) Value {
	if it.pushed {
		top := in.gs[len(in.gs)-1]
		if !top.iter {
			panic(in.unsupported("iterator guard is not on top of the guard stack"))
		}
		in.pop()
		it.pushed = false
	}
	if i.IsString {
		s := it.Str
		if it.Pos >= s.Len() {
			return &TupleVal{E: []Value{in.St.F, in.St.BV(0, 64), in.St.BV(0, 32)}}
		}
		b := in.strBytes(s)[it.Pos]
		// bytes >= 0x80 would need UTF-8 decoding
		in.panicIf(in.St.Cmp(smt.OpBvUle, in.St.BV(0x80, 8), b), "non-ascii-range")
		r := &TupleVal{E: []Value{in.St.T, in.St.BV(uint64(it.Pos), 64), in.St.Zext(24, b)}}
		it.Pos++
		return r
	}
	mt := under(i.Iter.(*ssa.Range).X.Type()).(*types.Map)
	for it.Pos < len(it.Snap) {
		e := it.Snap[it.Pos]
		it.Pos++
		if e.G.IsFalse() {
			continue
		}
		if !e.G.IsTrue() {
			if !in.feasible(e.G) {
				continue
			}
			if in.feasible(in.St.Not(e.G)) {
				in.nextGID++
				in.gs = append(in.gs, gframe{id: in.nextGID, cond: e.G, iter: true})
				it.pushed = true
			}
		}
		return &TupleVal{E: []Value{in.St.T, e.K, e.V}}
	}
	return &TupleVal{E: []Value{in.St.F, in.zero(mt.Key()), in.zero(mt.Elem())}}
}

var _ = token.NoPos
