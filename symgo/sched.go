package symgo

import (
	"fmt"
	"go/types"

	"golang.org/x/tools/go/ssa"

	"verif/smt"
)

// Goroutines and channels, as far as bondmachine.VM.Step needs them.
//
// Model: every interpreted goroutine runs on its own host goroutine, but only
// the holder of the baton executes; control changes hands only when the running
// goroutine blocks on a receive. Sends never block (channels behave as unbounded
// queues) and a receive takes the oldest complete item. Which blocked-but-ready
// goroutine runs next is a deterministic policy with a harness-visible order
// (Interp.SchedOrder). This reproduces barrier protocols such as VM.Step's; it
// does not explore Go's scheduler, rendezvous timing or data races.

type chanItem struct {
	segs []int     // race.go: segments of the sender that ended at the send (one per arm for a send made on both arms)
	g    *smt.Term // guard under which the item was sent (true: complete)
	v    Value
}

type gor struct {
	id      int
	wake    chan struct{}
	done    bool
	started bool
	waitOn  *ChanObj
	// saved per-goroutine interpreter context
	gs    []gframe
	depth int
}

type goexit struct{}

type scheduler struct {
	gs      []*gor
	cur     *gor
	failure interface{}
	abort   bool
}

func (in *Interp) scheduler() *scheduler {
	if in.sched == nil {
		main := &gor{id: 0, wake: make(chan struct{}), started: true}
		in.sched = &scheduler{gs: []*gor{main}, cur: main}
	}
	return in.sched
}

func (c *ChanObj) ready(in *Interp) bool {
	if len(c.items) == 0 {
		return false
	}
	g := c.items[0].g
	if g.IsTrue() {
		return true
	}
	// a send made on both arms of a branch: complete when the guards cover the path
	return !in.feasible(in.St.Not(g))
}

func (in *Interp) runnable(g *gor) bool {
	if g.done {
		return false
	}
	if g.waitOn == nil {
		return true
	}
	return g.waitOn.ready(in)
}

// pickNext chooses the next goroutine to run after cur blocks.
func (in *Interp) pickNext(cur *gor) *gor {
	s := in.sched
	// preferred order first
	for _, id := range in.SchedOrder {
		if id >= 0 && id < len(s.gs) && s.gs[id] != cur && in.runnable(s.gs[id]) {
			return s.gs[id]
		}
	}
	if in.SchedReverse {
		for i := len(s.gs) - 1; i >= 0; i-- {
			if g := s.gs[i]; g != cur && g.id != 0 && in.runnable(g) {
				return g
			}
		}
	}
	for _, g := range s.gs {
		if g != cur && g.id != 0 && in.runnable(g) {
			return g
		}
	}
	if g := s.gs[0]; g != cur && in.runnable(g) {
		return g
	}
	return nil
}

func (in *Interp) saveCtx(g *gor) {
	g.gs = in.gs
	g.depth = in.depth
}

func (in *Interp) loadCtx(g *gor) {
	in.gs = g.gs
	in.depth = g.depth
}

// switchTo hands the baton to next and parks the current host goroutine until it
// is woken again (unless the current goroutine is finished).
func (in *Interp) switchTo(cur, next *gor, park bool) {
	s := in.sched
	in.saveCtx(cur)
	s.cur = next
	in.loadCtx(next)
	next.wake <- struct{}{}
	if park {
		<-cur.wake
		if s.abort {
			panic(goexit{})
		}
		if s.failure != nil && cur.id == 0 {
			f := s.failure
			s.failure = nil
			panic(f)
		}
	}
}

func (in *Interp) goStmt(fr *Frame, env Env, g *ssa.Go) {
	if !in.Guard().IsTrue() {
		panic(in.unsupported("go statement under a symbolic guard"))
	}
	c := g.Call
	fv, args := in.prepareCall(env, &c)
	s := in.scheduler()
	gr := &gor{id: len(s.gs), wake: make(chan struct{})}
	s.gs = append(s.gs, gr)
	in.raceGo(s.cur.id, gr.id)
	go func() {
		<-gr.wake
		if s.abort {
			return
		}
		gr.started = true
		defer func() {
			r := recover()
			if r != nil {
				switch r.(type) {
				case goexit:
					return
				case killPath:
					// the whole path of this goroutine died (a panic that is certain): report it, the
					// others would wait for it forever
					s.failure = in.unsupported("a goroutine's only path ended in a panic (" + in.LastKill + ")")
				default:
					s.failure = r
				}
			}
			gr.done = true
			// hand the baton on: prefer main when a failure must be reported
			var next *gor
			if s.failure != nil {
				next = s.gs[0]
			} else {
				next = in.pickNext(gr)
			}
			if next == nil {
				next = s.gs[0]
			}
			in.switchTo(gr, next, false)
		}()
		in.invoke(fv, args, &c)
	}()
}

func (in *Interp) chanOf(v Value) *ChanObj {
	cv, ok := v.(*ChanVal)
	if !ok {
		panic(in.unsupported("channel operation on " + describe(v)))
	}
	if cv.C == nil {
		panic(in.unsupported("operation on a nil channel (blocks forever)"))
	}
	return cv.C
}

func (in *Interp) chanSend(ch Value, v Value) {
	c := in.chanOf(ch)
	in.scheduler()
	g := in.Guard()
	if n := len(c.items); n > 0 && !c.items[n-1].g.IsTrue() && !g.IsTrue() {
		// the other arm of a branch already sent: one item, merged
		last := &c.items[n-1]
		last.v = in.merge(g, v, last.v)
		last.g = in.St.Or(last.g, g)
		last.segs = append(last.segs, in.raceSend(c, true))
		return
	}
	c.items = append(c.items, chanItem{g: g, v: v, segs: []int{in.raceSend(c, false)}})
}

func (in *Interp) chanRecv(ch Value, commaOk bool, t types.Type) Value {
	c := in.chanOf(ch)
	s := in.scheduler()
	if !in.Guard().IsTrue() {
		panic(in.unsupported("channel receive under a symbolic guard"))
	}
	cur := s.cur
	for !c.ready(in) {
		cur.waitOn = c
		next := in.pickNext(cur)
		if next == nil {
			if cur.id == 0 {
				panic(in.unsupported(fmt.Sprintf("deadlock: main blocks on a receive and no goroutine can run (chan %d)", c.ID)))
			}
			// park forever: give control back to main
			next = s.gs[0]
			if next == cur || !in.runnable(next) {
				panic(in.unsupported("deadlock: every goroutine is blocked"))
			}
		}
		in.switchTo(cur, next, true)
	}
	cur.waitOn = nil
	it := c.items[0]
	c.items = c.items[1:]
	in.raceRecv(c, it.segs)
	if commaOk {
		return &TupleVal{E: []Value{it.v, in.St.T}}
	}
	return it.v
}

func (in *Interp) selectStmt(env Env, s *ssa.Select) Value {
	if len(s.States) != 1 || !s.Blocking || s.States[0].Dir != types.RecvOnly {
		panic(in.unsupported("select with other than one blocking receive"))
	}
	v := in.chanRecv(in.get(env, s.States[0].Chan), false, nil)
	// result tuple: (index, recvOk, recv values...)
	return &TupleVal{E: []Value{in.St.BV(0, 64), in.St.T, v}}
}

// StopGoroutines releases every parked host goroutine (called when a run ends).
func (in *Interp) StopGoroutines() {
	s := in.sched
	if s == nil {
		return
	}
	s.abort = true
	for _, g := range s.gs[1:] {
		if !g.done {
			select {
			case g.wake <- struct{}{}:
			default:
				// not parked on wake (never scheduled host goroutines are parked too, so this is rare)
				go func(g *gor) { g.wake <- struct{}{} }(g)
			}
		}
	}
}
