package symgo

import (
	"go/types"

	"golang.org/x/tools/go/ssa"
)

// scheduler: placeholder; goroutines are added in sched_go.go.
type scheduler struct{}

func (in *Interp) goStmt(fr *Frame, env Env, g *ssa.Go) {
	panic(in.unsupported("go statement"))
}
func (in *Interp) chanSend(ch Value, v Value) { panic(in.unsupported("channel send")) }
func (in *Interp) chanRecv(ch Value, commaOk bool, t types.Type) Value {
	panic(in.unsupported("channel receive"))
}
func (in *Interp) selectStmt(env Env, s *ssa.Select) Value { panic(in.unsupported("select")) }
