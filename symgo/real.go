package symgo

import (
	"go/token"

	"verif/smt"
)

// Floating-point program values are either concrete (*FloatVal) or symbolic
// exact reals (*smt.Term of sort Real): rounding is not modelled, a check that
// uses symbolic floats says so in its assumptions.

func (in *Interp) realOf(v Value) (*smt.Term, bool) {
	switch a := v.(type) {
	case *FloatVal:
		return in.St.RealFloat(a.F), true
	case *smt.Term:
		if a.IsReal() {
			return a, true
		}
	}
	return nil, false
}

func isRealTerm(v Value) bool {
	t, ok := v.(*smt.Term)
	return ok && t.IsReal()
}

// realBinop handles arithmetic and ordering when at least one operand is a symbolic real.
func (in *Interp) realBinop(op token.Token, x, y Value) (Value, bool) {
	if !isRealTerm(x) && !isRealTerm(y) {
		return nil, false
	}
	a, ok1 := in.realOf(x)
	b, ok2 := in.realOf(y)
	if !ok1 || !ok2 {
		return nil, false
	}
	st := in.St
	in.Stats.Stubs["float-as-exact-real"]++
	switch op {
	case token.ADD:
		return st.RBin(smt.OpRAdd, a, b), true
	case token.SUB:
		return st.RBin(smt.OpRSub, a, b), true
	case token.MUL:
		return st.RBin(smt.OpRMul, a, b), true
	case token.LSS:
		return st.RCmp(smt.OpRLt, a, b), true
	case token.LEQ:
		return st.RCmp(smt.OpRLe, a, b), true
	case token.GTR:
		return st.RCmp(smt.OpRLt, b, a), true
	case token.GEQ:
		return st.RCmp(smt.OpRLe, b, a), true
	case token.EQL:
		return st.Eq(a, b), true
	case token.NEQ:
		return st.Not(st.Eq(a, b)), true
	}
	return nil, false
}
