package symgo

import (
	"regexp"
	"regexp/syntax"

	"verif/smt"
)

// Capture positions of an anchored, alternation-free pattern on a string with
// symbolic bytes, by a deterministic greedy scan in which every membership test
// must be decided by the solver on the current path (valid or impossible). A
// successful all-greedy scan is the match a leftmost-first engine reports.

type scanItem struct {
	atom     reAtom
	variable bool // atom repeated: min..unbounded
	min      int
	open     []int // capture groups opening before this item
	close    []int // capture groups closing after this item
}

func flattenScan(re *syntax.Regexp, items *[]scanItem, pendingOpen *[]int) bool {
	add := func(it scanItem) {
		it.open = append(it.open, *pendingOpen...)
		*pendingOpen = nil
		*items = append(*items, it)
	}
	switch re.Op {
	case syntax.OpEmptyMatch, syntax.OpBeginText, syntax.OpEndText:
		return true
	case syntax.OpLiteral:
		for _, r := range re.Rune {
			add(scanItem{atom: reAtom{lit: r, fold: re.Flags&syntax.FoldCase != 0}})
		}
		return true
	case syntax.OpCharClass:
		add(scanItem{atom: reAtom{cls: re.Rune}})
		return true
	case syntax.OpAnyCharNotNL:
		add(scanItem{atom: reAtom{notNL: true}})
		return true
	case syntax.OpAnyChar:
		add(scanItem{atom: reAtom{cls: []rune{0, 0x7f}}})
		return true
	case syntax.OpStar, syntax.OpPlus:
		sub := re.Sub[0]
		var a reAtom
		switch sub.Op {
		case syntax.OpCharClass:
			a = reAtom{cls: sub.Rune}
		case syntax.OpAnyCharNotNL:
			a = reAtom{notNL: true}
		case syntax.OpAnyChar:
			a = reAtom{cls: []rune{0, 0x7f}}
		case syntax.OpLiteral:
			if len(sub.Rune) != 1 {
				return false
			}
			a = reAtom{lit: sub.Rune[0], fold: sub.Flags&syntax.FoldCase != 0}
		default:
			return false
		}
		min := 0
		if re.Op == syntax.OpPlus {
			min = 1
		}
		add(scanItem{atom: a, variable: true, min: min})
		return true
	case syntax.OpConcat:
		for _, s := range re.Sub {
			if !flattenScan(s, items, pendingOpen) {
				return false
			}
		}
		return true
	case syntax.OpCapture:
		*pendingOpen = append(*pendingOpen, re.Cap)
		n0 := len(*items)
		if !flattenScan(re.Sub[0], items, pendingOpen) {
			return false
		}
		if len(*items) == n0 {
			return false // empty capture: not needed here
		}
		last := &(*items)[len(*items)-1]
		last.close = append(last.close, re.Cap)
		return true
	}
	return false
}

// decided reports whether c is valid (1), impossible (0) or mixed (-1) on this path.
func (in *Interp) decided(c *smt.Term) int {
	if c.IsConst() {
		if c.Val == 1 {
			return 1
		}
		return 0
	}
	t := in.feasible(c)
	f := in.feasible(in.St.Not(c))
	switch {
	case t && !f:
		return 1
	case f && !t:
		return 0
	case !t && !f:
		panic(killPath{}) // the current path (alternative) cannot occur at all
	}
	return -1
}

// reScan returns submatch indices (as FindStringSubmatchIndex) or ok=false.
func (in *Interp) reScan(re *regexp.Regexp, s *StrVal) ([]int, bool) {
	rs, err := syntax.Parse(re.String(), syntax.Perl)
	if err != nil {
		return nil, false
	}
	rs = rs.Simplify()
	top := []*syntax.Regexp{rs}
	if rs.Op == syntax.OpConcat {
		top = rs.Sub
	}
	if len(top) < 2 || top[0].Op != syntax.OpBeginText || top[len(top)-1].Op != syntax.OpEndText {
		return nil, false
	}
	var items []scanItem
	var pend []int
	if !flattenScan(rs, &items, &pend) || len(pend) != 0 {
		return nil, false
	}
	bs := in.strBytes(s)
	n := len(bs)
	idx := make([]int, 2*(re.NumSubexp()+1))
	for i := range idx {
		idx[i] = -1
	}
	idx[0], idx[1] = 0, n
	pos := 0
	for _, it := range items {
		for _, g := range it.open {
			idx[2*g] = pos
		}
		if !it.variable {
			if pos >= n || in.decided(in.atomContains(it.atom, bs[pos])) != 1 {
				return nil, false
			}
			pos++
		} else {
			cnt := 0
			for pos < n {
				d := in.decided(in.atomContains(it.atom, bs[pos]))
				if d == -1 {
					return nil, false
				}
				if d == 0 {
					break
				}
				pos++
				cnt++
			}
			if cnt < it.min {
				return nil, false
			}
		}
		for _, g := range it.close {
			idx[2*g+1] = pos
		}
	}
	if pos != n {
		return nil, false
	}
	return idx, true
}
