// Package symgo is a symbolic executor for go/ssa: concrete structure,
// symbolic leaves (smt terms), predicated execution on one heap with guarded
// stores, and merging of SSA environments at immediate post-dominators.
package symgo

import (
	"fmt"
	"go/types"
	"strings"

	"golang.org/x/tools/go/ssa"

	"verif/smt"
)

// Value is one of: *smt.Term (bool / integer), *StrVal, *PtrVal, *SliceVal,
// *StructVal, *ArrayVal, *IfaceVal, *MapVal, *FuncVal, *ChanVal, *HostVal,
// *FloatVal, *TupleVal, *UnionVal, *IterVal.
type Value interface{}

type StrVal struct {
	C      string      // concrete content when B == nil
	B      []*smt.Term // symbolic bytes (8 bit each)
	Opaque bool        // result of formatting symbolic data: content unknown, only for messages
}

type Sel struct {
	Idx int
	Sym *smt.Term // non-nil: symbolic index (64 bit)
}

type PtrVal struct {
	Obj  *Object // nil: nil pointer
	Path []Sel
}

type SliceVal struct {
	Obj           *Object // nil: nil slice; Obj.Val is *ArrayVal
	Off, Len, Cap int
	SymLen        *smt.Term // set only by zzSymLen*: a slice that is never indexed, with a symbolic length
}

type StructVal struct{ F []Value }
type ArrayVal struct{ E []Value }

type IfaceVal struct {
	T types.Type // nil: nil interface
	V Value
}

type MapEntry struct {
	K Value
	V Value
	G *smt.Term // presence
}

type MapObj struct {
	ID      int
	Entries []*MapEntry
	birth   []int
	KT, VT  types.Type
}

type MapVal struct{ M *MapObj }

type FuncVal struct {
	Fn      *ssa.Function // nil: nil func
	Env     []Value       // closure bindings
	Recv    Value         // bound method receiver (Fn takes it as first param) if HasRecv
	HasRecv bool
}

type ChanObj struct {
	ID    int
	Cap   int
	items []chanItem
}
type ChanVal struct{ C *ChanObj }

type HostVal struct{ V interface{} }
type FloatVal struct{ F float64 }
type TupleVal struct{ E []Value }

type Alt struct {
	G *smt.Term
	V Value
}
type UnionVal struct{ Alts []Alt }

// IterVal is the state of a Range over a map or string.
type IterVal struct {
	M      *MapObj
	Snap   []*MapEntry
	Str    *StrVal
	Pos    int
	pushed bool // an iteration guard of this iterator is on the guard stack
}

type Object struct {
	ID    int
	Val   Value
	birth []int // ids of the guard-stack frames alive at allocation
	Name  string
}

func (p *PtrVal) IsNil() bool { return p.Obj == nil }

func under(t types.Type) types.Type { return t.Underlying() }

// intInfo returns width and signedness for integer / bool basic types.
func intInfo(t types.Type) (w int, signed bool, ok bool) {
	b, isb := under(t).(*types.Basic)
	if !isb {
		return 0, false, false
	}
	switch b.Kind() {
	case types.Bool, types.UntypedBool:
		return 0, false, true
	case types.Int8:
		return 8, true, true
	case types.Int16:
		return 16, true, true
	case types.Int32, types.UntypedRune:
		return 32, true, true
	case types.Int64, types.Int, types.UntypedInt:
		return 64, true, true
	case types.Uint8:
		return 8, false, true
	case types.Uint16:
		return 16, false, true
	case types.Uint32:
		return 32, false, true
	case types.Uint64, types.Uint, types.Uintptr:
		return 64, false, true
	}
	return 0, false, false
}

func isString(t types.Type) bool {
	b, ok := under(t).(*types.Basic)
	return ok && (b.Kind() == types.String || b.Kind() == types.UntypedString)
}

func isFloat(t types.Type) bool {
	b, ok := under(t).(*types.Basic)
	return ok && (b.Info()&types.IsFloat != 0)
}

func (in *Interp) zero(t types.Type) Value {
	switch u := under(t).(type) {
	case *types.Basic:
		if w, _, ok := intInfo(u); ok {
			if w == 0 {
				return in.St.F
			}
			return in.St.BV(0, w)
		}
		if isString(u) {
			return &StrVal{}
		}
		if isFloat(u) {
			return &FloatVal{}
		}
		if u.Kind() == types.UnsafePointer {
			return &PtrVal{}
		}
		if u.Kind() == types.UntypedNil {
			return &PtrVal{}
		}
		panic(in.unsupported("zero of basic type " + u.String()))
	case *types.Pointer:
		return &PtrVal{}
	case *types.Slice:
		return &SliceVal{}
	case *types.Map:
		return &MapVal{}
	case *types.Chan:
		return &ChanVal{}
	case *types.Signature:
		return &FuncVal{}
	case *types.Interface:
		return &IfaceVal{}
	case *types.Struct:
		f := make([]Value, u.NumFields())
		for i := range f {
			f[i] = in.zero(u.Field(i).Type())
		}
		return &StructVal{F: f}
	case *types.Array:
		e := make([]Value, u.Len())
		if len(e) > 0 {
			z := in.zero(u.Elem())
			for i := range e {
				e[i] = z
			}
		}
		return &ArrayVal{E: e}
	case *types.Tuple:
		tv := make([]Value, u.Len())
		for i := range tv {
			tv[i] = in.zero(u.At(i).Type())
		}
		return &TupleVal{E: tv}
	}
	panic(in.unsupported("zero of type " + t.String()))
}

// ---- strings ----

func (in *Interp) strBytes(s *StrVal) []*smt.Term {
	if s.B != nil {
		return s.B
	}
	b := make([]*smt.Term, len(s.C))
	for i := 0; i < len(s.C); i++ {
		b[i] = in.St.BV(uint64(s.C[i]), 8)
	}
	return b
}

func (s *StrVal) Len() int {
	if s.B != nil {
		return len(s.B)
	}
	return len(s.C)
}

// mkStr builds a string value, collapsing to a concrete one when possible.
func (in *Interp) mkStr(b []*smt.Term) *StrVal {
	for _, t := range b {
		if !t.IsConst() {
			cp := make([]*smt.Term, len(b))
			copy(cp, b)
			return &StrVal{B: cp}
		}
	}
	var sb strings.Builder
	for _, t := range b {
		sb.WriteByte(byte(t.Val))
	}
	return &StrVal{C: sb.String()}
}

func (s *StrVal) Concrete() (string, bool) {
	if s.B == nil && !s.Opaque {
		return s.C, true
	}
	return "", false
}

// ---- merging ----

func termEqPath(a, b []Sel) bool {
	if len(a) != len(b) {
		return false
	}
	for i := range a {
		if a[i].Sym != b[i].Sym || (a[i].Sym == nil && a[i].Idx != b[i].Idx) {
			return false
		}
	}
	return true
}

// same reports cheap identity of two values (no term construction).
func same(a, b Value) bool {
	if a == b {
		return true
	}
	switch x := a.(type) {
	case *StrVal:
		y, ok := b.(*StrVal)
		if !ok || x.Opaque != y.Opaque {
			return false
		}
		if x.B == nil && y.B == nil {
			return x.C == y.C
		}
		return false
	case *PtrVal:
		y, ok := b.(*PtrVal)
		return ok && x.Obj == y.Obj && termEqPath(x.Path, y.Path)
	case *SliceVal:
		y, ok := b.(*SliceVal)
		return ok && x.Obj == y.Obj && x.Off == y.Off && x.Len == y.Len && x.Cap == y.Cap
	case *MapVal:
		y, ok := b.(*MapVal)
		return ok && x.M == y.M
	case *ChanVal:
		y, ok := b.(*ChanVal)
		return ok && x.C == y.C
	case *FuncVal:
		y, ok := b.(*FuncVal)
		if !ok || x.Fn != y.Fn || len(x.Env) != len(y.Env) || x.HasRecv != y.HasRecv {
			return false
		}
		if x.HasRecv && !same(x.Recv, y.Recv) {
			return false
		}
		for i := range x.Env {
			if !same(x.Env[i], y.Env[i]) {
				return false
			}
		}
		return true
	case *IfaceVal:
		y, ok := b.(*IfaceVal)
		if !ok {
			return false
		}
		if x.T == nil || y.T == nil {
			return x.T == nil && y.T == nil
		}
		return types.Identical(x.T, y.T) && same(x.V, y.V)
	case *FloatVal:
		y, ok := b.(*FloatVal)
		return ok && x.F == y.F
	case *HostVal:
		y, ok := b.(*HostVal)
		return ok && x.V == y.V
	case *StructVal:
		y, ok := b.(*StructVal)
		if !ok || len(x.F) != len(y.F) {
			return false
		}
		for i := range x.F {
			if !same(x.F[i], y.F[i]) {
				return false
			}
		}
		return true
	case *ArrayVal:
		y, ok := b.(*ArrayVal)
		if !ok || len(x.E) != len(y.E) {
			return false
		}
		for i := range x.E {
			if !same(x.E[i], y.E[i]) {
				return false
			}
		}
		return true
	case *TupleVal:
		y, ok := b.(*TupleVal)
		if !ok || len(x.E) != len(y.E) {
			return false
		}
		for i := range x.E {
			if !same(x.E[i], y.E[i]) {
				return false
			}
		}
		return true
	}
	return false
}

// merge builds ite(c, a, b) structurally.
func (in *Interp) merge(c *smt.Term, a, b Value) Value {
	if c.IsTrue() {
		return a
	}
	if c.IsFalse() {
		return b
	}
	if same(a, b) {
		return a
	}
	if isRealTerm(a) || isRealTerm(b) {
		x, ok1 := in.realOf(a)
		y, ok2 := in.realOf(b)
		if ok1 && ok2 {
			return in.St.Ite(c, x, y)
		}
	}
	switch x := a.(type) {
	case *smt.Term:
		if y, ok := b.(*smt.Term); ok && x.W == y.W {
			return in.St.Ite(c, x, y)
		}
	case *StrVal:
		if y, ok := b.(*StrVal); ok && x.Len() == y.Len() && !x.Opaque && !y.Opaque {
			xb, yb := in.strBytes(x), in.strBytes(y)
			r := make([]*smt.Term, len(xb))
			for i := range r {
				r[i] = in.St.Ite(c, xb[i], yb[i])
			}
			return in.mkStr(r)
		}
		if y, ok := b.(*StrVal); ok && x.Opaque && y.Opaque {
			return x
		}
	case *StructVal:
		if y, ok := b.(*StructVal); ok && len(x.F) == len(y.F) {
			f := make([]Value, len(x.F))
			for i := range f {
				f[i] = in.merge(c, x.F[i], y.F[i])
			}
			return &StructVal{F: f}
		}
	case *ArrayVal:
		if y, ok := b.(*ArrayVal); ok && len(x.E) == len(y.E) {
			e := make([]Value, len(x.E))
			for i := range e {
				e[i] = in.merge(c, x.E[i], y.E[i])
			}
			return &ArrayVal{E: e}
		}
	case *TupleVal:
		if y, ok := b.(*TupleVal); ok && len(x.E) == len(y.E) {
			e := make([]Value, len(x.E))
			for i := range e {
				e[i] = in.merge(c, x.E[i], y.E[i])
			}
			return &TupleVal{E: e}
		}
	case *IfaceVal:
		if y, ok := b.(*IfaceVal); ok && x.T != nil && y.T != nil && types.Identical(x.T, y.T) {
			return &IfaceVal{T: x.T, V: in.merge(c, x.V, y.V)}
		}
	case *PtrVal:
		// &a[i] vs &a[j] on the same object and otherwise equal path: symbolic index
		if y, ok := b.(*PtrVal); ok && x.Obj != nil && x.Obj == y.Obj && len(x.Path) == len(y.Path) {
			diff := -1
			for i := range x.Path {
				if x.Path[i].Sym != y.Path[i].Sym || (x.Path[i].Sym == nil && x.Path[i].Idx != y.Path[i].Idx) {
					if diff >= 0 {
						diff = -2
						break
					}
					diff = i
				}
			}
			if diff >= 0 && in.pathStepIsArray(x.Obj, x.Path[:diff]) {
				np := make([]Sel, len(x.Path))
				copy(np, x.Path)
				np[diff] = Sel{Sym: in.St.Ite(c, in.selTerm(x.Path[diff]), in.selTerm(y.Path[diff]))}
				return &PtrVal{Obj: x.Obj, Path: np}
			}
		}
	}
	// different shapes: guarded union
	var alts []Alt
	add := func(g *smt.Term, v Value) {
		if g.IsFalse() {
			return
		}
		if u, ok := v.(*UnionVal); ok {
			for _, al := range u.Alts {
				gg := in.St.And(g, al.G)
				if !gg.IsFalse() {
					alts = append(alts, Alt{gg, al.V})
				}
			}
			return
		}
		alts = append(alts, Alt{g, v})
	}
	add(c, a)
	add(in.St.Not(c), b)
	// coalesce identical alternatives
	var out []Alt
	for _, al := range alts {
		found := false
		for i := range out {
			if same(out[i].V, al.V) {
				out[i].G = in.St.Or(out[i].G, al.G)
				found = true
				break
			}
			// strings of equal length collapse into one alternative (bytewise ite)
			if x, ok := out[i].V.(*StrVal); ok {
				if y, ok := al.V.(*StrVal); ok && x.Len() == y.Len() && !x.Opaque && !y.Opaque {
					xb, yb := in.strBytes(x), in.strBytes(y)
					r := make([]*smt.Term, len(xb))
					for k := range r {
						r[k] = in.St.Ite(al.G, yb[k], xb[k])
					}
					out[i].V = in.mkStr(r)
					out[i].G = in.St.Or(out[i].G, al.G)
					found = true
					break
				}
			}
		}
		if !found {
			out = append(out, al)
		}
	}
	if len(out) == 1 {
		return out[0].V
	}
	if len(out) > in.MaxUnion {
		panic(in.unsupported(fmt.Sprintf("union of %d alternatives", len(out))))
	}
	return &UnionVal{Alts: out}
}

func (in *Interp) selTerm(s Sel) *smt.Term {
	if s.Sym != nil {
		return s.Sym
	}
	return in.St.BV(uint64(s.Idx), 64)
}

// pathStepIsArray reports whether following path from obj lands on an array (so
// that the next selector may be symbolic).
func (in *Interp) pathStepIsArray(o *Object, path []Sel) bool {
	cur := o.Val
	for _, s := range path {
		switch x := cur.(type) {
		case *StructVal:
			if s.Sym != nil {
				return false
			}
			cur = x.F[s.Idx]
		case *ArrayVal:
			if s.Sym != nil || s.Idx >= len(x.E) {
				return false
			}
			cur = x.E[s.Idx]
		default:
			return false
		}
	}
	_, ok := cur.(*ArrayVal)
	return ok
}

// alts enumerates the alternatives of a value (a single one if not a union).
func alts(v Value, t *smt.Term) []Alt {
	if u, ok := v.(*UnionVal); ok {
		return u.Alts
	}
	return []Alt{{t, v}}
}

func describe(v Value) string {
	switch x := v.(type) {
	case nil:
		return "<nil>"
	case *smt.Term:
		if x.IsConst() {
			return fmt.Sprintf("%d:%d", x.Val, x.W)
		}
		return fmt.Sprintf("sym:%d", x.W)
	case *StrVal:
		if c, ok := x.Concrete(); ok {
			return fmt.Sprintf("%q", c)
		}
		return fmt.Sprintf("str[%d]", x.Len())
	case *PtrVal:
		if x.Obj == nil {
			return "nilptr"
		}
		return fmt.Sprintf("&obj%d%v", x.Obj.ID, x.Path)
	case *SliceVal:
		return fmt.Sprintf("slice(len=%d)", x.Len)
	case *StructVal:
		return fmt.Sprintf("struct{%d}", len(x.F))
	case *ArrayVal:
		return fmt.Sprintf("array[%d]", len(x.E))
	case *IfaceVal:
		if x.T == nil {
			return "nil-iface"
		}
		return "iface(" + x.T.String() + ")"
	case *MapVal:
		return "map"
	case *FuncVal:
		if x.Fn == nil {
			return "nilfunc"
		}
		return "func " + x.Fn.String()
	case *UnionVal:
		s := "union{"
		for _, a := range x.Alts {
			s += describe(a.V) + ";"
		}
		return s + "}"
	case *TupleVal:
		s := "("
		for _, a := range x.E {
			s += describe(a) + ","
		}
		return s + ")"
	}
	return fmt.Sprintf("%T", v)
}
