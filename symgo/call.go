package symgo

import (
	"fmt"
	"go/types"
	"strings"

	"golang.org/x/tools/go/ssa"

	"verif/smt"
)

// prepareCall evaluates the callee and arguments of a call.
func (in *Interp) prepareCall(env Env, c *ssa.CallCommon) (Value, []Value) {
	args := make([]Value, 0, len(c.Args)+1)
	if c.IsInvoke() {
		recv := in.get(env, c.Value)
		for _, a := range c.Args {
			args = append(args, in.get(env, a))
		}
		return recv, args
	}
	fv := in.get(env, c.Value)
	for _, a := range c.Args {
		args = append(args, in.get(env, a))
	}
	return fv, args
}

func (in *Interp) call(fr *Frame, env Env, c *ssa.CallCommon, site ssa.Instruction) Value {
	fv, args := in.prepareCall(env, c)
	return in.invoke(fv, args, c)
}

func (in *Interp) invoke(fv Value, args []Value, c *ssa.CallCommon) Value {
	if c.IsInvoke() {
		return in.forAlts(fv, func(v Value) Value {
			iv, ok := v.(*IfaceVal)
			if !ok {
				panic(in.unsupported("invoke on " + describe(v)))
			}
			if iv.T == nil {
				in.panicIf(in.St.T, "nil-iface-call")
			}
			m := in.P.Prog.LookupMethod(iv.T, c.Method.Pkg(), c.Method.Name())
			if m == nil {
				panic(in.unsupported(fmt.Sprintf("method %s not found on %s", c.Method.Name(), iv.T)))
			}
			return in.callFn(m, append([]Value{iv.V}, args...), nil)
		})
	}
	if h, ok := fv.(*HostVal); ok {
		if b, ok := h.V.(*ssa.Builtin); ok {
			return in.builtin(b, args, c)
		}
	}
	return in.forAlts(fv, func(v Value) Value {
		f, ok := v.(*FuncVal)
		if !ok {
			panic(in.unsupported("call of " + describe(v)))
		}
		if f.Fn == nil {
			in.panicIf(in.St.T, "nil-func-call")
		}
		a := args
		if f.HasRecv {
			a = append([]Value{f.Recv}, args...)
		}
		return in.callFn(f.Fn, a, f.Env)
	})
}

func fullName(fn *ssa.Function) string {
	if fn.Pkg != nil && fn.Signature.Recv() == nil {
		return fn.Pkg.Pkg.Path() + "." + fn.Name()
	}
	return fn.String()
}

func isRepoFn(fn *ssa.Function) bool {
	p := fn.Package()
	if p == nil && fn.Origin() != nil {
		p = fn.Origin().Package()
	}
	if p == nil {
		// synthetic wrappers / bound methods: decide by the wrapped object
		if obj := fn.Object(); obj != nil && obj.Pkg() != nil {
			return strings.HasPrefix(obj.Pkg().Path(), RepoPrefix)
		}
		return fn.Synthetic != ""
	}
	return strings.HasPrefix(p.Pkg.Path(), RepoPrefix)
}

// interpretable non-repo packages (pure Go, no package state needed)
var purePkgs = map[string]bool{"slices": true, "maps": true, "sort": true, "errors": true, "cmp": true, "iter": true}

func (in *Interp) callFn(fn *ssa.Function, args []Value, closure []Value) Value {
	name := fullName(fn)
	if in.Trace {
		fmt.Printf("%*scall %s\n", in.depth, "", name)
	}
	if h, ok := in.Hooks[name]; ok {
		if r, handled := h(in, fn, args); handled {
			in.Stats.Stubs[name]++
			return r
		}
	}
	if strings.Contains(name, ".zz") && fn.Pkg != nil {
		if r, ok := in.intrinsic(fn, args); ok {
			return r
		}
	}
	if nat, ok := natives[name]; ok {
		in.Stats.Natives[name]++
		return in.distribute(args, 0, func(a []Value) Value { return nat(in, fn, a) })
	}
	if fn.Name() == "init" && fn.Signature.Recv() == nil && fn.Pkg != nil && fn.Pkg.Func("init") == fn {
		if in.InitPkgs[fn.Pkg.Pkg.Path()] {
			return in.CallFunction(fn, args, closure)
		}
		return &TupleVal{}
	}
	if isRepoFn(fn) && fn.Blocks != nil {
		return in.CallFunction(fn, args, closure)
	}
	pk := ""
	if p := fn.Package(); p != nil {
		pk = p.Pkg.Path()
	} else if fn.Origin() != nil && fn.Origin().Package() != nil {
		pk = fn.Origin().Package().Pkg.Path()
	}
	if purePkgs[pk] && fn.Blocks != nil {
		return in.CallFunction(fn, args, closure)
	}
	if in.lenient {
		in.Stats.Stubs["lenient:"+name]++
		return in.zeroResults(fn.Signature)
	}
	panic(in.unsupported("call of external function " + name))
}

func (in *Interp) zeroResults(sig *types.Signature) Value {
	switch sig.Results().Len() {
	case 0:
		return &TupleVal{}
	case 1:
		return in.zero(sig.Results().At(0).Type())
	}
	return in.zero(sig.Results())
}

func (in *Interp) builtin(b *ssa.Builtin, args []Value, c *ssa.CallCommon) Value {
	st := in.St
	switch b.Name() {
	case "len":
		in.raceMap(args[0], false)
		return in.mapAlts(args[0], func(v Value) Value {
			switch a := v.(type) {
			case *StrVal:
				if a.Opaque {
					panic(in.unsupported("len of opaque string"))
				}
				return st.BV(uint64(a.Len()), 64)
			case *SliceVal:
				if a.SymLen != nil {
					return a.SymLen
				}
				return st.BV(uint64(a.Len), 64)
			case *MapVal:
				return in.mapLen(a)
			case *ArrayVal:
				return st.BV(uint64(len(a.E)), 64)
			case *PtrVal:
				return st.BV(uint64(len(in.load(a).(*ArrayVal).E)), 64)
			case *ChanVal:
				return st.BV(0, 64)
			}
			panic(in.unsupported("len of " + describe(v)))
		})
	case "cap":
		return in.mapAlts(args[0], func(v Value) Value {
			switch a := v.(type) {
			case *SliceVal:
				return st.BV(uint64(a.Cap), 64)
			case *ArrayVal:
				return st.BV(uint64(len(a.E)), 64)
			}
			panic(in.unsupported("cap of " + describe(v)))
		})
	case "append":
		return in.forAlts(args[0], func(v Value) Value {
			return in.forAlts(args[1], func(w Value) Value { return in.appendOp(v.(*SliceVal), w) })
		})
	case "copy":
		dst, ok1 := args[0].(*SliceVal)
		if !ok1 {
			panic(in.unsupported("copy to " + describe(args[0])))
		}
		var src []Value
		switch s := args[1].(type) {
		case *SliceVal:
			src = in.sliceElems(s)
		case *StrVal:
			for _, t := range in.strBytes(s) {
				src = append(src, t)
			}
		default:
			panic(in.unsupported("copy from " + describe(args[1])))
		}
		n := min(dst.Len, len(src))
		// copy semantics: read all first
		tmp := make([]Value, n)
		copy(tmp, src[:n])
		for k := 0; k < n; k++ {
			in.store(&PtrVal{Obj: dst.Obj, Path: []Sel{{Idx: dst.Off + k}}}, tmp[k])
		}
		return st.BV(uint64(n), 64)
	case "delete":
		in.raceMap(args[0], true)
		in.mapDelete(args[0], args[1])
		return &TupleVal{}
	case "clear":
		// maps only (clear of a slice is not needed so far)
		in.raceMap(args[0], true)
		in.forAlts(args[0], func(v Value) Value {
			mv, ok := v.(*MapVal)
			if !ok {
				panic(in.unsupported("clear of " + describe(v)))
			}
			if mv.M == nil {
				return nil
			}
			g := in.storeGuard(mv.M.birth)
			for _, e := range mv.M.Entries {
				e.G = in.St.And(e.G, in.St.Not(g))
			}
			return nil
		})
		return &TupleVal{}
	case "panic":
		in.panicIf(st.T, "explicit-panic")
		return &TupleVal{}
	case "print", "println":
		return &TupleVal{}
	case "min", "max":
		r := args[0]
		_, signed, _ := intInfo(c.Args[0].Type())
		for _, a := range args[1:] {
			x, ok1 := r.(*smt.Term)
			y, ok2 := a.(*smt.Term)
			if !ok1 || !ok2 {
				panic(in.unsupported("min/max on non-integers"))
			}
			op := smt.OpBvUlt
			if signed {
				op = smt.OpBvSlt
			}
			lt := st.Cmp(op, x, y)
			if b.Name() == "min" {
				r = st.Ite(lt, x, y)
			} else {
				r = st.Ite(lt, y, x)
			}
		}
		return r
	case "ssa:wrapnilchk":
		if p, ok := args[0].(*PtrVal); ok && p.Obj == nil {
			in.panicIf(st.T, "nil-deref")
		}
		return args[0]
	case "close":
		return &TupleVal{}
	case "recover":
		return &IfaceVal{}
	}
	panic(in.unsupported("builtin " + b.Name()))
}

func (in *Interp) appendOp(s *SliceVal, w Value) Value {
	var add []Value
	switch t := w.(type) {
	case *SliceVal:
		add = in.sliceElems(t)
	case *StrVal:
		for _, b := range in.strBytes(t) {
			add = append(add, b)
		}
	default:
		panic(in.unsupported("append of " + describe(w)))
	}
	if len(add) == 0 {
		return s
	}
	n := s.Len + len(add)
	if s.Obj != nil && n <= s.Cap {
		for k, v := range add {
			in.store(&PtrVal{Obj: s.Obj, Path: []Sel{{Idx: s.Off + s.Len + k}}}, v)
		}
		return &SliceVal{Obj: s.Obj, Off: s.Off, Len: n, Cap: s.Cap}
	}
	// grow like Go does for small slices (doubling), so that aliasing through
	// spare capacity behaves as in the real run for the common case
	newCap := n
	if s.Cap > 0 && 2*s.Cap > n {
		newCap = 2 * s.Cap
	}
	e := make([]Value, newCap)
	copy(e, in.sliceElems(s))
	copy(e[s.Len:], add)
	if newCap > n {
		var z Value
		if len(add) > 0 {
			z = in.zeroLike(add[0])
		}
		for k := n; k < newCap; k++ {
			e[k] = z
		}
	}
	o := in.newObject(&ArrayVal{E: e}, "append")
	return &SliceVal{Obj: o, Off: 0, Len: n, Cap: newCap}
}

// zeroLike gives a zero value with the shape of v (used for spare capacity).
func (in *Interp) zeroLike(v Value) Value {
	switch x := v.(type) {
	case *smt.Term:
		if x.W == 0 {
			return in.St.F
		}
		return in.St.BV(0, x.W)
	case *StrVal:
		return &StrVal{}
	case *PtrVal:
		return &PtrVal{}
	case *SliceVal:
		return &SliceVal{}
	case *IfaceVal:
		return &IfaceVal{}
	case *MapVal:
		return &MapVal{}
	case *FuncVal:
		return &FuncVal{}
	case *FloatVal:
		return &FloatVal{}
	case *ChanVal:
		return &ChanVal{}
	case *StructVal:
		f := make([]Value, len(x.F))
		for i := range f {
			f[i] = in.zeroLike(x.F[i])
		}
		return &StructVal{F: f}
	case *ArrayVal:
		e := make([]Value, len(x.E))
		for i := range e {
			e[i] = in.zeroLike(x.E[i])
		}
		return &ArrayVal{E: e}
	case *UnionVal:
		return in.zeroLike(x.Alts[0].V)
	}
	return v
}

// RunInit interprets the init function of a repo package (and, through its
// own calls, of the repo packages it imports).
func (in *Interp) RunInit(pkgPath string) {
	pkg := in.P.Pkg(pkgPath)
	if pkg == nil {
		panic(in.unsupported("package not loaded: " + pkgPath))
	}
	initFn := pkg.Func("init")
	in.InitPkgs[pkg.Pkg.Path()] = true
	old := in.lenient
	in.lenient = true
	defer func() { in.lenient = old }()
	in.CallFunction(initFn, nil, nil)
}

// distribute calls f once per combination of alternatives of union arguments.
func (in *Interp) distribute(args []Value, from int, f func([]Value) Value) Value {
	for i := from; i < len(args); i++ {
		if _, ok := args[i].(*UnionVal); ok {
			return in.mapAlts(args[i], func(v Value) Value {
				na := make([]Value, len(args))
				copy(na, args)
				na[i] = v
				return in.distribute(na, i+1, f)
			})
		}
	}
	return f(args)
}
