package symgo

import (
	"fmt"
	"go/types"

	"golang.org/x/tools/go/ssa"

	"verif/smt"
)

// sync.Map is modelled as an ordinary map[any]any attached to the storage the
// receiver points at (a process-wide cache keyed by a pointer is the usual use).

type syncMapKey struct {
	obj  *Object
	path string
}

var anyT = types.NewInterfaceType(nil, nil)
var anyMapT = types.NewMap(anyT, anyT)

func (in *Interp) syncMap(recv Value) *MapVal {
	p, ok := recv.(*PtrVal)
	if !ok || p.Obj == nil {
		panic(in.unsupported("sync.Map: receiver is not a plain pointer"))
	}
	for _, s := range p.Path {
		if s.Sym != nil {
			panic(in.unsupported("sync.Map: symbolic receiver path"))
		}
	}
	k := syncMapKey{p.Obj, fmt.Sprint(p.Path)}
	if in.syncMaps == nil {
		in.syncMaps = map[syncMapKey]*MapVal{}
	}
	mv := in.syncMaps[k]
	if mv == nil {
		in.nobj++
		mv = &MapVal{M: &MapObj{ID: in.nobj, birth: p.Obj.birth, KT: anyT, VT: anyT}}
		in.syncMaps[k] = mv
	}
	return mv
}

func init() {
	natives["(*sync.Map).Load"] = func(in *Interp, fn *ssa.Function, args []Value) Value {
		return in.lookup(in.syncMap(args[0]), args[1], anyT, true, anyMapT)
	}
	natives["(*sync.Map).Store"] = func(in *Interp, fn *ssa.Function, args []Value) Value {
		in.mapUpdate(in.syncMap(args[0]), args[1], args[2])
		return &TupleVal{}
	}
	natives["(*sync.Map).Delete"] = func(in *Interp, fn *ssa.Function, args []Value) Value {
		in.mapDelete(in.syncMap(args[0]), args[1])
		return &TupleVal{}
	}
	natives["(*sync.Map).LoadOrStore"] = func(in *Interp, fn *ssa.Function, args []Value) Value {
		mv := in.syncMap(args[0])
		r := in.lookup(mv, args[1], anyT, true, anyMapT).(*TupleVal)
		found := r.E[1]
		// store only where absent: write merge(found, old, new)
		in.mapUpdate(mv, args[1], in.merge(found.(*smt.Term), r.E[0], args[2]))
		return &TupleVal{E: []Value{in.merge(found.(*smt.Term), r.E[0], args[2]), found}}
	}
}
