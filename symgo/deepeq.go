package symgo

import (
	"fmt"
	"go/types"

	"verif/smt"
)

// DeepEqual builds the term "a and b are structurally equal" by walking the Go
// type t (so that a field added to the type later is compared automatically).
// Struct fields whose name is in exclude are skipped. notes receives a line for
// anything compared by identity only.
func (in *Interp) DeepEqual(t types.Type, a, b Value, exclude map[string]bool, path string, notes *[]string) *smt.Term {
	st := in.St
	if ua, ok := a.(*UnionVal); ok {
		r := st.F
		for _, al := range ua.Alts {
			r = st.Or(r, st.And(al.G, in.DeepEqual(t, al.V, b, exclude, path, notes)))
		}
		return r
	}
	if ub, ok := b.(*UnionVal); ok {
		r := st.F
		for _, al := range ub.Alts {
			r = st.Or(r, st.And(al.G, in.DeepEqual(t, a, al.V, exclude, path, notes)))
		}
		return r
	}
	switch u := under(t).(type) {
	case *types.Basic:
		return in.equal(a, b)
	case *types.Struct:
		sa, ok1 := a.(*StructVal)
		sb, ok2 := b.(*StructVal)
		if !ok1 || !ok2 {
			panic(in.unsupported("DeepEqual: struct expected at " + path))
		}
		r := st.T
		for i := 0; i < u.NumFields(); i++ {
			f := u.Field(i)
			if exclude[f.Name()] {
				continue
			}
			r = st.And(r, in.DeepEqual(f.Type(), sa.F[i], sb.F[i], exclude, path+"."+f.Name(), notes))
		}
		return r
	case *types.Pointer:
		pa, ok1 := a.(*PtrVal)
		pb, ok2 := b.(*PtrVal)
		if !ok1 || !ok2 {
			panic(in.unsupported("DeepEqual: pointer expected at " + path))
		}
		if pa.Obj == nil || pb.Obj == nil {
			return st.Bool(pa.Obj == nil && pb.Obj == nil)
		}
		return in.DeepEqual(u.Elem(), in.load(pa), in.load(pb), exclude, path+"*", notes)
	case *types.Slice:
		sa, ok1 := a.(*SliceVal)
		sb, ok2 := b.(*SliceVal)
		if !ok1 || !ok2 {
			panic(in.unsupported("DeepEqual: slice expected at " + path))
		}
		// nil and empty are distinguished by reflect.DeepEqual but not by any consumer here: compared by length
		if sa.Len != sb.Len {
			return st.F
		}
		ea, eb := in.sliceElems(sa), in.sliceElems(sb)
		r := st.T
		for i := range ea {
			r = st.And(r, in.DeepEqual(u.Elem(), ea[i], eb[i], exclude, fmt.Sprintf("%s[%d]", path, i), notes))
		}
		return r
	case *types.Array:
		aa, ok1 := a.(*ArrayVal)
		ab, ok2 := b.(*ArrayVal)
		if !ok1 || !ok2 || len(aa.E) != len(ab.E) {
			panic(in.unsupported("DeepEqual: array expected at " + path))
		}
		r := st.T
		for i := range aa.E {
			r = st.And(r, in.DeepEqual(u.Elem(), aa.E[i], ab.E[i], exclude, fmt.Sprintf("%s[%d]", path, i), notes))
		}
		return r
	case *types.Interface:
		ia, ok1 := a.(*IfaceVal)
		ib, ok2 := b.(*IfaceVal)
		if !ok1 || !ok2 {
			panic(in.unsupported("DeepEqual: interface expected at " + path))
		}
		if ia.T == nil || ib.T == nil {
			return st.Bool(ia.T == nil && ib.T == nil)
		}
		if !types.Identical(ia.T, ib.T) {
			return st.F
		}
		return in.DeepEqual(ia.T, ia.V, ib.V, exclude, path+".("+ia.T.String()+")", notes)
	case *types.Map:
		ma, ok1 := a.(*MapVal)
		mb, ok2 := b.(*MapVal)
		if ok1 && ok2 && (ma.M == nil || mb.M == nil || (len(ma.M.Entries) == 0 && len(mb.M.Entries) == 0)) {
			na := ma.M == nil || len(ma.M.Entries) == 0
			nb := mb.M == nil || len(mb.M.Entries) == 0
			return st.Bool(na && nb)
		}
		*notes = append(*notes, path+": maps compared by identity")
		return st.Bool(ok1 && ok2 && ma.M == mb.M)
	case *types.Signature, *types.Chan:
		*notes = append(*notes, path+": compared by identity")
		return in.equal(a, b)
	}
	panic(in.unsupported("DeepEqual: type " + t.String() + " at " + path))
}
