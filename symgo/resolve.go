package symgo

import (
	"go/types"

	"golang.org/x/tools/go/ssa"

	"verif/smt"
)

// resolveInt evaluates an integer SSA operand that must be concrete for the
// executor (a slice bound). A constant or solver-unique value is used directly;
// otherwise the path is split over the feasible values in [0, limit] (values
// outside raise the slice-bounds obligation) and the results are merged.
func (in *Interp) resolveInt(v ssa.Value, env Env, def, limit int, f func(k int) Value) Value {
	if v == nil {
		return f(def)
	}
	val := in.get(env, v)
	t, ok := val.(*smt.Term)
	if !ok {
		panic(in.unsupported("slice bound is " + describe(val)))
	}
	if t.IsConst() {
		if t.W == 64 {
			return f(int(int64(t.Val)))
		}
		return f(int(t.Val))
	}
	_, signed, _ := intInfo(v.Type())
	t64 := in.St.Resize(t, 64, signed)
	in.panicIf(in.St.Cmp(smt.OpBvUlt, in.St.BV(uint64(limit), 64), t64), "slice-bounds")
	var res Value
	first := true
	for k := limit; k >= 0; k-- {
		g := in.St.Eq(t64, in.St.BV(uint64(k), 64))
		if !in.feasible(g) {
			continue
		}
		x, ok := in.tryAlt(g, func() Value { return f(k) })
		if !ok {
			continue
		}
		if first {
			res, first = x, false
		} else {
			res = in.merge(g, x, res)
		}
	}
	if first {
		panic(killPath{})
	}
	return res
}

var _ types.Type
