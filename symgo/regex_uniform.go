package symgo

import (
	"regexp"
	"regexp/syntax"

	"verif/smt"
)

// Class-uniform model of regexp on a string with symbolic bytes: if, on the
// current path, every symbolic byte is either wholly inside or wholly outside
// every literal and character class the pattern mentions, the pattern cannot
// distinguish the concretisations; the real engine is then run on one
// representative and match / capture positions are mapped back onto the
// symbolic string.

type reAtom struct {
	lit   rune // single rune (with fold) when cls == nil
	fold  bool
	cls   []rune // ranges
	notNL bool
}

func collectAtoms(re *syntax.Regexp, out *[]reAtom) {
	switch re.Op {
	case syntax.OpLiteral:
		for _, r := range re.Rune {
			*out = append(*out, reAtom{lit: r, fold: re.Flags&syntax.FoldCase != 0})
		}
	case syntax.OpCharClass:
		*out = append(*out, reAtom{cls: re.Rune})
	case syntax.OpAnyCharNotNL:
		*out = append(*out, reAtom{notNL: true})
	}
	for _, s := range re.Sub {
		collectAtoms(s, out)
	}
}

func (in *Interp) atomContains(a reAtom, b *smt.Term) *smt.Term {
	st := in.St
	switch {
	case a.notNL:
		return st.Ne(b, st.BV('\n', 8))
	case a.cls != nil:
		m := st.F
		for i := 0; i+1 < len(a.cls); i += 2 {
			lo, hi := a.cls[i], a.cls[i+1]
			if lo > 0x7f {
				continue
			}
			if hi > 0x7f {
				hi = 0x7f
			}
			m = st.Or(m, st.And(st.Cmp(smt.OpBvUle, st.BV(uint64(lo), 8), b), st.Cmp(smt.OpBvUle, b, st.BV(uint64(hi), 8))))
		}
		return m
	default:
		if a.lit > 0x7f {
			return st.F
		}
		m := st.Eq(b, st.BV(uint64(a.lit), 8))
		if a.fold {
			for _, f := range foldRunes(a.lit) {
				m = st.Or(m, st.Eq(b, st.BV(uint64(f), 8)))
			}
		}
		return m
	}
}

// representative returns a concrete string the pattern cannot tell apart from
// any other concretisation of s on this path; ok=false if the pattern can
// distinguish them.
func (in *Interp) representative(re *regexp.Regexp, s *StrVal) (string, bool) {
	if s.Opaque {
		return "", false
	}
	rs, err := syntax.Parse(re.String(), syntax.Perl)
	if err != nil {
		return "", false
	}
	var atoms []reAtom
	collectAtoms(rs, &atoms)
	bs := in.strBytes(s)
	st := in.St
	for _, b := range bs {
		if b.IsConst() {
			continue
		}
		in.panicIf(st.Cmp(smt.OpBvUle, st.BV(0x80, 8), b), "non-ascii-regexp")
		for _, a := range atoms {
			c := in.atomContains(a, b)
			if c.IsConst() {
				continue
			}
			if in.feasible(c) && in.feasible(st.Not(c)) {
				return "", false
			}
		}
	}
	// any feasible assignment is a representative
	switch in.Sol.Check(in.Guard()) {
	case smt.Unsat:
		panic(killPath{}) // the current path (alternative) cannot occur at all
	case smt.Unknown:
		return "", false
	}
	var vars []*smt.Term
	seen := map[*smt.Term]bool{}
	for _, b := range bs {
		for _, v := range collectVars(b) {
			if !seen[v] {
				seen[v] = true
				vars = append(vars, v)
			}
		}
	}
	m, err := in.Sol.Model(vars)
	if err != nil {
		return "", false
	}
	memo := map[*smt.Term]uint64{}
	rep := make([]byte, len(bs))
	for i, b := range bs {
		v, ok := st.Eval(b, m, memo)
		if !ok {
			return "", false
		}
		rep[i] = byte(v)
	}
	return string(rep), true
}

func (in *Interp) reMatchUniform(re *regexp.Regexp, s *StrVal) (Value, bool) {
	rep, ok := in.representative(re, s)
	if !ok {
		return nil, false
	}
	return in.St.Bool(re.MatchString(rep)), true
}

// captureIdx returns the submatch indices of the (unique) match of re on s:
// matched = 1 with idx, 0 when no concretisation matches, -1 when undecided.
func (in *Interp) captureIdx(re *regexp.Regexp, s *StrVal) ([]int, int) {
	if rep, ok := in.representative(re, s); ok {
		idx := re.FindStringSubmatchIndex(rep)
		if idx == nil {
			return nil, 0
		}
		return idx, 1
	}
	switch in.decided(in.reMatchSym(re, s)) {
	case 0:
		return nil, 0
	case 1:
		if idx, ok := in.reScan(re, s); ok {
			return idx, 1
		}
	}
	return nil, -1
}

func (in *Interp) reSubmatchUniform(re *regexp.Regexp, s *StrVal) (Value, bool) {
	idx, m := in.captureIdx(re, s)
	if m == -1 {
		return nil, false
	}
	if m == 0 {
		return &SliceVal{}, true
	}
	bs := in.strBytes(s)
	e := make([]Value, len(idx)/2)
	for k := range e {
		if idx[2*k] < 0 {
			e[k] = &StrVal{}
		} else {
			e[k] = in.mkStr(bs[idx[2*k]:idx[2*k+1]])
		}
	}
	return in.mkSlice(e), true
}

// reReplaceUniform models ReplaceAllString for a pattern that matches the whole
// string (anchored both sides) with a template made of literals and ${name}/$n.
func (in *Interp) reReplaceUniform(re *regexp.Regexp, s *StrVal, tmpl string) (Value, bool) {
	idx, m := in.captureIdx(re, s)
	if m == -1 {
		return nil, false
	}
	if m == 0 {
		return s, true // nothing replaced
	}
	if idx[0] != 0 || idx[1] != s.Len() {
		return nil, false // partial matches: positions of the untouched text would be needed
	}
	bs := in.strBytes(s)
	names := re.SubexpNames()
	var out []*smt.Term
	for i := 0; i < len(tmpl); {
		if tmpl[i] != '$' {
			out = append(out, in.St.BV(uint64(tmpl[i]), 8))
			i++
			continue
		}
		// $$ | ${name} | $name | $1
		if i+1 < len(tmpl) && tmpl[i+1] == '$' {
			out = append(out, in.St.BV('$', 8))
			i += 2
			continue
		}
		j := i + 1
		name := ""
		if j < len(tmpl) && tmpl[j] == '{' {
			k := j + 1
			for k < len(tmpl) && tmpl[k] != '}' {
				k++
			}
			if k >= len(tmpl) {
				return nil, false
			}
			name = tmpl[j+1 : k]
			i = k + 1
		} else {
			k := j
			for k < len(tmpl) && (tmpl[k] == '_' || tmpl[k] >= '0' && tmpl[k] <= '9' || tmpl[k] >= 'a' && tmpl[k] <= 'z' || tmpl[k] >= 'A' && tmpl[k] <= 'Z') {
				k++
			}
			name = tmpl[j:k]
			i = k
		}
		g := -1
		isNum := name != ""
		num := 0
		for _, c := range name {
			if c < '0' || c > '9' {
				isNum = false
				break
			}
			num = num*10 + int(c-'0')
		}
		if isNum {
			g = num
		} else {
			for k, n := range names {
				if n == name && n != "" {
					g = k
				}
			}
		}
		if g < 0 || 2*g+1 >= len(idx) {
			continue // unknown group expands to nothing
		}
		if idx[2*g] >= 0 {
			out = append(out, bs[idx[2*g]:idx[2*g+1]]...)
		}
	}
	return in.mkStr(out), true
}
