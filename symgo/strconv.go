package symgo

import (
	"math"
	"regexp"
	"strconv"

	"verif/smt"
)

func pow(a, b float64) float64 { return math.Pow(a, b) }

// effWidth returns the number of low bits that can be non-zero.
func effWidth(t *smt.Term) (*smt.Term, int) {
	if t.Op == smt.OpZext {
		return t.Args[0], t.Args[0].W
	}
	return t, t.W
}

// formatInt models strconv.Itoa/FormatInt/FormatUint.
func (in *Interp) formatInt(t *smt.Term, base int, signed bool) Value {
	st := in.St
	if t.IsConst() {
		if signed {
			return &StrVal{C: strconv.FormatInt(int64(signExtend(t.Val, t.W)), base)}
		}
		return &StrVal{C: strconv.FormatUint(t.Val, base)}
	}
	x, w := effWidth(t)
	if w > 3 {
		// narrow through the solver: the smallest of 3/4/8/16 bits the value provably fits in
		for _, nw := range []int{3, 4, 8, 16} {
			if nw >= w {
				break
			}
			if !in.feasible(st.Cmp(smt.OpBvUle, st.BV(uint64(1)<<uint(nw), t.W), t)) {
				x, w = st.Extract(nw-1, 0, t), nw
				break
			}
		}
	}
	if signed && w == t.W {
		// may be negative: only supported when provably non-negative
		neg := st.Cmp(smt.OpBvSlt, t, st.BV(0, t.W))
		if in.feasible(neg) {
			panic(in.unsupported("formatting a possibly negative symbolic integer"))
		}
	}
	switch base {
	case 2:
		if w > in.MaxUnion {
			panic(in.unsupported("binary formatting of a wide symbolic integer"))
		}
		var out Value
		for L := 1; L <= w; L++ {
			bs := make([]*smt.Term, L)
			for k := 0; k < L; k++ {
				bit := st.Extract(L-1-k, L-1-k, x)
				bs[k] = st.Ite(st.Eq(bit, st.BV(1, 1)), st.BV('1', 8), st.BV('0', 8))
			}
			s := in.mkStr(bs)
			if out == nil {
				out = s
				continue
			}
			// length L applies when bit L-1 is the highest set bit: some bit >= L-1 set means length >= L
			hi := st.Ne(st.Extract(w-1, L-1, x), st.BV(0, w-L+1))
			// nested: if any bit at or above L-1 is set, prefer the longer form
			out = in.mergeLen(hi, s, out, x, L, w)
		}
		return out
	case 10:
		if w > 16 {
			panic(in.unsupported("decimal formatting of a symbolic integer wider than 16 bits"))
		}
		W := w + 1
		if W < 8 {
			W = 8
		}
		xx := st.Zext(W-w, x)
		maxDigits := len(strconv.FormatUint(uint64(1)<<uint(w)-1, 10))
		digit := func(k int) *smt.Term { // k-th digit from the right
			p := uint64(1)
			for i := 0; i < k; i++ {
				p *= 10
			}
			d := st.Bin(smt.OpBvUrem, st.Bin(smt.OpBvUdiv, xx, st.BV(p, W)), st.BV(10, W))
			return st.Bin(smt.OpBvAdd, st.Resize(d, 8, false), st.BV('0', 8))
		}
		var out Value
		for n := 1; n <= maxDigits; n++ {
			bs := make([]*smt.Term, n)
			for k := 0; k < n; k++ {
				bs[k] = digit(n - 1 - k)
			}
			s := in.mkStr(bs)
			if out == nil {
				out = s
				continue
			}
			p := uint64(1)
			for i := 0; i < n-1; i++ {
				p *= 10
			}
			ge := st.Cmp(smt.OpBvUle, st.BV(p, W), xx) // value has at least n digits
			if !in.feasible(ge) {
				break // longer forms cannot occur on this path
			}
			out = in.mergeGE(ge, s, out)
		}
		return out
	}
	panic(in.unsupported("formatting symbolic integer in base " + strconv.Itoa(base)))
}

// mergeGE builds "if ge then longer else shorter-alternatives" keeping a flat union.
func (in *Interp) mergeGE(ge *smt.Term, longer Value, shorter Value) Value {
	return in.merge(ge, longer, shorter)
}

func (in *Interp) mergeLen(hi *smt.Term, longer Value, shorter Value, x *smt.Term, L, w int) Value {
	return in.merge(hi, longer, shorter)
}

// parseInt models strconv.Atoi/ParseInt/ParseUint for bases 2 and 10.
func (in *Interp) parseInt(s *StrVal, base, bitSize int, signed bool) Value {
	st := in.St
	if bitSize == 0 {
		bitSize = 64
	}
	if c, ok := s.Concrete(); ok {
		if signed {
			v, err := strconv.ParseInt(c, base, bitSize)
			return in.tuple(st.BV(uint64(v), 64), in.errVal(err))
		}
		v, err := strconv.ParseUint(c, base, bitSize)
		return in.tuple(st.BV(v, 64), in.errVal(err))
	}
	if s.Opaque {
		panic(in.unsupported("parse of opaque string"))
	}
	bs := in.strBytes(s)
	if len(bs) == 0 {
		return in.tuple(st.BV(0, 64), in.MkError("strconv: invalid syntax"))
	}
	if signed {
		for _, sign := range []byte{'-', '+'} {
			if in.decided(st.Eq(bs[0], st.BV(uint64(sign), 8))) != 0 {
				panic(in.unsupported("parse of a string with a possible sign"))
			}
		}
	}
	if base != 10 && base != 2 {
		panic(in.unsupported("parse of symbolic string in base " + strconv.Itoa(base)))
	}
	maxLen := 18
	if base == 2 {
		maxLen = 63
	}
	if len(bs) > maxLen {
		panic(in.unsupported("parse of a long symbolic string"))
	}
	okAll := st.T
	val := st.BV(0, 64)
	for _, b := range bs {
		d := st.Bin(smt.OpBvSub, b, st.BV('0', 8))
		okAll = st.And(okAll, st.Cmp(smt.OpBvUlt, d, st.BV(uint64(base), 8)))
		val = st.Bin(smt.OpBvAdd, st.Bin(smt.OpBvMul, val, st.BV(uint64(base), 64)), st.Zext(56, d))
	}
	inRange := st.T
	eff := bitSize
	if signed {
		eff = bitSize - 1
	}
	if eff < 64 {
		inRange = st.Cmp(smt.OpBvUlt, val, st.BV(uint64(1)<<uint(eff), 64))
	}
	good := st.And(okAll, inRange)
	// on syntax error the result is 0; on range error the maximum value
	maxv := ^uint64(0)
	if eff < 64 {
		maxv = uint64(1)<<uint(eff) - 1
	}
	rv := st.Ite(okAll, st.Ite(inRange, val, st.BV(maxv, 64)), st.BV(0, 64))
	errv := in.merge(good, &IfaceVal{}, in.MkError("strconv: parse error"))
	return in.tuple(rv, errv)
}

// ---- regular expressions: concrete strings use the real engine ----

func (in *Interp) reMatch(re *regexp.Regexp, s *StrVal) Value {
	if c, ok := s.Concrete(); ok {
		return in.St.Bool(re.MatchString(c))
	}
	if v, ok := in.reMatchUniform(re, s); ok {
		return v
	}
	return in.reMatchSym(re, s)
}

func (in *Interp) reSubmatch(re *regexp.Regexp, s *StrVal) Value {
	if c, ok := s.Concrete(); ok {
		return in.strSliceVal(re.FindStringSubmatch(c))
	}
	if v, ok := in.reSubmatchUniform(re, s); ok {
		return v
	}
	return in.reSubmatchSym(re, s)
}

func (in *Interp) reReplaceAll(re *regexp.Regexp, s, repl *StrVal) Value {
	c, ok1 := s.Concrete()
	r, ok2 := repl.Concrete()
	if ok1 && ok2 {
		return &StrVal{C: re.ReplaceAllString(c, r)}
	}
	if ok2 {
		if v, ok := in.reReplaceUniform(re, s, r); ok {
			return v
		}
	}
	panic(in.unsupported("regexp.ReplaceAllString on a symbolic string the pattern can distinguish: " + re.String()))
}
